"""Spec functions (oracles) written from the property statements, never from the code under test."""
