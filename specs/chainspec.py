"""Specification functions (oracles) for C09 / C10 / C16 and the generator of acyclic decay-table sets.

Everything here is written from the property statements in /verif/properties.jsonl (and the spec functions of
DESIGN.md "### C09", "### C10", "### C16"); nothing in this module calls build_decay_chains,
expand_decay_modes, _expand_decay_modes, DaughtersDict, DescriptorFormat or print_decay_modes.

Vocabulary
  T      table map  {mother: [ {bf, fs:[names], model, model_params}, ... ]}   (one entry per Decay block)
  S      the particles to be treated as stable
  A      alias map  {alias: aliased particle}
  ts     JSON-able model of a table set:  {"aliases": [[alias, target], ...],
                                           "blocks":  [[mother, [line, ...]], ...]}     (file order)
         line = {"bf": "<literal>", "fs": [names], "model": str, "params": [literals], "photos": bool}
"""
from __future__ import annotations

import hashlib
import itertools
import json
import multiprocessing as mp
import os
import random
from collections import Counter
from decimal import Decimal, InvalidOperation
from fractions import Fraction

# ----------------------------------------------------------------------------------------------------------
# reading the table map of a parsed DecFileParser through its per-table queries
# ----------------------------------------------------------------------------------------------------------


def read_tables(parser):
    """T of the instance: one entry per mother (first block wins), one dict per decay line, in order."""
    T = {}
    for m in parser.list_decay_mother_names():
        if m in T:
            continue
        T[m] = [dict(parser._decay_mode_details(dm, display_photos_keyword=False))
                for dm in parser._find_decay_modes(m)]
    return T


def freeze(obj):
    """Canonical JSON text of a JSON-able value (used for snapshots and hashing)."""
    return json.dumps(obj, sort_keys=True, default=str)


def digest(obj):
    """8-byte fingerprint of a JSON-able value (for counting distinct cases across worker processes)"""
    return hashlib.blake2b(freeze(obj).encode(), digest_size=8).digest()


def reachable(T, m):
    """m and every particle with a table that occurs below m"""
    seen, stack = {m}, [m]
    while stack:
        for ln in T.get(stack.pop(), []):
            for x in ln["fs"]:
                if x in T and x not in seen:
                    seen.add(x)
                    stack.append(x)
    return seen


# ----------------------------------------------------------------------------------------------------------
# C09   chain / sub
# ----------------------------------------------------------------------------------------------------------


class NoTable(Exception):
    """spec-level 'documented not-found error'"""


def sub(T, S, x):
    return x if (x in S or x not in T) else chain(T, S, x)


def chain(T, S, m):
    if m not in T:
        raise NoTable(m)
    return {m: [{"bf": line["bf"], "fs": [sub(T, S, x) for x in line["fs"]], "model": line["model"],
                 "model_params": line["model_params"]} for line in T[m]]}


def chain_size(T, S, m, memo=None, stack=()):
    """number of nodes (particles + lines) of chain(T,S,m); raises ValueError on a cycle"""
    if memo is None:
        memo = {}
    if m in memo:
        return memo[m]
    if m in stack:
        raise ValueError("cycle through " + m)
    n = 1
    for line in T[m]:
        n += 1
        for x in line["fs"]:
            n += 1 if (x in S or x not in T) else chain_size(T, S, x, memo, stack + (m,))
    memo[m] = n
    return n


def chain_depth(c):
    """0 for a chain whose daughters are all bare names"""
    (modes,) = c.values()
    d = 0
    for mode in modes:
        for x in mode["fs"]:
            if isinstance(x, dict):
                d = max(d, 1 + chain_depth(x))
    return d


# ----------------------------------------------------------------------------------------------------------
# C10   count / paths
# ----------------------------------------------------------------------------------------------------------


def decays(T, x):
    """a daughter is followed iff it has decay lines (no block, or an empty block => stable)"""
    return x in T and len(T[x]) > 0


def count(T, m, memo=None):
    """sum over m's lines of the product over daughters of the daughters' own counts (1 for a stable one)"""
    if memo is None:
        memo = {}
    if m in memo:
        return memo[m]
    total = 0
    for line in T[m]:
        prod = 1
        for x in line["fs"]:
            prod *= count(T, x, memo) if decays(T, x) else 1
        total += prod
    memo[m] = total
    return total


def paths(T, A, m, top=True, memo=None):
    """One descriptor per choice of one line for m and, recursively, for every daughter that has lines.
    Order: lines in order, choices in itertools.product order over the line's daughters in fs order.
    Rendering: '{mother} -> {daughters}' (top) / '({mother} -> {daughters})' (nested), mother shown under the
    particle it aliases, daughters joined by single spaces in sorted() order."""
    if memo is None:
        memo = {}
    if not top and m in memo:
        return memo[m]
    shown = A.get(m, m)
    out = []
    for line in T[m]:
        opts = [paths(T, A, x, False, memo) if decays(T, x) else [x] for x in line["fs"]]
        for choice in itertools.product(*opts):
            daughters = " ".join(sorted(choice))
            out.append(f"{shown} -> {daughters}" if top else f"({shown} -> {daughters})")
    if not top:
        memo[m] = out
    return out


def _split_depth0(s, sep):
    """split s at every occurrence of sep that is outside parentheses"""
    parts, depth, start, i = [], 0, 0, 0
    while i < len(s):
        c = s[i]
        if c == "(":
            depth += 1
        elif c == ")":
            depth -= 1
            if depth < 0:
                return None
        elif depth == 0 and s.startswith(sep, i):
            parts.append(s[start:i])
            i += len(sep)
            start = i
            continue
        i += 1
    if depth != 0:
        return None
    parts.append(s[start:])
    return parts


def canon_descriptor(s, top=True):
    """Order-insensitive reading of a descriptor: (mother, sorted tuple of daughters), daughters being names or
    nested readings. None if s is not of the default form. Names may contain balanced parentheses (psi(2S))."""
    if not top:
        if not (s.startswith("(") and s.endswith(")")):
            return None
        s = s[1:-1]
    halves = _split_depth0(s, " -> ")
    if halves is None or len(halves) != 2 or not halves[0] or " " in halves[0]:
        return None
    items = _split_depth0(halves[1], " ")
    if items is None or any(it == "" for it in items):
        return None
    kids = []
    for it in items:
        inner = _split_depth0(it[1:-1], " -> ") if (it.startswith("(") and it.endswith(")")) else None
        if inner is not None and len(inner) == 2:
            k = canon_descriptor(it, top=False)
            if k is None:
                return None
            kids.append(k)
        else:
            kids.append(it)
    return (halves[0], tuple(sorted(kids, key=repr)))


def same_paths_as_multiset(got, want):
    """what the property text fixes: the multiset of descriptors, each read up to the order of its daughters"""
    if len(got) != len(want):
        return False
    cg = Counter(repr(canon_descriptor(g)) if isinstance(g, str) else "<non-str>" for g in got)
    cw = Counter(repr(canon_descriptor(w)) for w in want)
    return "None" not in cg and "<non-str>" not in cg and cg == cw


# ----------------------------------------------------------------------------------------------------------
# C16   order / norm / row
# ----------------------------------------------------------------------------------------------------------


def refused(normalize, scale):
    """contradictory (scale together with normalize) or out-of-range (scale not in (0,1]) options"""
    return scale is not None and (bool(normalize) or not (0 < scale <= 1))


def row_order(bfs, ascending):
    """indices of the lines ordered by bf in the requested direction, file order among equal values"""
    if ascending:
        return sorted(range(len(bfs)), key=lambda i: (bfs[i], i))
    return sorted(range(len(bfs)), key=lambda i: (-bfs[i], i))


def norm_of(bfs, normalize, scale):
    """(float divisor, exact divisor)"""
    if normalize:
        return sum(bfs), sum(Fraction(b) for b in bfs)
    if scale is not None:
        return max(bfs) / scale, Fraction(max(bfs)) / Fraction(scale)
    return 1.0, Fraction(1)


def fmt7(v):
    return format(v, "<10.7g").strip()


def value_token_ok(shown, bf, norm, norm_exact):
    """shown == format(bf/norm, '<10.7g'); if not literally equal, accept exactly those strings that are a
    7-significant-digit rounding of the exact quotient (float summation order must not create false alarms).
    Returns (ok, used_fallback)."""
    if shown == fmt7(bf / norm):
        return True, False
    try:
        d = Decimal(shown)
    except InvalidOperation:
        return False, True
    if not d.is_finite():
        return False, True
    ndig = len(d.normalize().as_tuple().digits)
    exact = Fraction(bf) / norm_exact
    if exact <= 0 or ndig > 7:
        return False, True
    e = 0
    while Fraction(10) ** (e + 1) <= exact:
        e += 1
    while Fraction(10) ** e > exact:
        e -= 1
    half_ulp = Fraction(10) ** (e - 6) / 2
    return abs(Fraction(d) - exact) <= half_ulp * (1 + Fraction(1, 2 ** 40)), True


def row_tokens(line, photos, print_model, display_photos_keyword):
    """everything a row shows after the value: daughters in order, then iff print_model the model (with the PHOTOS
    keyword iff the line is flagged and the keyword is requested) and the parameters"""
    toks = list(line["fs"])
    if print_model:
        if photos and display_photos_keyword:
            toks.append("PHOTOS")
        toks.extend(str(line["model"]).split())
        mp_ = line["model_params"]
        if mp_ != "":
            for p in mp_:
                toks.extend(str(p).split())
    return toks


def split_row(row):
    """layout-agnostic reading of a printed row: whitespace-separated tokens, an optional final ';' dropped"""
    r = row.rstrip()
    if r.endswith(";"):
        r = r[:-1]
    return r.split()


def check_table_output(lines, photos, out_text, print_model, display_photos_keyword, ascending, normalize, scale):
    """Compare captured stdout with the specified rows. Returns (ok, clause, what, n_fallback)."""
    bfs = [ln["bf"] for ln in lines]
    order = row_order(bfs, ascending)
    norm, norm_exact = norm_of(bfs, normalize, scale)
    got_rows = out_text.split("\n")
    if got_rows and got_rows[-1] == "":
        got_rows.pop()
    if len(got_rows) != len(lines):
        return False, "rows.count", f"{len(got_rows)} rows printed for {len(lines)} decay lines", 0
    nfb = 0
    for pos, i in enumerate(order):
        toks = split_row(got_rows[pos])
        want_rest = row_tokens(lines[i], photos[i], print_model, display_photos_keyword)
        if not toks:
            return False, "rows.content", f"row {pos} is empty", nfb
        ok, fb = value_token_ok(toks[0], bfs[i], norm, norm_exact)
        nfb += fb
        if toks[1:] != want_rest:
            direction = "ascending" if ascending else "descending"
            return False, "rows.order_content", (f"row {pos} ({direction}): expected line #{i} "
                                                 f"{[fmt7(bfs[i] / norm)] + want_rest}, printed {toks}"), nfb
        if not ok:
            return False, "value", (f"row {pos} (line #{i}): value shown {toks[0]!r}, expected {fmt7(bfs[i] / norm)!r} "
                                    f"(bf {bfs[i]!r} / norm {norm!r})"), nfb
    return True, "rows", "", nfb


# ----------------------------------------------------------------------------------------------------------
# table-set models and their .dec text
# ----------------------------------------------------------------------------------------------------------

# (model, parameter literals, PHOTOS flag) assigned cyclically to the generated lines
MODELS = [("PHSP", [], False), ("VSS", [], True), ("HELAMP", ["1.0", "0.0", "0.5", "1.5"], False),
          ("SVS", [], False), ("LbAmpGen", ["DtoKpipipi_v1"], False), ("VLL", [], True),
          ("HELAMP", ["1.0", "0.0"], True), ("VSP_PWAVE", [], False)]


def decorate(blocks, aliases=(), salt=0):
    """blocks: [[mother, [fs, ...]], ...] -> ts with distinct bf literals and cyclic models"""
    out = []
    for bi, (m, fss) in enumerate(blocks):
        lines = []
        for li, fs in enumerate(fss):
            model, params, photos = MODELS[(bi * 3 + li + salt) % len(MODELS)]
            lines.append({"bf": f"0.{bi + 1:02d}{li + 1}", "fs": list(fs), "model": model, "params": list(params),
                          "photos": photos})
        out.append([m, lines])
    return {"aliases": [list(a) for a in aliases], "blocks": out}


def rename(ts, f):
    return {"aliases": [[f(a), f(t)] for a, t in ts["aliases"]],
            "blocks": [[f(m), [dict(ln, fs=[f(x) for x in ln["fs"]]) for ln in lines]] for m, lines in ts["blocks"]]}


def with_prefix(ts, prefix):
    return rename(ts, lambda n: prefix + n) if prefix else ts


def render(tss):
    """the .dec text of one or several table sets (Alias statements first, then the Decay blocks in order)"""
    if isinstance(tss, dict):
        tss = [tss]
    out = []
    for ts in tss:
        for a, t in ts["aliases"]:
            out.append(f"Alias {a} {t}")
    for ts in tss:
        for m, lines in ts["blocks"]:
            out.append(f"Decay {m}")
            for ln in lines:
                model = ("PHOTOS " if ln["photos"] else "") + ln["model"]
                params = (" " + " ".join(ln["params"])) if ln["params"] else ""
                out.append(f"  {ln['bf']}  {' '.join(ln['fs'])}  {model}{params};")
            out.append("Enddecay")
    out.append("End")
    return "\n".join(out) + "\n"


def _param_value(p):
    try:
        return float(p)
    except ValueError:
        return p


def tables_of_model(ts):
    """T as the generator wrote it (used to cross-check what the parser's queries return)"""
    T = {}
    for m, lines in ts["blocks"]:
        if m in T:
            continue
        T[m] = [{"bf": float(ln["bf"]), "fs": list(ln["fs"]), "model": ln["model"],
                 "model_params": [_param_value(p) for p in ln["params"]] if ln["params"] else ""} for ln in lines]
    return T


def apply_alias_pattern(blocks, pattern):
    """pattern: {particle: (alias_name, target)}; the particle is renamed to alias_name everywhere"""
    ren = {p: a for p, (a, _t) in pattern.items()}
    f = lambda n: ren.get(n, n)  # noqa: E731
    new = [[f(m), [[f(x) for x in fs] for fs in fss]] for m, fss in blocks]
    return new, [[a, t] for _p, (a, t) in sorted(pattern.items())]


# ----------------------------------------------------------------------------------------------------------
# exhaustive small scopes
# ----------------------------------------------------------------------------------------------------------


def _lines(alpha, W):
    return [list(s) for w in range(1, W + 1) for s in itertools.product(alpha, repeat=w)]


def _tables(alpha, L, W):
    ls = _lines(alpha, W)
    return [list(t) for n in range(0, L + 1) for t in itertools.product(ls, repeat=n)]


def enum_scope(K, L, W):
    """All table sets over the ranked particles P0 < ... < P(K-1) and the table-less leaf 'x' in which
    - a line of P_r is a sequence of 1..W daughters drawn (with repetition) from {P_(r-1), ..., P0, x},
    - every particle has a Decay block with 0..L lines (0 = empty block),
    - every particle is reachable from the top particle P(K-1)   (otherwise the set is, for the top mother, a set of a
      smaller K up to renaming).
    Yields blocks = [[mother, [fs, ...]], ...] listed top-down."""
    names = [f"P{r}" for r in range(K)]
    per = [_tables(names[:r][::-1] + ["x"], L, W) for r in range(K)]
    top = names[-1]
    for combo in itertools.product(*per):
        reach, stack = {top}, [top]
        while stack:
            m = stack.pop()
            for fs in combo[int(m[1:])]:
                for d in fs:
                    if d != "x" and d not in reach:
                        reach.add(d)
                        stack.append(d)
        if len(reach) == K:
            yield [[names[r], [list(fs) for fs in combo[r]]] for r in reversed(range(K))]


def scope_text(scopes):
    return " u ".join(f"(K={k},L<={l},W<={w})" for k, l, w in scopes)


def enum_scopes(scopes):
    """union of several scopes without repeating a table set"""
    seen = set()
    for K, L, W in scopes:
        for blocks in enum_scope(K, L, W):
            key = freeze(blocks)
            if key in seen:
                continue
            seen.add(key)
            yield blocks


# ----------------------------------------------------------------------------------------------------------
# larger sampled family (sizes above every small literal: 3-5 daughters, 4-5 lines, depth up to 4, aliases)
# ----------------------------------------------------------------------------------------------------------

LEAVES = ["pi+", "K-", "gamma", "e+"]


def random_blocks(rng, max_count=4000, max_size=30000):
    """One random acyclic table set. Particles D0..Dn with a rank 0..4 (daughters only of strictly lower rank),
    0..5 lines each, 1..5 daughters per line, repeated daughters, leaves without a block, one leaf with an empty
    block, aliases (to a fresh name, to a leaf, or to another decaying particle). Rejected and redrawn while the
    independently computed path count / unfolding size of any mother exceeds the caps."""
    for _attempt in range(200):
        n = rng.randint(2, 7)
        ranks = sorted(rng.randint(0, 4) for _ in range(n))
        ranks[0] = 0
        # make ranks contiguous so that depth is reached through real chains
        for i in range(1, n):
            if ranks[i] > ranks[i - 1] + 1:
                ranks[i] = ranks[i - 1] + 1
        names = [f"D{i}" for i in range(n)]
        leaves = list(LEAVES)
        empty_leaf = rng.random() < 0.4
        blocks = []
        for i in range(n):
            lower = [names[j] for j in range(n) if ranks[j] < ranks[i]]
            nl = rng.choice([0, 1, 1, 2, 2, 3, 3, 4, 4, 5])
            fss = []
            for _ in range(nl):
                nd = rng.choice([1, 2, 2, 3, 3, 3, 4, 4, 5])
                fs = []
                for _k in range(nd):
                    r = rng.random()
                    if fs and r < 0.25:
                        fs.append(rng.choice(fs))            # repeated daughter
                    elif lower and r < 0.7:
                        # prefer the next lower rank so that chains get deep
                        best = [x for x in lower if ranks[names.index(x)] == ranks[i] - 1]
                        fs.append(rng.choice(best if rng.random() < 0.6 else lower))
                    elif empty_leaf and r < 0.8:
                        fs.append("E0")
                    else:
                        fs.append(rng.choice(leaves))
                fss.append(fs)
            blocks.append([names[i], fss])
        if empty_leaf:
            blocks.append(["E0", []])
        pattern = {}
        for i in range(n):
            if rng.random() < 0.35:
                kind = rng.random()
                if kind < 0.5:
                    target = f"Q{i}"
                elif kind < 0.75:
                    target = rng.choice(leaves)
                else:
                    target = rng.choice([x for x in names if x != names[i]])
                pattern[names[i]] = (f"My{names[i]}", target)
        if empty_leaf and rng.random() < 0.3:
            pattern["E0"] = ("MyE0", "QE")
        blocks, aliases = apply_alias_pattern(blocks, pattern)
        rng.shuffle(blocks)
        T = {m: [{"fs": fs} for fs in fss] for m, fss in blocks}
        memo = {}
        if max(count(T, m, memo) for m in T) > max_count:
            continue
        smemo = {}
        if max(chain_size(T, (), m, smemo) for m in T) > max_size:
            continue
        return blocks, aliases
    raise RuntimeError("random_blocks: caps too tight")


def wide_family():
    """deterministic hand-shaped sets beyond the small scopes: 3-5 daughters, 4-6 lines, depth 4, repetitions"""
    fam = []
    # depth-4 ladder with repeated daughters and wide lines
    # (path counts 2, 5, 46, 277, 2067)
    fam.append(([["P4", [["P3", "P0", "x"], ["P1", "x", "P3", "y"], ["x", "y", "z", "x", "y"], ["P0"], ["P1", "P1", "P1"]]],
                 ["P3", [["P2", "x"], ["x", "P2", "y", "P1"], ["z"]]],
                 ["P2", [["P1", "x", "P1"], ["y", "y"], ["P0", "P1", "P0", "x"]]],
                 ["P1", [["P0", "P0"], ["x"]]],
                 ["P0", [["x", "y"], ["z", "z", "z"]]]], []))
    # the same ladder, lower three particles aliases (fresh target, target with a table, target a leaf)
    fam.append(apply_alias_pattern(fam[0][0], {"P2": ("MyP2", "Q2"), "P1": ("MyP1", "P0"), "P0": ("MyP0", "x")}))
    # empty blocks at several depths, 6 lines
    fam.append(([["A", [["B", "C", "E"], ["E", "E"], ["B"], ["C", "x"], ["x", "x", "x", "x"], ["E", "B", "E", "B"]]],
                 ["B", [["C", "E"], ["x", "y"], ["E"], ["C", "C", "C"]]],
                 ["C", [["E", "x"], ["y"]]],
                 ["E", []]], []))
    fam.append(apply_alias_pattern(fam[2][0], {"E": ("MyE", "QE"), "B": ("MyB", "QB")}))
    # a single table with 1..6 lines of 1..5 identical daughters
    fam.append(([["M", [["d"] * k for k in range(1, 6)] + [["d", "c", "d", "c"]]], ["d", [["x"], ["y", "y"]]]], []))
    # two aliases of the same particle, both decaying differently, used side by side
    fam.append(apply_alias_pattern([["T", [["a1", "a2", "x"], ["a2", "a2", "a1", "a1"]]], ["a1", [["x"], ["y"], ["z"]]],
                                    ["a2", [["x", "x"], ["y", "y"]]]], {"a1": ("Mya1", "Q"), "a2": ("Mya2", "Q")}))
    return fam


# ----------------------------------------------------------------------------------------------------------
# shrinking of a failing table set, process pool
# ----------------------------------------------------------------------------------------------------------


def shrink_ts(ts, still_fails, keep_mothers=(), budget=400):
    """greedy one-at-a-time deletion of aliases, blocks, lines and daughters while `still_fails(ts)` stays true"""
    def attempt(cand):
        nonlocal budget
        if budget <= 0:
            return False
        budget -= 1
        try:
            return bool(still_fails(cand))
        except Exception:
            return False

    changed = True
    while changed and budget > 0:
        changed = False
        for i in range(len(ts["aliases"]) - 1, -1, -1):
            cand = {"aliases": ts["aliases"][:i] + ts["aliases"][i + 1:], "blocks": ts["blocks"]}
            if attempt(cand):
                ts, changed = cand, True
        for i in range(len(ts["blocks"]) - 1, -1, -1):
            if ts["blocks"][i][0] in keep_mothers:
                continue
            cand = {"aliases": ts["aliases"], "blocks": ts["blocks"][:i] + ts["blocks"][i + 1:]}
            if attempt(cand):
                ts, changed = cand, True
        for bi in range(len(ts["blocks"])):
            m, lines = ts["blocks"][bi]
            for li in range(len(lines) - 1, -1, -1):
                lines = ts["blocks"][bi][1]
                nb = [m, lines[:li] + lines[li + 1:]]
                cand = {"aliases": ts["aliases"], "blocks": ts["blocks"][:bi] + [nb] + ts["blocks"][bi + 1:]}
                if attempt(cand):
                    ts, changed = cand, True
        for bi in range(len(ts["blocks"])):
            for li in range(len(ts["blocks"][bi][1])):
                for di in range(len(ts["blocks"][bi][1][li]["fs"]) - 1, -1, -1):
                    m, lines = ts["blocks"][bi]
                    fs = lines[li]["fs"]
                    if len(fs) <= 1:
                        continue
                    nl = dict(lines[li], fs=fs[:di] + fs[di + 1:])
                    nb = [m, lines[:li] + [nl] + lines[li + 1:]]
                    cand = {"aliases": ts["aliases"], "blocks": ts["blocks"][:bi] + [nb] + ts["blocks"][bi + 1:]}
                    if attempt(cand):
                        ts, changed = cand, True
    return ts


def nprocs():
    return max(1, min(16, os.cpu_count() or 1))


def pmap(fn, tasks, procs=None):
    """unordered map over forked worker processes (<= 16)"""
    tasks = list(tasks)
    procs = min(procs or nprocs(), max(1, len(tasks)))
    if procs <= 1:
        return [fn(t) for t in tasks]
    ctx = mp.get_context("fork")
    with ctx.Pool(procs) as pool:
        return list(pool.imap_unordered(fn, tasks, chunksize=1))


def chunks(seq, n):
    seq = list(seq)
    return [seq[i:i + n] for i in range(0, len(seq), n)]


def rng_for(seed, tag):
    return random.Random(f"{tag}:{seed}")
