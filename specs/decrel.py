"""specs/decrel.py -- relational specification helpers shared by checks C02, C03, C06 and C08.

Everything in this module is written from the property statements (properties.jsonl) and DESIGN.md
sections 5 (C02/C03/C06/C08) and 7 (preconditions).  Nothing here re-implements the parser: the
oracles are *relational* (two runs of the real code must agree) or are evaluated on abstract files
that this module itself renders to text, so the expected answer is known by construction.

Contents
  jsonable / snapshot / first_diff      canonical JSON-able picture of every public query of a parser
  new_parser / parse_text / parse_files  thin drivers of the REAL DecFileParser (warnings silenced)
  render                                 abstract file (list of statements) -> .dec text
  conj / expected_tables                 the conjugation rule and the tables a file states (C03/C08)
  scenario / all_scenarios / permute     exhaustive small-scope generator of abstract files
  evtgen_names                           the EvtGen name table of the installed `particle`
  scratch_root / pmap                    temp-dir policy (never /tmp) and fork pool (<= 16 processes)
"""
from __future__ import annotations

import contextlib
import io
import itertools
import multiprocessing as mp
import os
import re
import warnings

MAX_PROCS = 16

# ----------------------------------------------------------------------------------------------
# JSON-able canonical values
# ----------------------------------------------------------------------------------------------


def jsonable(v):
    """Plain data: dict -> {"dict": [[k, v], ...]} (insertion order kept, non-string keys allowed),
    list/tuple -> list, enum -> {"enum": name, "value": int}, str subclasses -> str, numbers as they are."""
    import enum
    if isinstance(v, enum.Enum):
        return {"enum": v.name, "value": int(v.value)}
    if isinstance(v, bool) or v is None:
        return v
    if isinstance(v, int):
        return int(v)
    if isinstance(v, float):
        return float(v)
    if isinstance(v, str):
        return str(v)
    if isinstance(v, dict):
        out = []
        for k, x in v.items():
            if k == "model_params" and (x == "" or x is None):
                x = []          # P-NUM / C01: an absent parameter list is reported as empty
            out.append([jsonable(k), jsonable(x)])
        return {"dict": out}
    if isinstance(v, (list, tuple)):
        return [jsonable(x) for x in v]
    if isinstance(v, (set, frozenset)):
        return {"set": sorted(jsonable(x) for x in v)}
    return {"repr": repr(v)}


def first_diff(a, b, path="$"):
    """Path and values of the first difference between two JSON-able values, or None."""
    if type(a) is not type(b) and not (isinstance(a, (int, float)) and isinstance(b, (int, float))
                                       and not isinstance(a, bool) and not isinstance(b, bool)):
        return f"{path}: {_short(a)} != {_short(b)}"
    if isinstance(a, dict):
        if list(a.keys()) != list(b.keys()):
            return f"{path}: keys {list(a.keys())} != {list(b.keys())}"
        for k in a:
            d = first_diff(a[k], b[k], f"{path}.{k}")
            if d:
                return d
        return None
    if isinstance(a, list):
        for i, (x, y) in enumerate(zip(a, b)):
            d = first_diff(x, y, f"{path}[{i}]")
            if d:
                return d
        if len(a) != len(b):
            return f"{path}: length {len(a)} != {len(b)} (extra: {_short((a if len(a) > len(b) else b)[min(len(a), len(b))])})"
        return None
    if a != b:
        return f"{path}: {_short(a)} != {_short(b)}"
    return None


def _short(v, n=160):
    s = repr(v)
    return s if len(s) <= n else s[:n] + "..."


# ----------------------------------------------------------------------------------------------
# Drivers of the real code
# ----------------------------------------------------------------------------------------------


def _DecFileParser():
    from decaylanguage.dec.dec import DecFileParser
    return DecFileParser


def parse_text(text, include_cc=True, extra_models=(), extra_models_calls=None):
    """from_string + (load_additional_decay_models) + parse on the real class; warnings silenced."""
    p = _DecFileParser().from_string(text)
    return _finish(p, include_cc, extra_models, extra_models_calls)


def parse_files(paths, include_cc=True, extra_models=(), extra_models_calls=None):
    p = _DecFileParser()(*paths)
    return _finish(p, include_cc, extra_models, extra_models_calls)


def _finish(p, include_cc, extra_models, extra_models_calls):
    calls = extra_models_calls if extra_models_calls is not None else ([list(extra_models)] if extra_models else [])
    for c in calls:
        p.load_additional_decay_models(*c)
    with warnings.catch_warnings():
        warnings.simplefilter("ignore")
        if include_cc is True:
            p.parse()
        else:
            p.parse(include_ccdecays=include_cc)
    return p


def reparse(p, include_cc=True):
    with warnings.catch_warnings():
        warnings.simplefilter("ignore")
        if include_cc is True:
            p.parse()
        else:
            p.parse(include_ccdecays=include_cc)


def table_rows(p, mother):
    """Every line of the (first) table of `mother`: bf, daughters, model with and without the PHOTOS
    keyword, parameters ('' and [] identified)."""
    rows = []
    for dm in p._find_decay_modes(mother):
        d = p._decay_mode_details(dm, True)
        d0 = p._decay_mode_details(dm, False)
        par = d["model_params"]
        rows.append({"bf": jsonable(d["bf"]), "fs": jsonable(list(d["fs"])), "model": str(d["model"]),
                     "model_bare": str(d0["model"]), "params": [] if par in ("", None) else jsonable(list(par))})
    return rows


def tables_of(p):
    """[[mother, rows], ...] in the order of list_decay_mother_names()."""
    return [[str(m), table_rows(p, m)] for m in p.list_decay_mother_names()]


def _expansion_sizes(tables):
    """Number of fully expanded descriptors per mother computed from the table data of a snapshot (None when
    the mother sits on a cycle -- P-ACYC -- or the number exceeds the cap); used only to pick the mothers
    for which build_decay_chains / expand_decay_modes are part of the snapshot."""
    tab = {}
    for m, rows in tables:
        tab.setdefault(m, rows)
    memo = {}
    CAP = 10 ** 7

    def size(m, stack):
        if m in memo:
            return memo[m]
        if m in stack:
            return None
        stack.add(m)
        total = 0
        for r in tab[m]:
            prod = 1
            for d in r["fs"]:
                if isinstance(d, str) and d in tab:
                    s = size(d, stack)
                    if s is None:
                        stack.discard(m)
                        memo[m] = None
                        return None
                    prod *= max(s, 1)
                if prod > CAP:
                    break
            total += prod
            if total > CAP:
                total = CAP
                break
        stack.discard(m)
        memo[m] = total
        return total

    import sys
    old = sys.getrecursionlimit()
    sys.setrecursionlimit(max(old, 10000))
    try:
        return {m: size(m, set()) for m in tab}
    finally:
        sys.setrecursionlimit(old)


def pick_chain_mothers(tables, limit=3000, how_many=6):
    sizes = _expansion_sizes(tables)
    ok = [m for m, _ in tables if sizes.get(m) is not None and sizes[m] <= limit]
    ok = list(dict.fromkeys(ok))
    if len(ok) <= how_many:
        return ok
    big = max(ok, key=lambda m: sizes[m])
    pick = ok[: how_many // 2] + ok[-(how_many - how_many // 2 - 1):] + [big]
    return list(dict.fromkeys(pick))


def call_query(p, name, args=(), kwargs=None):
    """Run one public query; returns ("ok", value, stdout) or ("raises", ExceptionTypeName, stdout)."""
    kwargs = kwargs or {}
    buf = io.StringIO()
    try:
        with contextlib.redirect_stdout(buf):
            if name == "number_of_decays":
                val = p.number_of_decays
            elif name == "repr":
                val = repr(p)
            elif name == "str":
                val = str(p)
            else:
                val = getattr(p, name)(*args, **kwargs)
        return ("ok", val, buf.getvalue())
    except Exception as ex:  # the type is part of the answer
        return ("raises", type(ex).__name__, buf.getvalue())


def _q(p, name, *args, **kwargs):
    st, val, out = call_query(p, name, args, kwargs)
    if st == "raises":
        return {"raises": val}
    if name == "print_decay_modes":
        return out
    return jsonable(val)


def snapshot(p, chain_mothers=None, printed=True):
    """Every public query of a parsed DecFileParser as plain JSON-able data.

    Tables are read through _find_decay_modes + _decay_mode_details (the accessors the properties name),
    everything else through the public methods.  `chain_mothers`: the mothers for which
    build_decay_chains / expand_decay_modes are included (default: chosen from the tables, acyclic and
    of bounded size, so that two snapshots of equal tables always use the same mothers).  `printed`: True (every
    mother of files with <= 40 tables, else the chain mothers), False, or an explicit list of mothers."""
    s = {}
    mothers = [str(m) for m in p.list_decay_mother_names()]
    s["list_decay_mother_names"] = mothers
    s["number_of_decays"] = _q(p, "number_of_decays")
    uniq = list(dict.fromkeys(mothers))
    s["tables"] = [[m, table_rows(p, m)] for m in uniq]
    s["list_decay_modes"] = [[m, _q(p, "list_decay_modes", m)] for m in uniq]
    for name in ("dict_definitions", "dict_aliases", "dict_charge_conjugates", "dict_decays2copy",
                 "list_charge_conjugate_decays", "dict_model_aliases", "get_particle_property_definitions",
                 "dict_pythia_definitions", "dict_jetset_definitions", "dict_lineshape_settings",
                 "list_lineshapePW_definitions", "global_photos_flag"):
        s[name] = _q(p, name)
    if chain_mothers is None:
        chain_mothers = pick_chain_mothers(s["tables"])
    s["chain_mothers"] = list(chain_mothers)
    chains, expanded, stable, prints = [], [], [], []
    for m in chain_mothers:
        chains.append([m, _q(p, "build_decay_chains", m)])
        expanded.append([m, _q(p, "expand_decay_modes", m)])
        rows = dict((a, b) for a, b in s["tables"]).get(m) or []
        st = sorted({d for r in rows for d in r["fs"] if isinstance(d, str)})[:2]
        stable.append([m, st, _q(p, "build_decay_chains", m, stable_particles=st)])
    s["build_decay_chains"] = chains
    s["expand_decay_modes"] = expanded
    s["build_decay_chains_stable"] = stable
    if printed:
        for m in (printed if isinstance(printed, (list, tuple)) else uniq if len(uniq) <= 40 else chain_mothers):
            prints.append([m, _q(p, "print_decay_modes", m),
                           _q(p, "print_decay_modes", m, print_model=False, display_photos_keyword=False, ascending=True)])
    s["print_decay_modes"] = prints
    return s


def snapshot_nontrivial(s):
    """A snapshot carries information when at least one table has a line or one declaration query is non-empty."""
    if any(rows for _, rows in s["tables"]):
        return True
    for k, v in s.items():
        if k.startswith(("dict_", "get_", "list_lineshape", "list_charge")) and v not in ({"dict": []}, []):
            return True
    return False


# ----------------------------------------------------------------------------------------------
# Abstract files and their rendering
# ----------------------------------------------------------------------------------------------
#
#   ["Define", name, literal]            ["Alias", new, old]              ["ChargeConj", a, b]
#   ["CDecay", x]                        ["CopyDecay", new, old]          ["ModelAlias", name, model, [params]]
#   ["Decay", mother, [line, ...]]       line = [bf_literal, [daughters], photos(bool), model_word, [params]]
#   ["Raw", text]                        any other one-line statement, verbatim
#
NUM = re.compile(r"[+-]?(\d+\.?\d*|\.\d+)([eE][+-]?\d+)?\Z")


def render_line(line):
    bf, fs, photos, model, params = line
    parts = [bf] + list(fs) + (["PHOTOS"] if photos else []) + [model] + list(params or [])
    return "  " + " ".join(parts) + ";"


def render_stmt(st):
    k = st[0]
    if k == "Decay":
        return "\n".join([f"Decay {st[1]}"] + [render_line(l) for l in st[2]] + ["Enddecay"])
    if k == "ModelAlias":
        return " ".join(["ModelAlias", st[1], st[2]] + list(st[3] or [])) + ";"
    if k == "Raw":
        return st[1]
    return " ".join(st)


def render(stmts, end=False):
    """Canonical layout: one statement per line, LF, final newline (P-NL), optional final End."""
    return "\n".join(render_stmt(s) for s in stmts) + "\n" + ("End\n" if end else "")


# ----------------------------------------------------------------------------------------------
# What a file states (written from C01/C03/C05/C08; used on abstract files only)
# ----------------------------------------------------------------------------------------------


def cc_table(stmts):
    """The ChargeConj declarations in file order (P-CC: every name in at most one pair)."""
    return [(s[1], s[2]) for s in stmts if s[0] == "ChargeConj"]


def conj(name, pairs):
    """C03: the conjugate of a name -- a ChargeConj statement read in either direction (first match in
    declaration order), otherwise the PDG conjugate behind the EvtGen name (self-conjugate names unchanged,
    names with no known conjugate marked 'ChargeConj(name)'; charge_conjugate_name is C04's subject and
    trusted here)."""
    for a, b in pairs:
        if a == name:
            return b
    for a, b in pairs:
        if b == name:
            return a
    from decaylanguage.utils.particleutils import charge_conjugate_name
    return charge_conjugate_name(name)


def _stated_rows(lines, defs, aliases):
    rows = []
    for bf, fs, photos, model, params in lines:
        if model in aliases:                       # C05: a ModelAlias label means its expansion
            model, params = aliases[model]
        vals = []
        for w in params or []:
            if NUM.match(w):
                vals.append(float(w))
            elif w in defs:                        # C05: a Define'd word means its value
                vals.append(defs[w])
            elif w.startswith("-") and w[1:] in defs:
                vals.append(-defs[w[1:]])
            else:
                vals.append(w)
        rows.append({"bf": float(bf), "fs": list(fs), "model": ("PHOTOS " if photos else "") + model,
                     "model_bare": model, "params": vals})
    return rows


def expected_tables(stmts, include_cc=True):
    """{mother: rows} that the file states, under the preconditions of DESIGN section 7
    (P-CC, P-CD1, P-SELF, P-MARK, P-COPY1, P-COPY2, P-ALIAS; no repeated Decay block).

    Decay blocks as written; CopyDecay NEW OLD: OLD's rows under NEW (C08); CDecay X with src = conj(X):
    if src has a table (Decay block or copy) and X has none, src's rows with every daughter conjugated by
    the same rule (C03); nothing otherwise; nothing at all from CDecay when include_cc is false."""
    defs = {s[1]: float(s[2]) for s in stmts if s[0] == "Define"}
    aliases = {s[1]: (s[2], list(s[3] or [])) for s in stmts if s[0] == "ModelAlias"}
    pairs = cc_table(stmts)
    tables = {}
    for s in stmts:
        if s[0] == "Decay" and s[1] not in tables:
            tables[s[1]] = _stated_rows(s[2], defs, aliases)
    blocks = set(tables)
    for s in stmts:
        if s[0] == "CopyDecay" and s[2] in blocks and s[1] not in tables:
            tables[s[1]] = [dict(r, fs=list(r["fs"]), params=list(r["params"])) for r in tables[s[2]]]
    if include_cc:
        before = dict(tables)
        for s in stmts:
            if s[0] != "CDecay":
                continue
            x = s[1]
            src = conj(x, pairs)
            if x in before or src not in before:
                continue
            tables[x] = [dict(r, fs=[conj(d, pairs) for d in r["fs"]], params=list(r["params"])) for r in before[src]]
    return tables


def compare_tables(p, want, what="tables"):
    """None when the parser's tables are exactly `want` (same mothers, each once, same rows in order)."""
    got_m = [str(m) for m in p.list_decay_mother_names()]
    if sorted(got_m) != sorted(want):
        return f"{what}: mothers {sorted(got_m)} != stated {sorted(want)}"
    if p.number_of_decays != len(want):
        return f"{what}: number_of_decays {p.number_of_decays} != {len(want)}"
    for m in want:
        d = first_diff(table_rows(p, m), _rows_json(want[m]), f"{what}[{m}]")
        if d:
            return d
    return None


def _rows_json(rows):
    return [{"bf": r["bf"], "fs": list(r["fs"]), "model": r["model"], "model_bare": r["model_bare"],
             "params": list(r["params"])} for r in rows]


# ----------------------------------------------------------------------------------------------
# Exhaustive small-scope generator of abstract files
# ----------------------------------------------------------------------------------------------
#
# Names.  DB conjugate pairs: D+/D-, B0/anti-B0, K+/K-, pi+/pi-, anti-K*0/K*0, e+/e-, nu_e/anti-nu_e,
# D_s+/D_s-.  Self-conjugate: pi0, gamma, K_S0, J/psi, rho0.  Unknown to the data base: Xu, MyBlob.
# Aliases (conjugate pairs declared by ChargeConj in either orientation): MyD+/MyD-, MyK+/MyK-,
# MyCp+/MyCp- (MyCp+ is created by CopyDecay).  Sizes: tables of 5..7 lines, files of up to 10 tables --
# above the literals 1, 2, 3 of the functions concerned (e.g. the `> 3 tables` defect named by C03).

TABLE_DP = [  # Decay D+  (source of CDecay D-)
    ["0.30", ["K-", "pi+", "pi+"], False, "D_DALITZ", []],
    ["0.20", ["K_S0", "pi+", "pi0"], False, "PHSP", []],
    ["0.15", ["anti-K*0", "e+", "nu_e"], True, "ISGW2", []],
    ["0.10", ["MyK-", "pi+", "pi+", "Xu"], True, "PHSP", []],
    ["0.05", ["J/psi", "pi+"], False, "SVV_HELAMP", ["1.0", "0.0", "dm", "-dm", "2E-1", "0."]],
    ["0.05", ["rho0", "MyK+", "MyBlob"], False, "MA1", []],
    ["0.0125", ["gamma", "pi+"], False, "VSP_PWAVE", []],
]
TABLE_MYD = [  # Decay MyD+ / MyD-  (alias mother)
    ["0.5", ["K-", "pi+", "pi+"], False, "PHSP", []],
    ["0.2", ["MyK-", "pi+", "pi+"], True, "D_DALITZ", []],
    ["0.1", ["K_S0", "pi+"], False, "MA1", []],
    ["0.1", ["Xu", "e+", "nu_e"], True, "ISGW2", []],
    ["0.05", ["pi0", "pi+", "gamma"], False, "PHSP", []],
    ["0.05", ["K*0", "K+", "D_s-"], False, "VSS_BMIX", ["dm"]],
]
TABLE_DM = [  # an own Decay block for D- (takes precedence over CDecay D-); deliberately NOT conj(TABLE_DP)
    ["0.6", ["K+", "pi-", "pi-"], False, "PHSP", []],
    ["0.1", ["K_S0", "pi-"], False, "PHSP", []],
    ["0.1", ["K+", "K-", "pi-"], True, "PHSP", []],
    ["0.1", ["mu-", "anti-nu_mu"], True, "SLN", []],
    ["0.1", ["pi-", "pi0"], False, "PHSP", []],
]
TABLE_B0 = [
    ["0.30", ["D-", "pi+"], False, "PHSP", []],
    ["0.25", ["MyD-", "pi+", "pi0"], False, "PHSP", []],
    ["0.20", ["D-", "e+", "nu_e"], True, "HQET2", ["1.18", "1.074"]],
    ["0.15", ["MyCp-", "K+"], False, "MA1", []],
    ["0.05", ["J/psi", "K_S0"], False, "SVS_CP", ["beta", "dm", "-1", "1.0", "0.0", "1.0", "0.0"]],
    ["0.05", ["D+", "D-"], False, "PHSP", []],
]
TABLE_KS = [["0.69", ["pi+", "pi-"], False, "PHSP", []], ["0.31", ["pi0", "pi0"], False, "PHSP", []]]
TABLE_PI0 = [["0.988", ["gamma", "gamma"], False, "PHSP", []], ["0.012", ["e+", "e-", "gamma"], True, "PI0_DALITZ", []]]
TABLE_JPSI = [["0.06", ["e+", "e-"], True, "VLL", []], ["0.06", ["mu+", "mu-"], True, "VLL", []],
              ["0.87", ["rho0", "pi0"], False, "PHSP", []], ["0.01", ["gamma", "pi0"], True, "MA1", []]]
TABLE_RHO = [["1.0", ["pi+", "pi-"], False, "VSS", []]]
TABLE_DS = [["0.5", ["K+", "K-", "pi+"], False, "D_DALITZ", []], ["0.5", ["K_S0", "K+"], False, "PHSP", []]]

COMMON = [
    ["Define", "dm", "0.507e12"], ["Define", "beta", "0.39"],
    ["ModelAlias", "MA1", "SVV_HELAMP", ["1.0", "0.0", "dm", "0.0", "-dm", "0.0"]],
    ["Alias", "MyD+", "D+"], ["Alias", "MyD-", "D-"], ["Alias", "MyK+", "K+"], ["Alias", "MyK-", "K-"],
]
OTHER_KINDS = [  # statements that feed the remaining queries (C07's subject; here only carried along)
    ["Raw", "Particle MyD+ 1.8696 0.0001"], ["Raw", "Particle pi0 0.1349766"],
    ["Raw", "PythiaBothParam ParticleDecays:mixB = off"], ["Raw", "PythiaGenericParam Next:numberCount = 5"],
    ["Raw", "JetSetPar MSTJ(26)=0"], ["Raw", "JetSetPar PARJ(21)=0.36"],
    ["Raw", "LSNONRELBW rho0"], ["Raw", "BlattWeisskopf rho0 3.0"], ["Raw", "ChangeMassMin rho0 0.3"],
    ["Raw", "IncludeBirthFactor rho0 no"], ["Raw", "SetLineshapePW D+ rho0 pi+ 2"], ["Raw", "yesPhotos"],
]


def _pair(a, b, orient):
    return ["ChargeConj", a, b] if orient == "fwd" else ["ChargeConj", b, a]


def scenario(cdecay_db=True, alias_pair="fwd", alias_side=0, copy_src="none", precedence=False, nosrc=0,
             fillers=0, kpair="fwd", others=False):
    """One abstract file.  Returns (units, info): `units` is a list of lists of statements (a unit is
    moved as a whole by `permute`).

    cdecay_db    CDecay D- with source Decay D+ (DB conjugates)
    alias_pair   none | fwd | rev : ChargeConj MyD+ MyD- in that orientation, a Decay block for one member
                 (alias_side picks which) and CDecay for the other
    copy_src     none | fwd | rev : CopyDecay MyCp+ D+, ChargeConj MyCp+/MyCp- and CDecay MyCp- (the source of
                 the conjugate is a copied table)
    precedence   an own Decay block for D- (wins over CDecay D-)
    nosrc        0 none | 1 CDecay anti-B0-like with known conjugate but no table | 2 CDecay of a name without
                 any conjugate (data base miss, no ChargeConj)
    fillers      0 | 1 | 2 : further Decay blocks (K_S0, pi0, J/psi; then B0, rho0, D_s+) -> files of up to 10 tables
    kpair        none | fwd | rev : ChargeConj for the daughter aliases MyK+/MyK-
    others       append one statement of every other kind (Particle, Pythia, JetSet, lineshapes, yesPhotos)
    """
    units = [[s] for s in COMMON]
    units.append([["Decay", "D+", TABLE_DP]])
    if kpair != "none":
        units.append([_pair("MyK+", "MyK-", kpair)])
    if cdecay_db:
        units.append([["CDecay", "D-"]])
    if alias_pair != "none":
        units.append([_pair("MyD+", "MyD-", alias_pair)])
        has, other = ("MyD+", "MyD-") if alias_side == 0 else ("MyD-", "MyD+")
        units.append([["Decay", has, TABLE_MYD]])
        units.append([["CDecay", other]])
    if copy_src != "none":
        units.append([["CopyDecay", "MyCp+", "D+"]])
        units.append([_pair("MyCp+", "MyCp-", copy_src)])
        units.append([["CDecay", "MyCp-"]])
    if precedence:
        units.append([["Decay", "D-", TABLE_DM]])
    if nosrc == 1:
        units.append([["CDecay", "anti-Lambda_b0"]])      # conjugate Lambda_b0 is known, has no table
    elif nosrc == 2:
        units.append([["CDecay", "MyNoPartner"]])          # no ChargeConj, not in the data base
    if fillers >= 1:
        units += [[["Decay", "K_S0", TABLE_KS]], [["Decay", "pi0", TABLE_PI0]], [["Decay", "J/psi", TABLE_JPSI]]]
    if fillers >= 2:
        units += [[["Decay", "B0", TABLE_B0]], [["Decay", "rho0", TABLE_RHO]], [["Decay", "D_s+", TABLE_DS]],
                  [["CDecay", "anti-B0"]], [["CDecay", "D_s-"]]]
    if others:
        units += [[s] for s in OTHER_KINDS]
    return units


FLAG_SPACE = dict(cdecay_db=[True, False], alias_pair=["none", "fwd", "rev"], alias_side=[0, 1],
                  copy_src=["none", "fwd", "rev"], precedence=[False, True], nosrc=[0, 1, 2], fillers=[0, 1, 2],
                  kpair=["fwd", "rev", "none"])


def all_scenarios(space=None):
    """Every combination of the flags (alias_side only matters with an alias pair): 2*5*3*2*3*3*3 = 1620."""
    space = dict(FLAG_SPACE, **(space or {}))
    keys = list(space)
    for combo in itertools.product(*(space[k] for k in keys)):
        f = dict(zip(keys, combo))
        if f["alias_pair"] == "none" and f["alias_side"] != 0:
            continue
        yield f


def flatten(units):
    return [s for u in units for s in u]


def permute(units, movable_idx):
    """Every permutation of the units at positions `movable_idx` (the others stay where they are)."""
    movable = [units[i] for i in movable_idx]
    for perm in itertools.permutations(movable):
        u = list(units)
        for i, x in zip(movable_idx, perm):
            u[i] = x
        yield u


def evtgen_names():
    """All names of the EvtGen name table of the installed `particle` package (806 with particle 1.0.1)."""
    from particle.converters import EvtGenName2PDGIDBiMap as B
    a = [k for k in B._to_map if isinstance(k, str)] or [k for k in B._from_map if isinstance(k, str)]
    return list(a)


GRAMMAR_KEYWORDS = {
    "Decay", "Enddecay", "End", "CDecay", "CopyDecay", "Alias", "ChargeConj", "Define", "Particle", "ModelAlias",
    "PHOTOS", "yesPhotos", "noPhotos", "LSFLAT", "LSNONRELBW", "LSMANYDELTAFUNC", "yes", "no", "JetSetPar",
    "BlattWeisskopf", "SetLineshapePW", "ChangeMassMin", "ChangeMassMax", "IncludeBirthFactor",
    "IncludeDecayFactor", "PythiaAliasParam", "PythiaBothParam", "PythiaGenericParam", "RemoveDecay",
}   # P-KW: words that may not be used as particle / alias / parameter / model labels

# ----------------------------------------------------------------------------------------------
# Infrastructure
# ----------------------------------------------------------------------------------------------


def scratch_root():
    """Directory for temporary files: $XDG_RUNTIME_DIR when usable, else /var/tmp -- never /tmp."""
    x = os.environ.get("XDG_RUNTIME_DIR")
    if x and os.path.isdir(x) and os.access(x, os.W_OK) and not os.path.realpath(x).startswith("/tmp"):
        return x
    return "/var/tmp"


def scratch_dir(prefix="verif-dec-"):
    import tempfile
    return tempfile.TemporaryDirectory(prefix=prefix, dir=scratch_root())


def nprocs():
    return max(1, min(MAX_PROCS, os.cpu_count() or 1))


def pmap(func, tasks, chunksize=None, procs=None):
    """Ordered map over a fork pool (<= 16 processes); the tasks and results are plain data."""
    tasks = list(tasks)
    procs = procs or nprocs()
    if len(tasks) <= 1 or procs == 1:
        return [func(t) for t in tasks]
    ctx = mp.get_context("fork")
    if chunksize is None:
        chunksize = max(1, min(64, len(tasks) // (procs * 8) or 1))
    with ctx.Pool(min(procs, len(tasks))) as pool:
        return pool.map(func, tasks, chunksize=chunksize)


def chunks(seq, n):
    seq = list(seq)
    return [seq[i:i + n] for i in range(0, len(seq), n)]


def digest(obj):
    """Short stable hash of a JSON-able value (used to count distinct inputs)."""
    import hashlib
    import json
    return hashlib.sha256(json.dumps(obj, sort_keys=True, default=str).encode()).hexdigest()[:16]


def shrink_list(items, still_fails, budget=80, removable=None):
    """Greedy one-at-a-time removal (a cheap ddmin): smallest sub-list found for which still_fails holds.
    `removable(item)` false keeps the item (used for declarations the rest of the input depends on)."""
    items = list(items)
    changed = True
    while changed and budget > 0:
        changed = False
        for i in range(len(items) - 1, -1, -1):
            if budget <= 0:
                break
            if i >= len(items) or (removable is not None and not removable(items[i])):
                continue
            cand = items[:i] + items[i + 1:]
            budget -= 1
            try:
                if still_fails(cand):
                    items = cand
                    changed = True
            except Exception:
                pass
    return items


def minimise_stmts(stmts, fails, budget=60, line_budget=20):
    """Smallest statement list (then smallest tables) found by greedy removal for which `fails` still holds.
    Define and ModelAlias statements are kept: removing them would turn the file into a different, invalid input."""
    small = shrink_list(stmts, fails, budget=budget, removable=lambda s: s[0] not in ("Define", "ModelAlias"))
    for i, s in enumerate(list(small)):
        if s[0] != "Decay":
            continue

        def fails_lines(ls, i=i, s=s):
            return fails(small[:i] + [["Decay", s[1], ls]] + small[i + 1:])
        lines = shrink_list(list(s[2]), fails_lines, budget=line_budget)
        small = small[:i] + [["Decay", s[1], lines]] + small[i + 1:]
    return small
