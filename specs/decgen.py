"""Small-scope generators of .dec texts for the bounded stand-ins of C01, C05 and C07.

Every family below is an explicit enumeration (itertools products / restricted-growth strings / cyclic
coverings): at the stated size the space is finite and is walked completely.  Randomness is used only by
`random_supplement` (thorough tier, seeded by VERIF_SEED) and never replaces an enumeration.

Preconditions honoured by construction (DESIGN.md section 7): P-NL every text ends with a newline; P-KW no
particle / alias / parameter word is a statement keyword or a published model name (nor starts with one
followed by a non-word character); P-MARK no word of the form ChargeConj(...); P-NUMWORD parameter and
Pythia value words do not start like a number; P-ALIAS; P-CC / P-CD1 / P-COPY1 / P-COPY2 in the families that
create derived tables (C05.derived).  Define'd names used in parameter lists do not start with '-'.
"""
from __future__ import annotations

import itertools
import random

from specs.decfile_reader import (CHANGEMASS_KINDS, DIGITS, INCFACTOR_KINDS, KEYWORDS, LABEL_CHARS, LOWER, LS_KINDS,
                                  PYTHIA_KINDS, SYMBOLS, UPPER, numeric_prefix, published_models)

MODELS = tuple(sorted(published_models()))

# ------------------------------------------------------------------------------------------------ pools
# Particle-name pool: covers every character of the label alphabet, every symbol in leading, inner and
# trailing position, purely numeric and purely symbolic names.
POOL = (
    "B0", "anti-B0", "D*+", "D*-", "K_S0", "pi+", "pi-", "e+", "nu_e", "gamma",
    "Upsilon(4S)", "K'_1+", "a_1(1260)+", "anti-Lambda_c~-", "D_s2*(2573)+", "f'_2(1525)", "J/psi", "X.y_Z",
    "abcdefghijklm", "nopqrstuvwxyz", "ABCDEFGHIJKLM", "NOPQRSTUVWXYZ", "0123456789", "q/w-e+r*t_y(u)i.o'p~",
    "/a", "-b", "+c", "*d", "_e", "(f", ")g", ".h", "'i", "~j",
    "a/", "b-", "c+", "d*", "e_", "f(", "g)", "h.", "i'", "j~",
    "/-+*_().'~", "1.5", "2pi", "-",
)
# names known to the `particle` package (reference widths, C07 'Particle NAME MASS')
KNOWN = ("B0", "anti-B0", "D*+", "K_S0", "pi0", "J/psi", "Upsilon(4S)", "D_s+", "rho0", "K*0", "phi", "Lambda_c+")
# words usable in parameter / value position (no numeric prefix)
WORDS = ("DtoKpipipi_v1", "MAXPDF", "K*0", "f_0(1500)", "zz", "a/b", "x'y~z", "(w)", "-zz", "+w", "_", "~")
DEFNAMES = ("dm", "beta", "x1", "My_Var.2", "a'b", "D*0~")
# numeric literal forms: the seven of the property first, then further spellings
LITS = ("1", "1.", ".5", "-0.8", "+3", "20.e12", "2E-4", "0", "0.0", "1.000", "-.5e+3", "+1.E-2", "1e5", "007",
        "-0", "3.14159265358979", "6.02214076e23")
# pairwise different values (so that first-wins / last-wins are told apart)
VALS = ("1", "2.", ".5", "-0.8", "+3", "20.e12", "2E-4", "-7", "0.25", "1e5")


def _check_pools():
    covered = set("".join(POOL))
    assert covered == set(LABEL_CHARS), sorted(set(LABEL_CHARS) - covered)
    for s in SYMBOLS:
        assert any(n[0] == s for n in POOL) and any(n[-1] == s for n in POOL) and \
            any(s in n[1:-1] for n in POOL), s
    wordch = set(LOWER + UPPER + DIGITS + "_")
    for n in POOL + KNOWN + WORDS + DEFNAMES:
        assert n not in KEYWORDS and not n.startswith("ChargeConj("), n
        for m in MODELS:
            assert not (n.startswith(m) and (len(n) == len(m) or n[len(m)] not in wordch)), (n, m)
    for w in WORDS + DEFNAMES:
        assert numeric_prefix(w) == 0, w
    for d in DEFNAMES:
        assert not d.startswith("-")
    assert len(set(float(v) for v in VALS)) == len(VALS)
    assert len(MODELS) == 135


_check_pools()


# ------------------------------------------------------------------------------------------------ builders

def first_ok(daughters):
    """P-NUMWORD: the first daughter (the word after the branching fraction) must not start like a number;
    cyclic selections are rotated until that holds (an all-numeric-looking selection loses its head)."""
    ds = list(daughters)
    for _ in range(len(ds)):
        if numeric_prefix(ds[0]) == 0:
            return ds
        ds = ds[1:] + ds[:1]
    return [d for d in ds if numeric_prefix(d) == 0]


def fmt_line(bf, daughters=(), photos=False, model="PHSP", params=(), sep=" ", term=";", indent="  "):
    assert not daughters or numeric_prefix(daughters[0]) == 0, daughters
    head = [bf] + list(daughters) + (["PHOTOS"] if photos else []) + [model]
    s = indent + " ".join(head)
    if params:
        s += " " + sep.join(params)
    return s + term + "\n"


def block(mother, lines):
    return f"Decay {mother}\n" + "".join(lines) + "Enddecay\n"


def rgs(n, max_mult=None, max_distinct=None):
    """Restricted growth strings of length n (one per partition of n positions into named classes)."""
    def rec(prefix, mx):
        if len(prefix) == n:
            yield tuple(prefix)
            return
        for v in range(mx + 2):
            if max_distinct is not None and v >= max_distinct:
                break
            if max_mult is not None and prefix.count(v) >= max_mult:
                continue
            yield from rec(prefix + [v], max(mx, v))
    yield from rec([], -1)


def pack(lines, mothers, per_block=(5, 6), per_text=(6, 5, 1, 2, 3, 4), prefix=""):
    """Distribute decay lines over blocks of 5-6 lines and texts of 1..6 blocks."""
    texts, blocks, i, bi, ti, mi = [], [], 0, 0, 0, 0
    while i < len(lines):
        n = per_block[bi % len(per_block)]
        blocks.append(block(mothers[mi % len(mothers)], lines[i:i + n]))
        i += n
        bi += 1
        mi += 1
        if len(blocks) == per_text[ti % len(per_text)]:
            texts.append(prefix + "".join(blocks))
            blocks = []
            ti += 1
            mi = ti * 7          # shift the mothers so that every pool name heads a block somewhere
    if blocks:
        texts.append(prefix + "".join(blocks))
    return texts


PARAM_SHAPES = (
    lambda k: [],
    lambda k: [LITS[k % len(LITS)]],
    lambda k: [WORDS[k % len(WORDS)], LITS[(k + 3) % len(LITS)]],
    lambda k: [LITS[(k + 1) % len(LITS)], LITS[(k + 5) % len(LITS)], LITS[(k + 9) % len(LITS)], WORDS[(k + 1) % len(WORDS)]],
    lambda k: [LITS[(k + t) % len(LITS)] for t in range(6)],
)


def content_lines(c, n):
    """n decay lines whose content is a function of the key c."""
    out = []
    for j in range(n):
        nd = (c + j) % 5
        out.append(fmt_line(LITS[(c + 2 * j) % len(LITS)],
                            first_ok(POOL[(c * 7 + j * 3 + t) % len(POOL)] for t in range(nd)),
                            (c + j) % 2 == 1, MODELS[(c * 11 + j * 5) % len(MODELS)],
                            PARAM_SHAPES[(c + j) % len(PARAM_SHAPES)](c + j)))
    return out


# one statement of every other kind; j varies the names so that repeats do not collide
def other_statements(j):
    a, b, c = POOL[(3 * j) % len(POOL)], POOL[(3 * j + 1) % len(POOL)], POOL[(3 * j + 2) % len(POOL)]
    kn = KNOWN[j % len(KNOWN)]
    return {
        "Define": f"Define {DEFNAMES[j % len(DEFNAMES)]} {VALS[j % len(VALS)]}\n",
        "Alias": f"Alias {a} {b}\n",
        "ChargeConj": f"ChargeConj {a}{j} {b}{j}\n",
        "CDecay": f"CDecay {c}{j}\n",
        "CopyDecay": f"CopyDecay {a}_copy{j} {b}\n",
        "ParticleW": f"Particle {a} {VALS[j % len(VALS)]} {VALS[(j + 1) % len(VALS)]}\n",
        "Particle0": f"Particle {kn} {VALS[j % len(VALS)]}\n",
        "Pythia": f"{PYTHIA_KINDS[j % 3]} Mod{j}:par{j}={('off', '0', '1.5')[j % 3]}\n",
        "JetSetPar": f"JetSetPar MSTJ({j})={('0', '0.36', '+3')[j % 3]}\n",
        "LSDef": f"{LS_KINDS[j % 3]} {a}\n",
        "BlattWeisskopf": f"BlattWeisskopf {b} {VALS[j % len(VALS)]}\n",
        "ChangeMass": f"{CHANGEMASS_KINDS[j % 2]} {c} {VALS[j % len(VALS)]}\n",
        "IncFactor": f"{INCFACTOR_KINDS[j % 2]} {a} {('yes', 'no')[j % 2]}\n",
        "SetLineshapePW": f"SetLineshapePW {a} {b} {c} {j}\n",
        "GlobalPhotos": ("yesPhotos\n", "noPhotos\n")[j % 2],
        "ModelAlias": f"ModelAlias MyAlias{j} {MODELS[(j * 13) % len(MODELS)]} {VALS[j % len(VALS)]} {WORDS[j % len(WORDS)]};\n",
        "Comment": f"# comment {j} ; Decay X , Enddecay\n\n",
    }


OTHER_KINDS = tuple(other_statements(0))


# ================================================================================================ C01

def c01_blocks(max_blocks=6, max_mult=3):
    """Every pattern of equal / different mothers over 0..max_blocks Decay blocks (a mother at most max_mult
    times), x three content modes: all blocks different; blocks of one mother identical; blocks of one mother
    alternating X, Y, X."""
    out = []
    t = 0
    for n in range(max_blocks + 1):
        for pat in rgs(n, max_mult=max_mult):
            repeated = len(set(pat)) < len(pat)
            for mode in ((0, 1, 2) if repeated else (0,)):
                occ = {}
                blocks = []
                for i, v in enumerate(pat):
                    k = occ.get(v, 0)
                    occ[v] = k + 1
                    key = i if mode == 0 else (v if mode == 1 else v * 2 + k % 2)
                    blocks.append(block(POOL[(t + v) % len(POOL)], content_lines(key + 1 + 6 * t, (t + 3 * key) % 7)))
                out.append(("C01.blocks", "".join(blocks) if blocks else "# no decay block\n"))
                t += 1
    return out


def c01_interleave():
    """Decay blocks A, B (empty), A (repeated, other content), C  x  every other statement kind placed in
    every non-empty subset of the five gaps; plus every kind in every gap at once."""
    out = []
    blocks = [block("B0sig", content_lines(3, 3)), block("D*+sig", []), block("B0sig", content_lines(4, 2)),
              block("K_S0sig", content_lines(5, 6))]
    gaps = len(blocks) + 1
    for kind in OTHER_KINDS:
        for mask in range(1, 2 ** gaps):
            parts = []
            for g in range(gaps):
                if mask >> g & 1:
                    parts.append(other_statements(g + 1)[kind])
                if g < len(blocks):
                    parts.append(blocks[g])
            out.append(("C01.interleave", "".join(parts)))
    for rot in range(len(OTHER_KINDS)):
        parts = []
        for g in range(gaps):
            kinds = OTHER_KINDS[rot:] + OTHER_KINDS[:rot]
            parts += [other_statements(g * 2 + 1)[k] for k in kinds]
            if g < len(blocks):
                parts.append(blocks[g])
        out.append(("C01.interleave", "".join(parts)))
    return out


def c01_daughters(cover=True):
    """Every daughter tuple of length 0..2 over the pool whose first name does not start like a number
    (P-NUMWORD; numeric-looking names do occur as second daughter and as mother); lengths 3 and 4 by a cyclic covering (every name in
    every position, every ordered pair of names adjacent at distance 1 and 2 for four strides)."""
    P = POOL
    lines = []
    k = 0
    tuples = [()] + [(a,) for a in P] + [(a, b) for a in P for b in P]
    tuples = [t for t in tuples if not t or numeric_prefix(t[0]) == 0]      # P-NUMWORD
    if cover:
        for stride in (1, 5, 7, 11):
            for i in range(len(P)):
                tuples.append(tuple(first_ok(P[(i + t * stride) % len(P)] for t in range(3))))
                tuples.append(tuple(first_ok(P[(i + t * stride) % len(P)] for t in range(4))))
    for ds in tuples:
        lines.append(fmt_line(LITS[k % len(LITS)], ds, k % 3 == 0, MODELS[k % len(MODELS)],
                              PARAM_SHAPES[k % len(PARAM_SHAPES)](k)))
        k += 1
    return [("C01.daughters", t) for t in pack(lines, POOL)]


def c01_literals():
    """Every literal form as branching fraction x every literal form as parameter (first, middle, last
    position of the list), with and without PHOTOS."""
    lines = []
    k = 0
    for bf in LITS:
        for p in LITS:
            for pos in range(3):
                ps = [WORDS[k % len(WORDS)], LITS[(k + 1) % len(LITS)]]
                ps.insert(pos, p)
                lines.append(fmt_line(bf, first_ok([POOL[k % len(POOL)], POOL[(k + 7) % len(POOL)]][: k % 3]),
                                      k % 2 == 0, MODELS[k % len(MODELS)], ps))
                k += 1
            lines.append(fmt_line(bf, first_ok([POOL[k % len(POOL)]]), k % 2 == 0, MODELS[k % len(MODELS)], [p]))
            k += 1
    return [("C01.literals", t) for t in pack(lines, POOL)]


def c01_models():
    """Every published model name x {PHOTOS, no PHOTOS} x {no parameters, numeric, word, Define'd,
    negated Define'd, mixed}; once packed into blocks, once alone in a one-line file."""
    pre = "Define dm 0.507e12\nDefine beta -0.39\n"
    shapes = ([], ["1.0"], ["DtoKpipipi_v1"], ["dm"], ["-dm"], ["beta", "0.3", "-beta", "zz", "dm", "-zz", "+dm"])
    lines, singles = [], []
    k = 0
    for m in MODELS:
        for photos in (False, True):
            for s in shapes:
                lines.append(fmt_line(LITS[k % len(LITS)], first_ok(POOL[(k + t) % len(POOL)] for t in range(k % 5)),
                                      photos, m, s))
                k += 1
        i = len(singles)
        singles.append(("C01.models", pre + block(POOL[i % len(POOL)],
                        [fmt_line("1.0", ["pi+", "pi-"], i % 4 == 1, m, shapes[i % len(shapes)])])))
    return [("C01.models", t) for t in pack(lines, POOL, prefix=pre)] + singles


SEPS = (" ", ",", ", ", " ,", "\n", ",\n   ", "\n      ", "  \t ")
TERMS = (";", " ;", ";;", "; ;", "\n;", "\n  ;", ";  # trailing comment", " ; # c\n# full-line comment")


def c01_layouts():
    """Parameter lists of 0..6 entries x every separator (blank, comma, line break and mixtures) x every
    terminator (one or several ';', ';' on its own line, trailing comment)."""
    lines = []
    k = 0
    for n in range(7):
        for sep in SEPS:
            for term in TERMS:
                ps = [(LITS[(k + t) % len(LITS)] if (k + t) % 3 else WORDS[(k + t) % len(WORDS)]) for t in range(n)]
                lines.append(fmt_line(LITS[k % len(LITS)], first_ok(POOL[(k + t) % len(POOL)] for t in range(k % 4)),
                                      k % 2 == 1, MODELS[(7 * k) % len(MODELS)], ps, sep=sep, term=term))
                k += 1
    return [("C01.layouts", t) for t in pack(lines, POOL)]


def c01_all(tier="quick"):
    out = c01_blocks(6, 3) + c01_interleave() + c01_daughters() + c01_literals() + c01_models() + c01_layouts()
    if tier == "thorough":
        out += [(f, t) for f, t in c01_blocks(7, 4)]
    return out


# ================================================================================================ C05

USAGE = tuple(itertools.product(range(4), repeat=3))       # uses of a name in blocks 1,2,3: 0..3 each
C05_MOTHERS = ("B0sig", "D*+sig", "K_S0sig")


def _placements(names, max_len=3, gaps=4):
    """All sequences of 0..max_len statements over `names` x all assignments of the statements to the gaps
    before / between / after the blocks (statements of one gap keep the order of the sequence)."""
    for n in range(max_len + 1):
        for seq in itertools.product(names, repeat=n):
            for where in itertools.product(range(gaps), repeat=n):
                yield seq, where


def _assemble(gap_texts, blocks):
    parts = []
    for g in range(len(blocks) + 1):
        parts += gap_texts.get(g, [])
        if g < len(blocks):
            parts.append(blocks[g])
    return "".join(parts)


def c05_define(reps=1):
    """0..3 Define statements over the names dm / beta (redefinitions included) in every placement relative to
    three Decay blocks x usage vectors (dm used 0..3 times in each block, plain and negated); `reps` usage
    vectors per placement, walking cyclically through all 64 (reps=64: full product)."""
    out = []
    v = 0
    for seq, where in _placements(("dm", "beta")):
        for r in range(reps):
            u = USAGE[(v * reps + r * 23 + v // 7) % len(USAGE)] if reps < len(USAGE) else USAGE[r]
            gaps = {}
            for k, (name, g) in enumerate(zip(seq, where)):
                gaps.setdefault(g, []).append(f"Define {name} {VALS[k]}\n")
            blocks = []
            for b in range(3):
                lines = []
                for j in range(u[b]):
                    form = (j + b + v) % 4
                    ps = (["dm"], ["1.0", "-dm", "0.3"], ["dm", "beta", "-dm"], ["-beta", "dm"])[form]
                    lines.append(fmt_line(VALS[(j + b) % len(VALS)], ["pi+", "pi-"][: (j % 3)], j % 2 == 1,
                                          MODELS[(v + 5 * j + b) % len(MODELS)], ps))
                lines.append(fmt_line("0.1", ["K+"], False, "HELAMP", ["beta"] * ((b + v) % 3) + ["zz", "+dm", "-zz", "2.5"]))
                blocks.append(block(C05_MOTHERS[b], lines))
            out.append(("C05.define", _assemble(gaps, blocks)))
        v += 1
    return out


ALIAS_BODIES = ("VSS_BMIX dm", "SVS_CP beta -dm 1.0 word, 0.3", "PHSP", "HELAMP -beta\n    dm  +dm -zz")


def c05_alias(reps=1):
    """0..3 ModelAlias statements over the names MA / MB (redefinitions included; bodies without parameters,
    with numeric, word, Define'd and negated Define'd parameters) in every placement relative to three Decay
    blocks x usage vectors (alias used 0..3 times in each block); the Define statements the bodies refer to are
    placed first / last / between, and dm is redefined in every fourth variant."""
    out = []
    v = 0
    for seq, where in _placements(("MA", "MB")):
        for r in range(reps):
            u = USAGE[(v * reps + r * 29 + v // 5) % len(USAGE)] if reps < len(USAGE) else USAGE[r]
            gaps = {}
            for k, (name, g) in enumerate(zip(seq, where)):
                gaps.setdefault(g, []).append(f"ModelAlias {name} {ALIAS_BODIES[(k + v) % len(ALIAS_BODIES)]};\n")
            dpos = v % 3
            d1, d2 = "Define dm 0.5\n", "Define beta +0.7\n"
            if dpos == 0:
                gaps[0] = [d1, d2] + gaps.get(0, [])
            elif dpos == 1:
                gaps[3] = gaps.get(3, []) + [d2, d1]
            else:
                gaps[1] = [d1] + gaps.get(1, [])
                gaps[2] = gaps.get(2, []) + [d2]
            if v % 4 == 3:
                gaps[3] = gaps.get(3, []) + ["Define dm -1.25\n"]
            blocks = []
            for b in range(3):
                lines = []
                if "MA" in seq:
                    for j in range(u[b]):
                        lines.append(fmt_line(VALS[(j + b) % len(VALS)], ["D*-", "pi+", "pi0"][: (j + b) % 4], (j + v) % 2 == 1, "MA"))
                if "MB" in seq:
                    for j in range((b + v) % 3):
                        lines.append(fmt_line(VALS[(j + 4) % len(VALS)], ["K-"], j % 2 == 0, "MB"))
                lines.append(fmt_line("0.1", ["K+"], False, "VSS_BMIX", ["dm"]))
                blocks.append(block(C05_MOTHERS[b], lines))
            out.append(("C05.alias", _assemble(gaps, blocks)))
        v += 1
    return out


def c05_derived():
    """Copied (CopyDecay) and conjugated (CDecay) tables: Define / ModelAlias before the source block, between
    block and CDecay / CopyDecay, after everything; redefinitions; each name used 1..3 times."""
    out = []
    head = "Alias MyB0 B0\nAlias Myanti-B0 anti-B0\nChargeConj MyB0 Myanti-B0\n"
    for dpos, apos, redefine, uses in itertools.product(range(3), range(3), range(3), (1, 2, 3)):
        defs = ["Define dm 0.5\n", "Define beta 0.7\n"]
        als = ["ModelAlias MA SVS_CP beta -dm 1.0;\n", "ModelAlias MB PHSP;\n"]
        if redefine == 1:
            defs.append("Define dm 2e3\n")
        if redefine == 2:
            als.append("ModelAlias MA VSS_BMIX dm;\n")
        lines = []
        for j in range(uses):
            lines.append(fmt_line(VALS[j], ["D*-", "pi+"], j % 2 == 0, "VSS_BMIX", ["dm"] if j % 2 == 0 else ["-dm", "beta"]))
            lines.append(fmt_line(VALS[j + 3], ["K+", "pi-", "pi0"][: j + 1], j % 2 == 1, "MA"))
        lines.append(fmt_line("0.01", ["MyD0", "pi0"], True, "MB"))
        gaps = {0: [head], 1: ["CDecay Myanti-B0\n"], 2: ["CopyDecay MyB0copy MyB0\n"]}
        gaps.setdefault(dpos, []).extend(defs)
        gaps.setdefault(apos, []).extend(als)
        second = block("D0sig", [fmt_line("1.0", ["K-", "pi+"], False, "MA"), fmt_line("0.5", [], False, "HELAMP", ["-dm", "zz"])])
        text = "".join(gaps.get(0, [])) + block("MyB0", lines) + "".join(gaps.get(1, [])) + second + "".join(gaps.get(2, []))
        out.append(("C05.derived", text))
    return out


def c05_large(variants=24):
    """Six blocks of six lines, six Define'd names and four aliases shared by up to six lines within and across
    blocks, three redefinitions, definitions rotating through the seven gaps."""
    out = []
    for v in range(variants):
        stmts = [f"Define {n} {VALS[(i + v) % len(VALS)]}\n" for i, n in enumerate(DEFNAMES)]
        stmts += [f"ModelAlias AL{i} {MODELS[(v * 7 + i * 31) % len(MODELS)]} {DEFNAMES[i]} -{DEFNAMES[(i + 1) % 6]} {LITS[(i + v) % len(LITS)]} {WORDS[i]};\n"
                  for i in range(3)] + ["ModelAlias AL3 PHSP;\n"]
        stmts += [f"Define {DEFNAMES[v % 6]} {VALS[(v + 7) % len(VALS)]}\n", f"Define {DEFNAMES[(v + 1) % 6]} -4.5\n",
                  f"ModelAlias AL{v % 4} SVS_CP {DEFNAMES[(v + 2) % 6]} 1;\n"]
        gaps = {}
        for i, s in enumerate(stmts):
            gaps.setdefault((i * (v % 5 + 1) + v) % 7, []).append(s)
        blocks = []
        for b in range(6):
            lines = []
            for j in range(6):
                if (j + b) % 3 == 0:
                    lines.append(fmt_line(LITS[(b + j) % len(LITS)], first_ok([POOL[(b * 6 + j) % len(POOL)]] * (j % 3)), j % 2 == 0, f"AL{(j + b + v) % 4}"))
                else:
                    n1, n2 = DEFNAMES[(j + v) % 6], DEFNAMES[(b + j) % 6]
                    lines.append(fmt_line(LITS[(b + j) % len(LITS)], first_ok(POOL[(b + j + t) % len(POOL)] for t in range(j % 5)), j % 2 == 1,
                                          MODELS[(b * 6 + j + v) % len(MODELS)], [n1, "-" + n2, WORDS[j % len(WORDS)], n1, LITS[j]]))
            blocks.append(block(POOL[(v + b) % 20], lines))
        out.append(("C05.large", _assemble(gaps, blocks)))
    return out


def c05_all(tier="quick"):
    reps = 1 if tier == "quick" else 8
    return c05_define(reps) + c05_alias(reps) + c05_derived() + c05_large(24 if tier == "quick" else 96)


# ================================================================================================ C07

def _sequences(symbols, full_len, two_lens=()):
    """All sequences of length 0..full_len over the symbols, plus all sequences over the first two symbols
    of the lengths in two_lens."""
    for n in range(full_len + 1):
        yield from itertools.product(range(len(symbols)), repeat=n)
    for n in two_lens:
        if n > full_len:
            yield from itertools.product(range(2), repeat=n)


def _names3(i):
    return tuple(POOL[(5 * i + 17 * s) % len(POOL)] for s in range(3))


def c07_kinds():
    """statement-kind name -> (symbols, maker(symbol, j) -> statement text).  j is the position of the
    statement in its sequence; values depend on j so that earlier and later declarations differ."""
    K = {}
    others = POOL[::-1]

    def simple(fmt, i):
        names = _names3(i)
        return names, (lambda s, j, names=names: fmt.format(n=names[s], o=others[(j * 3 + i) % len(others)],
                                                            v=VALS[j % len(VALS)], w=VALS[(j + 4) % len(VALS)], j=j))
    K["Define"] = simple("Define {n} {v}\n", 0)
    K["Alias"] = simple("Alias {n} {o}\n", 1)
    K["ChargeConj"] = simple("ChargeConj {n} {o}\n", 2)
    K["CDecay"] = simple("CDecay {n}\n", 3)
    K["CopyDecay"] = simple("CopyDecay {n} {o}\n", 4)
    K["ParticleW"] = simple("Particle {n} {v} {w}\n", 5)
    K["BlattWeisskopf"] = simple("BlattWeisskopf {n} {v}\n", 6)
    K["SetLineshapePW"] = simple("SetLineshapePW {n} {o} {n} {j}\n", 7)
    manames = ("MA", "MB", "a'b~(c)")
    mabody = ("", " 1.5 dm", " {v}, zz\n  -dm")
    K["ModelAlias"] = (manames, lambda s, j: f"ModelAlias {manames[s]} {MODELS[(j * 37 + s) % len(MODELS)]}"
                       + mabody[j % 3].format(v=VALS[j % len(VALS)]) + ";\n")
    kn = KNOWN
    K["Particle0"] = (kn[:3], lambda s, j: f"Particle {kn[s]} {VALS[j % len(VALS)]}\n")
    K["ParticleMix"] = (kn[3:6], lambda s, j: f"Particle {kn[3 + s]} {VALS[j % len(VALS)]}" + ("" if (j + s) % 2 else f" {VALS[(j + 2) % len(VALS)]}") + "\n")
    py = [(PYTHIA_KINDS[0], "A", "b"), (PYTHIA_KINDS[0], "A", "c"), (PYTHIA_KINDS[1], "A", "b"), (PYTHIA_KINDS[2], "P.x", "q_r")]
    pv = ("off", "0", "1.5", "-2", "on", "2E-4", "w/x")
    K["Pythia"] = (py, lambda s, j: f"{py[s][0]} {py[s][1]}:{py[s][2]}={pv[j % len(pv)]}\n")
    js = ("MSTJ(26)", "MSTJ(11)", "PARJ(26)", "mstu(1)")
    jv = ("0", "0.36", "+3", "-1", "1.", "2E-4", "12")
    K["JetSetPar"] = (js, lambda s, j: f"JetSetPar {js[s]}={jv[j % len(jv)]}\n")
    x, y = POOL[11], POOL[14]
    ls = [(LS_KINDS[0], x), (LS_KINDS[1], x), (LS_KINDS[0], y), (LS_KINDS[2], y)]
    K["LSDef"] = (ls, lambda s, j: f"{ls[s][0]} {ls[s][1]}\n")
    cm = [(CHANGEMASS_KINDS[0], x), (CHANGEMASS_KINDS[1], x), (CHANGEMASS_KINDS[0], y), (CHANGEMASS_KINDS[1], y)]
    K["ChangeMass"] = (cm, lambda s, j: f"{cm[s][0]} {cm[s][1]} {VALS[j % len(VALS)]}\n")
    inc = [(INCFACTOR_KINDS[0], x), (INCFACTOR_KINDS[1], x), (INCFACTOR_KINDS[0], y), (INCFACTOR_KINDS[1], y)]
    K["IncFactor"] = (inc, lambda s, j: f"{inc[s][0]} {inc[s][1]} {('yes', 'no')[j % 2]}\n")
    K["GlobalPhotos"] = (("yes", "no"), lambda s, j: ("yesPhotos\n", "noPhotos\n")[s])
    return K


BACKGROUND = block("Bkg0", [fmt_line("1.0", ["pi+", "pi-"], True, "PHSP")])


def _kind_sequences(kind, symbols, full3, full4, two_lens, photos_len):
    if kind == "GlobalPhotos":
        return list(_sequences(symbols, photos_len))
    return list(_sequences(symbols, full3 if len(symbols) == 3 else full4, two_lens))


def c07_sequences(full3=3, full4=3, two_lens=(), photos_len=6):
    """One statement kind alone.  Per kind: every sequence of 0..full statements over three names (four
    (sub-kind, name) symbols for the kinds that have sub-kinds) plus every sequence over two names of the lengths
    in two_lens; yesPhotos/noPhotos: every sequence of length 0..photos_len.  A Decay block sits at a position
    that rotates through the sequence."""
    out = []
    for kind, (symbols, make) in c07_kinds().items():
        for i, seq in enumerate(_kind_sequences(kind, symbols, full3, full4, two_lens, photos_len)):
            stmts = [make(s, j) for j, s in enumerate(seq)]
            pos = i % (len(stmts) + 1)
            out.append((f"C07.seq.{kind}", "".join(stmts[:pos]) + BACKGROUND + "".join(stmts[pos:])))
    return out


def c07_combined(full3=4, full4=4, two_lens=(5, 6), photos_len=6):
    """All statement kinds in one text.  Text i carries, for every kind, the i-th sequence of that kind's complete
    enumeration (0..full statements over 3 names / 4 symbols, plus the lengths two_lens over two names; shorter
    enumerations are walked cyclically), so every sequence of every kind occurs, next to 0..n statements of every
    other kind.  Two layouts: kind after kind (order of the kinds rotating), and round-robin interleaved; Decay
    blocks at two rotating positions."""
    K = c07_kinds()
    seqs = {k: _kind_sequences(k, sy, full3, full4, two_lens, photos_len) for k, (sy, _) in K.items()}
    kinds = list(K)
    n = max(len(v) for v in seqs.values())
    second = block("Bkg1", [])
    out = []
    for i in range(n):
        per_kind = []
        for k in kinds:
            seq = seqs[k][i % len(seqs[k])]
            per_kind.append([K[k][1](s, j) for j, s in enumerate(seq)])
        rot = i % len(kinds)
        per_kind = per_kind[rot:] + per_kind[:rot]
        flat = [st for lst in per_kind for st in lst]
        robin = []
        for r in range(max((len(lst) for lst in per_kind), default=0)):
            robin += [lst[r] for lst in per_kind if r < len(lst)]
        for layout in (flat, robin):
            c1, c2 = sorted(((i * 5) % (len(layout) + 1), (i * 11 + 3) % (len(layout) + 1)))
            out.append(("C07.combined", "".join(layout[:c1]) + BACKGROUND + "".join(layout[c1:c2]) + second + "".join(layout[c2:])))
    return out


def c07_orders(extra_shuffles=0, seed=0):
    """Two statements of every kind (same name declared twice, different values) + three Decay blocks:
    every rotation of the statement list, forward and reversed, the blocks at varying positions."""
    K = c07_kinds()
    base = []
    for kind, (symbols, make) in K.items():
        if kind in ("LSDef", "BlattWeisskopf", "ChangeMass", "IncFactor"):
            base += [make(0, 0), make(len(symbols) - 1, 1)]         # no repeated lineshape setting here
        else:
            base += [make(0, 0), make(1 % len(symbols), 1), make(0, 2)]
    blocks = [block("B0sig", content_lines(2, 5)), block("D*+sig", []), block("B0sig", content_lines(9, 6))]
    out = []
    orders = []
    for r in range(len(base)):
        rot = base[r:] + base[:r]
        orders.append(rot)
        orders.append(rot[::-1])
    rng = random.Random(seed)
    for _ in range(extra_shuffles):
        s = list(base)
        rng.shuffle(s)
        orders.append(s)
    for i, o in enumerate(orders):
        cuts = sorted(((i * 7) % (len(o) + 1), (i * 13 + 5) % (len(o) + 1), (i * 29 + 11) % (len(o) + 1)))
        parts = o[:cuts[0]] + [blocks[0]] + o[cuts[0]:cuts[1]] + [blocks[1]] + o[cuts[1]:cuts[2]] + [blocks[2]] + o[cuts[2]:]
        out.append(("C07.orders", "".join(parts)))
    return out


def c07_alphabet():
    """Every pool name in every name slot of every statement kind (pairs of neighbouring pool names in the
    two- and three-name statements), one text per pool name."""
    out = []
    P = POOL
    for i, a in enumerate(P):
        b, c = P[(i + 1) % len(P)], P[(i + 2) % len(P)]
        t = (f"Define {a} 1.5\nAlias {a} {b}\nChargeConj {b} {a}\nCDecay {a}\nCopyDecay {a} {c}\nParticle {a} 1.0 0.1\n"
             f"{LS_KINDS[i % 3]} {a}\nBlattWeisskopf {a} 3.0\n{CHANGEMASS_KINDS[i % 2]} {a} 0.5\n{INCFACTOR_KINDS[i % 2]} {a} no\n"
             f"SetLineshapePW {a} {b} {c} 2\nSetLineshapePW {c} {a} {b} 0\n{PYTHIA_KINDS[i % 3]} {a}:{b}=off\n"
             f"ModelAlias {a if numeric_prefix(a) == 0 else 'n' + a} PHSP;\n")
        out.append(("C07.alphabet", t + BACKGROUND))
        if numeric_prefix(a) == 0:
            out.append(("C07.alphabet", f"{PYTHIA_KINDS[(i + 1) % 3]} {b}:{c}={a}\n" + BACKGROUND + t))
    return out


def c07_numbers():
    """Every literal form in every numeric slot; JetSet integers vs floats; Pythia integer / float / word."""
    out = []
    for i, lit in enumerate(LITS):
        other = LITS[(i + 5) % len(LITS)]
        t = (f"Define v{i} {lit}\nParticle B0 {lit} {other}\nParticle pi0 {other}\nParticle MyP {other} {lit}\n"
             f"BlattWeisskopf rho0 {lit}\nChangeMassMin rho0 {lit}\nChangeMassMax rho0 {other}\n"
             f"JetSetPar PARJ({i})={lit}\nJetSetPar MSTJ({i + 100})={other}\nPythiaBothParam A:b={lit}\n"
             f"PythiaAliasParam A:b={other}\nSetLineshapePW a b c {i * 7}\n")
        out.append(("C07.numbers", t + BACKGROUND))
    return out


def c07_widths():
    """Particle without a width: every known name x {no alias, alias to another known particle, alias declared
    after the Particle statement, alias redeclared (later wins), width given in a later / earlier declaration}."""
    out = []
    for i, n in enumerate(KNOWN):
        o, o2 = KNOWN[(i + 1) % len(KNOWN)], KNOWN[(i + 5) % len(KNOWN)]
        variants = (
            f"Particle {n} 1.5\n",
            f"Alias My{i} {o}\nParticle My{i} 1.5\n",
            f"Particle My{i} 1.5\nAlias My{i} {o}\n",
            f"Alias My{i} {o}\nParticle My{i} 1.5\nAlias My{i} {o2}\n",
            f"Alias {n} {o}\nParticle {n} 2.5\n",
            f"Particle {n} 1.5\nParticle {n} 2.5 0.25\n",
            f"Particle {n} 1.5 0.25\nParticle {n} 2.5\n",
            f"Particle {n} 1.5\nParticle {o} 2.5\nParticle {n} 3.5\nParticle {o2} 1 2\nParticle {o} .5\nParticle {n} 4.5\n",
        )
        for k, t in enumerate(variants):
            out.append(("C07.widths", (BACKGROUND + t) if k % 2 else (t + BACKGROUND)))
    return out


def c07_all(tier="quick", seed=0):
    fixed = c07_alphabet() + c07_numbers() + c07_widths()
    if tier == "quick":
        return c07_sequences() + c07_combined() + c07_orders() + fixed
    return (c07_sequences(full3=5, full4=5, two_lens=(6, 7, 8), photos_len=9)
            + c07_combined(full3=5, full4=5, two_lens=(6, 7, 8), photos_len=9) + c07_orders(200, seed) + fixed)


# ================================================================================================ random supplement

def random_supplement(n, seed, flavour):
    """Seeded random texts built from the same pools (thorough tier only; never replaces an enumeration)."""
    rng = random.Random(f"{seed}-{flavour}")
    K = c07_kinds()
    out = []
    for _ in range(n):
        parts = []
        defs = rng.sample(DEFNAMES, rng.randint(0, 4))
        aliases = [f"AL{i}" for i in range(rng.randint(0, 3))]
        pre = [f"Define {d} {rng.choice(LITS)}\n" for d in defs for _ in range(rng.randint(1, 2))]
        for a in aliases:
            for _ in range(rng.randint(1, 2)):
                ps = [rng.choice(list(defs) + ["-" + d for d in defs] + list(LITS) + list(WORDS)) for _ in range(rng.randint(0, 5))]
                pre.append(f"ModelAlias {a} {rng.choice(MODELS)}{' ' if ps else ''}{rng.choice(SEPS[:4]).join(ps)};\n")
        if flavour == "C07":
            for kind in rng.sample(sorted(K), rng.randint(3, len(K))):
                symbols, make = K[kind]
                for j in range(rng.randint(1, 4)):
                    pre.append(make(rng.randrange(len(symbols)), j))
        mothers = rng.sample(POOL, rng.randint(0, 7))
        blocks = []
        for m in mothers + [rng.choice(mothers) for _ in range(rng.randint(0, 2)) if mothers]:
            lines = []
            for _ in range(rng.randint(0, 7)):
                if aliases and rng.random() < 0.3:
                    lines.append(fmt_line(rng.choice(LITS), first_ok(rng.choices(POOL, k=rng.randint(0, 4))), rng.random() < 0.4, rng.choice(aliases)))
                else:
                    ps = [rng.choice(list(defs) + ["-" + d for d in defs] + list(DEFNAMES) + list(LITS) + list(WORDS))
                          for _ in range(rng.randint(0, 6))]
                    lines.append(fmt_line(rng.choice(LITS), first_ok(rng.choices(POOL, k=rng.randint(0, 4))), rng.random() < 0.4,
                                          rng.choice(MODELS), ps, sep=rng.choice(SEPS), term=rng.choice(TERMS)))
            blocks.append(block(m, lines))
        parts = pre + blocks
        rng.shuffle(parts)
        out.append((f"{flavour}.random", "".join(parts) if parts else "\n"))
    return out
