"""Reference reader of AmpGen option texts (spec function for C17, reused by C18/C19/C20).

Written from the statement of property C17, not from ampgen.lark / AmpGenTransformer /
AmplitudeChain:

  * ``EventType m d1 d2 ...``             the event-type particles, in order;
  * ``name fix value error``              one parameter row per such line (bare name, three numbers);
  * ``name value``                        one constant row per such line (bare name, one number);
  * ``decay f1 a da f2 b db``             a decay line; ``decay`` is ``particle[spin;lineshape]{d1,d2}``,
                                          nested; the tag part and the daughters are optional;
  * ``FastCoherentSum::UseCartesian 0|1`` the coherent-sum (cartesian) option, file-wide, wherever it stands;
  * ``#`` starts a comment; blank lines carry nothing; ``Output "..."``, ``nEvents n``, ``a = b`` and
    decay lines with a single numeric group state neither a table row nor an amplitude.

Amplitudes: one per *complete* decay line of the event-type mother.  A daughter written without its own
decay is replaced by EVERY decay line given separately for that name (each of them expanded in turn), so a
line stands for the cartesian product of the alternatives of its daughters: alternatives in file order,
product in odometer order (last daughter fastest).  Tree, spin tag and lineshape tag are those written; the
coupling of an amplitude is that of the mother's line: ``a * exp(i b)``, or ``a + i b`` when the cartesian
option is on.

Nothing here imports decaylanguage or lark.
"""
from __future__ import annotations

import cmath
import itertools

NAME_CHARS = set("abcdefghijklmnopqrstuvwxyzABCDEFGHIJKLMNOPQRSTUVWXYZ0123456789_/'*()+-:~")
SPIN_TAGS = ("S", "P", "D")


class OptionSyntaxError(ValueError):
    pass


# ------------------------------------------------------------------------------------------------------
# decay expressions
# ------------------------------------------------------------------------------------------------------

def _skip(s, i):
    while i < len(s) and s[i] in " \t":
        i += 1
    return i


def parse_decay(s, i=0):
    """Parse ``name[tags]{d1,d2}`` starting at s[i]; returns (node, next index).

    node = {"name": str, "spin": str|None, "lineshape": str|None, "daughters": [node, ...]}"""
    i = _skip(s, i)
    j = i
    while j < len(s) and s[j] in NAME_CHARS:
        j += 1
    if j == i:
        raise OptionSyntaxError(f"particle name expected at column {i} of {s!r}")
    node = {"name": s[i:j], "spin": None, "lineshape": None, "daughters": []}
    k = _skip(s, j)
    if k < len(s) and s[k] == "[":
        e = s.find("]", k)
        if e < 0:
            raise OptionSyntaxError(f"unclosed '[' in {s!r}")
        parts = [p.strip() for p in s[k + 1:e].split(";")]
        if len(parts) == 1:
            if parts[0] in SPIN_TAGS:
                node["spin"] = parts[0]
            else:
                node["lineshape"] = parts[0]
        elif len(parts) == 2:
            if parts[0] in SPIN_TAGS:
                node["spin"] = parts[0]
            else:
                raise OptionSyntaxError(f"two lineshape tags in {s!r}")
            node["lineshape"] = parts[1]
        else:
            raise OptionSyntaxError(f"bad tag in {s!r}")
        k = _skip(s, e + 1)
        if not (k < len(s) and s[k] == "{"):
            raise OptionSyntaxError(f"tag without daughters in {s!r}")
    if k < len(s) and s[k] == "{":
        d1, k = parse_decay(s, k + 1)
        k = _skip(s, k)
        if not (k < len(s) and s[k] == ","):
            raise OptionSyntaxError(f"',' expected in {s!r} at {k}")
        d2, k = parse_decay(s, k + 1)
        k = _skip(s, k)
        if not (k < len(s) and s[k] == "}"):
            raise OptionSyntaxError(f"'}}' expected in {s!r} at {k}")
        node["daughters"] = [d1, d2]
        return node, k + 1
    return node, j


def render(node, names=None):
    """Canonical text of a tree; ``names`` optionally maps written names to other spellings."""
    nm = node["name"] if names is None else names(node["name"])
    if node["spin"] and node["lineshape"]:
        nm += "[" + node["spin"] + ";" + node["lineshape"] + "]"
    elif node["lineshape"]:
        nm += "[" + node["lineshape"] + "]"
    elif node["spin"]:
        nm += "[" + node["spin"] + "]"
    if node["daughters"]:
        nm += "{" + ",".join(render(d, names) for d in node["daughters"]) + "}"
    return nm


def leaves(node):
    """Final-state leaves, left to right."""
    if not node["daughters"]:
        return [node["name"]]
    out = []
    for d in node["daughters"]:
        out += leaves(d)
    return out


def leaf_spans(node, start=0):
    """Annotate: returns (list of (node, (first leaf index, last+1)) in pre-order, number of leaves)."""
    if not node["daughters"]:
        return [(node, (start, start + 1))], 1
    acc = []
    n = 0
    for d in node["daughters"]:
        sub, k = leaf_spans(d, start + n)
        acc += sub
        n += k
    return [(node, (start, start + n))] + acc, n


def depth(node):
    return 1 + max((depth(d) for d in node["daughters"]), default=0)


def as_tuple(node):
    return (node["name"], node["spin"], node["lineshape"], tuple(as_tuple(d) for d in node["daughters"]))


# ------------------------------------------------------------------------------------------------------
# option texts
# ------------------------------------------------------------------------------------------------------

def _number(tok):
    try:
        return float(tok)
    except ValueError:
        raise OptionSyntaxError(f"number expected, got {tok!r}") from None


def read_options(text):
    """-> dict(event_type, cartesian (None if the option is absent), parameters, constants, decay_lines, other)"""
    out = {"event_type": None, "cartesian": None, "parameters": [], "constants": [], "decay_lines": [], "other": []}
    for lineno, raw in enumerate(text.replace("\r\n", "\n").split("\n"), 1):
        line = raw.split("#", 1)[0].strip()
        if not line:
            continue
        first = line.split()[0]
        if first == "EventType":
            if out["event_type"] is not None:
                raise OptionSyntaxError("two EventType lines")
            out["event_type"] = line.split()[1:]
            continue
        if first == "FastCoherentSum::UseCartesian":
            if out["cartesian"] is not None:
                raise OptionSyntaxError("coherent-sum option given twice")
            out["cartesian"] = int(line.split()[1]) != 0
            continue
        if first in ("Output", "nEvents"):
            out["other"].append((lineno, line))
            continue
        node, k = parse_decay(line, 0)
        rest = line[k:].split()
        if rest and rest[0] == "=":
            out["other"].append((lineno, line))
            continue
        bare = not node["daughters"]
        if len(rest) == 1 and bare:
            out["constants"].append((node["name"], _number(rest[0])))
        elif len(rest) == 3 and bare:
            flag = int(_number(rest[0]))
            out["parameters"].append((node["name"], flag, _number(rest[1]), _number(rest[2])))
        elif len(rest) == 3:
            out["other"].append((lineno, line))          # single-component decay line: states no amplitude
        elif len(rest) == 6:
            cols = (int(_number(rest[0])), _number(rest[1]), _number(rest[2]),
                    int(_number(rest[3])), _number(rest[4]), _number(rest[5]))
            out["decay_lines"].append({"tree": node, "cols": cols, "lineno": lineno})
        else:
            raise OptionSyntaxError(f"line {lineno}: cannot classify {line!r}")
    if out["event_type"] is None:
        raise OptionSyntaxError("no EventType line")
    return out


def expand(node, decay_lines):
    """All complete trees a (partial) tree stands for."""
    if node["daughters"]:
        alts = [expand(d, decay_lines) for d in node["daughters"]]
        res = []
        for combo in itertools.product(*alts):
            n = dict(node)
            n["daughters"] = list(combo)
            res.append(n)
        return res
    repl = []
    for dl in decay_lines:
        if dl["tree"]["name"] == node["name"]:
            repl += expand(dl["tree"], decay_lines)
    return repl if repl else [node]


def coupling(cols, cartesian):
    a, b = cols[1], cols[4]
    if cartesian:
        return complex(a, b)
    return a * cmath.exp(1j * b)


def amplitudes(opts):
    """Expanded amplitudes of the event-type mother: list of dict(tree, coupling, cols, lineno)."""
    mother = opts["event_type"][0]
    cart = bool(opts["cartesian"])
    res = []
    for dl in opts["decay_lines"]:
        if dl["tree"]["name"] != mother:
            continue
        for t in expand(dl["tree"], opts["decay_lines"]):
            res.append({"tree": t, "coupling": coupling(dl["cols"], cart), "cols": dl["cols"], "lineno": dl["lineno"]})
    return res


def read(text):
    """Everything C17 states about a text."""
    o = read_options(text)
    o["amplitudes"] = amplitudes(o)
    return o


# ------------------------------------------------------------------------------------------------------
# brute-force oracle of C18: Bose-symmetrised index permutations
# ------------------------------------------------------------------------------------------------------

def assignments(leaf_names, final_states):
    """All one-to-one assignments (tuples p, p[k] = position in final_states given to leaf k) with
    final_states[p[k]] == leaf_names[k]; brute force over all injective index tuples."""
    n = len(leaf_names)
    res = []
    for p in itertools.permutations(range(len(final_states)), n):
        if all(final_states[p[k]] == leaf_names[k] for k in range(n)):
            res.append(p)
    return res
