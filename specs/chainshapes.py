"""specs/chainshapes.py -- shapes of acyclic single decay chains and the oracles of C11..C15.

Everything here is written from the property statements (properties.jsonl C11-C15); nothing is imported
from the library under test.  The check modules (checks/C11..C15.py) run the real code and compare
with these oracles.

Shapes
------
A *shape* is a tuple ``(decay_0, ..., decay_{n-1})``; ``decay_i`` is the decay of the decaying particle
``D_i`` (its rank is ``i``): a tuple of ``(symbol, multiplicity)`` pairs sorted by symbol.  A symbol
``j >= 0`` is the decaying particle ``D_j`` (only ``j < i`` is allowed, hence acyclic); a symbol
``-(k+1)`` is the stable name ``s_k``.  In the enumerated (reachable-only) shapes the mother is
``D_{n-1}`` and every ``D_j`` is reachable from it; chains with unreachable entries are obtained by
taking another ``D_m`` as the mother of the same shape (see ``mothers_with_unreachable``).

A *family* fixes the bounds ``(n, n_stable, max_distinct, max_mult, max_size)``: number of decaying
particles, number of stable names available, distinct daughters per decay, multiplicity of one daughter,
daughters per decay counted with multiplicity.  ``family_shapes`` enumerates a family exhaustively and
keeps one representative per class of shapes equal up to renaming (of decaying particles and of stable
names).

Besides the shapes this module holds the oracles of the five properties: ``leaves`` / ``bf`` / ``tree`` /
``dict_form`` / ``canon_dict`` (C11, C12), ``read_back`` with the pattern family ``PATTERNS`` (C13),
``FormatModel`` / ``placeholders`` (C14), ``chain_dict_from_tables`` / ``graph_spec`` (C15), and small
helpers shared by the check modules (JSON form of chains, forked slices, a time limit for calls).

A *chain* (concrete) is ``{"mother": str, "decays": [[name, bf, [[daughter, mult], ...], metadata], ...]}``
(a JSON-able structure; the list order of "decays" is the insertion order of the mapping given to the
library).
"""
from __future__ import annotations

from collections import Counter
from fractions import Fraction
from itertools import combinations, permutations, product

# ----------------------------------------------------------------------------------------------------
# shapes
# ----------------------------------------------------------------------------------------------------


def decay_options(n_lower, n_stable, max_distinct, max_mult, max_size):
    """All decays of a particle that may have the ``n_lower`` lower-ranked decaying particles and
    ``n_stable`` stable names as daughters (at least one daughter)."""
    syms = [-(k + 1) for k in range(n_stable - 1, -1, -1)] + list(range(n_lower))
    out = []
    for k in range(1, max_distinct + 1):
        for combo in combinations(syms, k):
            for mults in product(range(1, max_mult + 1), repeat=k):
                if sum(mults) <= max_size:
                    out.append(tuple(zip(combo, mults)))
    return out


def reachable(shape, mother):
    seen = set()
    todo = [mother]
    while todo:
        i = todo.pop()
        if i in seen:
            continue
        seen.add(i)
        for sym, _ in shape[i]:
            if sym >= 0:
                todo.append(sym)
    return seen


def _heights(shape):
    h = []
    for dec in shape:
        ds = [h[s] for s, _ in dec if s >= 0]
        h.append(1 + max(ds) if ds else 0)
    return h


def canon(shape, n_stable):
    """Smallest relabelling of ``shape`` among all renamings of stable names and all rank-respecting
    renamings of decaying particles (class invariant: candidates are generated from a
    renaming-invariant sort key, ties are broken by trying every permutation inside a tie group)."""
    n = len(shape)
    heights = _heights(shape)
    best = None
    for sperm in permutations(range(n_stable)):
        sig = []
        for dec in shape:
            items = []
            for s, m in dec:
                if s >= 0:
                    items.append((1, sig[s], m))
                else:
                    items.append((0, sperm[-s - 1], m))
            items.sort()
            sig.append(tuple(items))
        keys = sorted(set((heights[i], sig[i]) for i in range(n)))
        groups = [[i for i in range(n) if (heights[i], sig[i]) == k] for k in keys]
        for choice in product(*[permutations(g) for g in groups]):
            order = [i for g in choice for i in g]
            new = [0] * n
            for pos, old in enumerate(order):
                new[old] = pos
            cand = [None] * n
            for old in range(n):
                cand[new[old]] = tuple(sorted(((new[s] if s >= 0 else -(sperm[-s - 1]) - 1), m)
                                              for s, m in shape[old]))
            cand = tuple(cand)
            if best is None or cand < best:
                best = cand
    return best


class Family:
    """Bounds of one exhaustively enumerated family of shapes."""

    def __init__(self, n, n_stable, max_distinct, max_mult, max_size):
        self.n, self.n_stable = n, n_stable
        self.max_distinct, self.max_mult, self.max_size = max_distinct, max_mult, max_size

    def key(self):
        return (self.n, self.n_stable, self.max_distinct, self.max_mult, self.max_size)

    def __repr__(self):
        return ("n=%d decaying, %d stable names, <=%d distinct daughters, multiplicity<=%d, <=%d daughters per decay"
                % self.key())

    def options(self, i):
        return decay_options(i, self.n_stable, self.max_distinct, self.max_mult, self.max_size)

    def n_tasks(self):
        """Number of independent slices (one per decay of the mother)."""
        return len(self.options(self.n - 1))

    def raw_size(self):
        r = 1
        for i in range(self.n):
            r *= len(self.options(i))
        return r


def family_shapes(fam, task=None):
    """Reachable-only shapes of the family, one per renaming class, mother = D_{n-1}.
    ``task`` selects the slice with the ``task``-th decay of the mother (for parallel enumeration)."""
    n = fam.n
    top = fam.options(n - 1)
    if task is not None:
        top = [top[task]]
    lower = [fam.options(i) for i in range(n - 1)]
    for mdec in top:
        for rest in product(*lower):
            shape = rest + (mdec,)
            if len(reachable(shape, n - 1)) != n:
                continue
            if canon(shape, fam.n_stable) != shape:
                continue
            yield shape


def mothers_with_unreachable(shape):
    """Other choices of the mother in the same mapping: every D_m (m < n-1); the entries not reachable
    from D_m (at least D_{n-1}) are then unreachable entries of the mapping."""
    return list(range(len(shape) - 1))


def shape_is_nontrivial(shape):
    """A shape is non-trivial if it has at least one sub-decay (n >= 2)."""
    return len(shape) >= 2


# ----------------------------------------------------------------------------------------------------
# name pools
# ----------------------------------------------------------------------------------------------------

# decaying names are indexed by rank; the pools differ in how the lexicographic order of the names
# relates to the rank and to the stable names (sorting is what the library does in several places).
POOLS = [
    dict(name="evtgen", decaying=["pi0", "K_S0", "D0", "D*+", "B0", "Upsilon(4S)", "chi_b1(3P)"],
         stable=["gamma", "pi+", "e-"]),
    dict(name="brackets", decaying=["f'_0", "K*(892)0", "anti-K*0", "K_1(1270)+", "D_s1(2536)+", "Upsilon(4S)", "psi(2S)"],
         stable=["K+", "pi-", "anti-nu_e"]),
    dict(name="descending", decaying=["x6", "u5", "k4", "c3", "Z2", "M1", "A0"], stable=["s", "T", "~q"]),
    dict(name="evtgen2", decaying=["eta'", "rho(2S)0", "a_1+", "D'_s1+", "anti-B_s0", "Upsilon(5S)", "Z0"],
         stable=["mu-", "anti-nu_mu", "nu_tau"]),
]

PRIMES = [2, 3, 5, 7, 11, 13, 17, 19, 23, 29, 31, 37]


def instantiate(shape, pool, mother=None, bfs=None, metas=None, order=None):
    """Concrete chain of a shape: names from ``pool``, branching fractions ``bfs[i]`` (default: reciprocal
    of the i-th prime as an exact Fraction), metadata ``metas[i]`` (default none), entries of the mapping
    in ``order`` (default: rank order)."""
    n = len(shape)
    dn, sn = pool["decaying"], pool["stable"]

    def nm(s):
        return dn[s] if s >= 0 else sn[-s - 1]

    mother = n - 1 if mother is None else mother
    order = list(range(n)) if order is None else list(order)
    decs = []
    for i in order:
        bf = Fraction(1, PRIMES[i]) if bfs is None else bfs[i]
        meta = {} if metas is None else metas[i]
        decs.append([dn[i], bf, [[nm(s), m] for s, m in shape[i]], meta])
    return {"mother": dn[mother], "decays": decs}


# ----------------------------------------------------------------------------------------------------
# recursive oracles on concrete chains
# ----------------------------------------------------------------------------------------------------


def _table(chain):
    return {name: (bf, fs) for name, bf, fs, _meta in chain["decays"]}


def leaves(chain, S=()):
    """Multiset of leaves of the decay tree of the mother; a particle of ``S`` (never the mother) and a
    particle without a decay are leaves."""
    tab = _table(chain)
    S = set(S)
    memo = {}

    def lv(p, top=False):
        if p not in tab or (p in S and not top):
            return Counter({p: 1})
        if p in memo:
            return memo[p]
        c = Counter()
        for d, m in tab[p][1]:
            sub = lv(d)
            for k, v in sub.items():
                c[k] += v * m
        memo[p] = c
        return c

    return +lv(chain["mother"], top=True)


def bf(chain, S=(), one=1):
    """Product of the branching fractions of all decays in the tree, each as often as it occurs."""
    tab = _table(chain)
    S = set(S)
    memo = {}

    def b(p, top=False):
        if p not in tab or (p in S and not top):
            return one
        if p in memo:
            return memo[p]
        r = tab[p][0]
        for d, m in tab[p][1]:
            sub = b(d)
            for _ in range(m):
                r = r * sub
        memo[p] = r
        return r

    return b(chain["mother"], top=True)


def n_decay_occurrences(chain, S=()):
    """How many decays the tree contains (with repetition) -- used for float tolerances."""
    tab = _table(chain)
    S = set(S)

    def c(p, top=False):
        if p not in tab or (p in S and not top):
            return 0
        return 1 + sum(m * c(d) for d, m in tab[p][1])

    return c(chain["mother"], top=True)


def _ckey(child):
    return (0, child) if isinstance(child, str) else (1, repr(child))


def tree(chain):
    """Nested structure ``(mother, (child, ...))``; a child is a name (leaf) or again such a pair.
    Children are a multiset: they are kept in one canonical (sorted) order."""
    tab = _table(chain)

    def t(p):
        kids = []
        for d, m in tab[p][1]:
            k = t(d) if d in tab else d
            kids.extend([k] * m)
        kids.sort(key=_ckey)
        return (p, tuple(kids))

    return t(chain["mother"])


def canon_tree(t):
    """Canonical order of the children of an arbitrary nested (mother, children) structure."""
    m, kids = t
    ks = [k if isinstance(k, str) else canon_tree(k) for k in kids]
    ks.sort(key=_ckey)
    return (m, tuple(ks))


def dict_form(chain, metadata_of):
    """Dictionary form of a chain as the property describes it: ``{mother: [mode]}`` with
    ``mode = {"bf", "fs", **metadata}``; ``fs`` lists the daughters in the canonical (sorted by name,
    with multiplicity) order and EVERY occurrence of a decaying particle is replaced by its own
    dictionary form.  ``metadata_of(name)`` gives the metadata shown for that decay."""
    tab = _table(chain)

    def d(p):
        fs = []
        for name in sorted(x for x, m in tab[p][1] for _ in range(m)):
            fs.append(d(name) if name in tab else name)
        mode = {"bf": tab[p][0], "fs": fs}
        mode.update(metadata_of(p))
        return {p: [mode]}

    return d(chain["mother"])


def canon_dict(dc):
    """A chain dictionary with every ``fs`` list put into one canonical order (used for 'equal up to the
    order of daughters')."""
    def key(x):
        return (0, x) if isinstance(x, str) else (1, repr(canon_dict(x)))

    out = {}
    for mother, modes in dc.items():
        ms = []
        for mode in modes:
            mm = dict(mode)
            mm["fs"] = sorted((x if isinstance(x, str) else canon_dict(x) for x in mode["fs"]), key=key)
            ms.append(mm)
        out[mother] = ms
    return out


# ----------------------------------------------------------------------------------------------------
# C13: reading a descriptor back by matching its brackets
# ----------------------------------------------------------------------------------------------------

OPEN = "([<"
CLOSE = ")]>"

# (top pattern, nested pattern).  No literal braces (str.format would need them doubled).  After
# {mother} / before a closing bracket the patterns have either a blank or a bracket, so that a name is
# always a maximal run of non-blank characters up to brackets that do not belong to it.
PATTERNS = [
    ("{mother} -> {daughters}", "({mother} -> {daughters})"),            # the default
    ("{mother} --> {daughters}", "[{mother} --> {daughters}]"),
    ("{mother} => {daughters}", "{mother} (=> {daughters})"),
    ("{mother} : {daughters}", "<{mother} : {daughters}>"),
    ("[{mother} -> {daughters}]", "({mother} -> {daughters})"),          # top level bracketed, differently
    ("{daughters} <- {mother}", "({daughters} <- {mother})"),            # other order of the placeholders
    ("{mother} -> {daughters}", "[({mother} -> {daughters})]"),          # two brackets
]


class ReadBackError(ValueError):
    pass


def _pieces(pattern):
    """Split a pattern at its two placeholders: [literal, field, literal, field, literal]."""
    im, idd = pattern.find("{mother}"), pattern.find("{daughters}")
    if im < 0 or idd < 0:
        raise ReadBackError("pattern without both placeholders: %r" % pattern)
    if im < idd:
        return [pattern[:im], "mother", pattern[im + 8:idd], "daughters", pattern[idd + 11:]]
    return [pattern[:idd], "daughters", pattern[idd + 11:im], "mother", pattern[im + 8:]]


def _read_name(text, pos):
    """A name is a maximal run of non-blank characters; closing brackets at its end that have no
    partner inside the run do not belong to it (names have balanced brackets)."""
    end = pos
    while end < len(text) and text[end] != " ":
        end += 1
    tok = text[pos:end]
    while tok and tok[-1] in CLOSE:
        c = tok[-1]
        o = OPEN[CLOSE.index(c)]
        if tok.count(c) > tok.count(o):
            tok = tok[:-1]
        else:
            break
    if not tok:
        raise ReadBackError("name expected at %d in %r" % (pos, text))
    return tok, pos + len(tok)


def _expect(text, pos, lit):
    if not text.startswith(lit, pos):
        raise ReadBackError("expected %r at %d in %r" % (lit, pos, text))
    return pos + len(lit)


def read_back(text, top_pattern=PATTERNS[0][0], sub_pattern=PATTERNS[0][1]):
    """Tree ``(mother, children)`` (children in canonical order) of a descriptor: the outermost level is
    read with ``top_pattern``, every nested level with ``sub_pattern``."""
    top = _pieces(top_pattern)
    sub = _pieces(sub_pattern)

    def read_level(pos, pc, at_top):
        out = {}
        pos = _expect(text, pos, pc[0])
        for field, after in ((pc[1], pc[2]), (pc[3], pc[4])):
            if field == "mother":
                out["mother"], pos = _read_name(text, pos)
            else:
                out["kids"], pos = read_daughters(pos, after, at_top and after == "")
            pos = _expect(text, pos, after)
        return (out["mother"], out["kids"]), pos

    def starts_sub(pos):
        """Does a nested decay start here?"""
        if sub[0]:
            return text.startswith(sub[0], pos)
        # nested pattern starting with the mother's name: a name followed by the middle literal
        try:
            _nm, p2 = _read_name(text, pos)
        except ReadBackError:
            return False
        return sub[1] == "mother" and text.startswith(sub[2], p2)

    def read_daughters(pos, terminator, to_end):
        kids = []
        while True:
            if starts_sub(pos):
                k, pos = read_level(pos, sub, False)
            else:
                k, pos = _read_name(text, pos)
            kids.append(k)
            if to_end:
                if pos == len(text):
                    break
            elif text.startswith(terminator, pos):
                # a terminator that starts with a blank could also be the separator before the next
                # daughter; it is the terminator unless the level cannot be completed with it --
                # the patterns of PATTERNS have ' <- ' / ' -> ' style middles that no daughter starts with
                break
            pos = _expect(text, pos, " ")
        return kids, pos

    t, pos = read_level(0, top, True)
    if pos != len(text):
        raise ReadBackError("trailing text at %d in %r" % (pos, text))
    return canon_tree((t[0], tuple(_tuplify(k) for k in t[1])))


def _tuplify(k):
    if isinstance(k, str):
        return k
    return (k[0], tuple(_tuplify(x) for x in k[1]))


# ----------------------------------------------------------------------------------------------------
# C14: stack model of the descriptor format in force
# ----------------------------------------------------------------------------------------------------

DEFAULT_FORMAT = ("{mother} -> {daughters}", "({mother} -> {daughters})")


def placeholders(pattern):
    """Set of placeholder names of a pattern, by a brace scanner ('{{' and '}}' are literal braces).
    Returns None for a pattern with unbalanced single braces."""
    out = set()
    i = 0
    while i < len(pattern):
        ch = pattern[i]
        if ch == "{":
            if pattern.startswith("{{", i):
                i += 2
                continue
            j = pattern.find("}", i)
            if j < 0:
                return None
            field = pattern[i + 1:j]
            for stop in ("!", ":"):
                if stop in field:
                    field = field[:field.index(stop)]
            out.add(field)
            i = j + 1
        elif ch == "}":
            if pattern.startswith("}}", i):
                i += 2
                continue
            return None
        else:
            i += 1
    return out


def pattern_is_valid(pattern):
    """A pattern is accepted iff it has both placeholders and no other."""
    return placeholders(pattern) == {"mother", "daughters"}


def render_one(pattern, mother, daughters):
    """One level rendered with a pattern (patterns without literal braces / conversions only)."""
    return pattern.replace("{mother}", "\0M").replace("{daughters}", "\0D").replace("\0M", mother).replace("\0D", daughters)


class FormatModel:
    """The format in force as the property describes it: entering a context saves the format in force
    at that moment; leaving it (however) restores exactly that one; an invalid pattern changes nothing."""

    def __init__(self):
        self.current = DEFAULT_FORMAT
        self.saved = []          # one saved format per context that is entered and not yet left

    def set(self, pair):
        """-> True if accepted."""
        if pattern_is_valid(pair[0]) and pattern_is_valid(pair[1]):
            self.current = tuple(pair)
            return True
        return False

    def enter(self, pair):
        """-> True if the context is entered (valid patterns), else nothing changes."""
        before = self.current
        if self.set(pair):
            self.saved.append(before)
            return True
        return False

    def leave(self):
        self.current = self.saved.pop()


# ----------------------------------------------------------------------------------------------------
# C15: the graph of a chain dictionary
# ----------------------------------------------------------------------------------------------------


def chain_dict_from_tables(tables, mother):
    """Chain dictionary of a table set (``{particle: [[bf, [daughter, ...], model, model_params], ...]}``):
    ``{mother: [ {"bf", "fs", "model", "model_params"} per line ]}``, every daughter that has a table
    (even an empty one) replaced by its own chain dictionary.  The table set must be acyclic."""
    lines = []
    for bf_, fs, model, params in tables[mother]:
        lines.append({"bf": bf_, "fs": [chain_dict_from_tables(tables, d) if d in tables else d for d in fs],
                      "model": model, "model_params": params})
    return {mother: lines}


def graph_spec(chain_dict, show=lambda name: name):
    """Canonical form of the graph the property demands: the root shows the mother and carries, for
    every decay line, one edge labelled str(bf) to one node listing the daughters in the given order;
    a daughter with sub-decays carries, from its slot, the same structure for its own lines.

    Returned: ``(shown mother, children)`` with ``children`` = sorted tuple of
    ``(label, cells, slots)``, ``cells`` the tuple of shown daughter names in order and ``slots`` a
    tuple of ``(position, children)`` for the positions from which edges leave.
    Also returned: number of nodes and of edges."""
    count = {"nodes": 1, "edges": 0}

    def kids(lines):
        out = []
        for line in lines:
            count["nodes"] += 1
            count["edges"] += 1
            cells = []
            slots = []
            for pos, d in enumerate(line["fs"]):
                if isinstance(d, str):
                    cells.append(show(d))
                else:
                    (name, sub), = d.items()
                    cells.append(show(name))
                    if sub:
                        slots.append((pos, kids(sub)))
            out.append((str(line["bf"]), tuple(cells), tuple(slots)))
        out.sort(key=repr)
        return tuple(out)

    (mother, lines), = chain_dict.items()
    return (show(mother), kids(lines)), count["nodes"], count["edges"]


# ----------------------------------------------------------------------------------------------------
# JSON form of concrete chains, slices for parallel enumeration
# ----------------------------------------------------------------------------------------------------


def num_to_json(x):
    return {"fraction": str(x)} if isinstance(x, Fraction) else x


def num_from_json(x):
    return Fraction(x["fraction"]) if isinstance(x, dict) else x


def chain_to_json(chain):
    return {"mother": chain["mother"],
            "decays": [[n, num_to_json(b), [list(p) for p in fs], meta] for n, b, fs, meta in chain["decays"]]}


def chain_from_json(js):
    return {"mother": js["mother"],
            "decays": [[n, num_from_json(b), [list(p) for p in fs], meta] for n, b, fs, meta in js["decays"]]}


def chain_size(chain):
    return (len(chain["decays"]), sum(m for _n, _b, fs, _meta in chain["decays"] for _d, m in fs))


def family_tasks(families):
    """(family key, slice) pairs, largest slices first."""
    tasks = []
    for key in families:
        fam = Family(*key)
        for t in range(fam.n_tasks()):
            tasks.append((key, t))
    return tasks


def run_parallel(worker, tasks, procs=16):
    """Run a module-level ``worker`` over ``tasks`` in forked processes; yields results unordered."""
    import multiprocessing as mp
    if not tasks:
        return
    procs = max(1, min(procs, len(tasks), (mp.cpu_count() or 1)))
    if procs == 1:
        for t in tasks:
            yield worker(t)
        return
    ctx = mp.get_context("fork")
    with ctx.Pool(procs) as pool:
        for res in pool.imap_unordered(worker, tasks, chunksize=1):
            yield res


class CallTimeout(Exception):
    """The call under test did not return within the limit (treated as 'does not terminate')."""


class time_limit:
    """``with time_limit(2.0): call()`` -- raises CallTimeout in the calling (main) thread of the process
    when the real-time limit passes.  The calls concerned normally take well under a millisecond."""

    def __init__(self, seconds):
        self.seconds = seconds

    def _fire(self, signum, frame):
        raise CallTimeout("no result after %.1f s" % self.seconds)

    def __enter__(self):
        import signal
        self._old = signal.signal(signal.SIGALRM, self._fire)
        signal.setitimer(signal.ITIMER_REAL, self.seconds)
        return self

    def __exit__(self, *exc):
        import signal
        signal.setitimer(signal.ITIMER_REAL, 0)
        signal.signal(signal.SIGALRM, self._old)
        return False
