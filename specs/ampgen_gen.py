"""Generators of AmpGen option texts for C17 - C20, the particle pool they draw from, and the
lookup memo shared by the four checks.

Everything here is written from the property statements (quantifiers of C17/C18/C19/C20) and from public
particle-physics conventions (PDG numbering, GooFit's published SF_4Body names); nothing is derived from
the code under test.  No function here calls decaylanguage except ``install_lookup_memo`` (which wraps the
real ``particle_from_string_name`` and always obtains its values from it).
"""
from __future__ import annotations

import itertools
import random

# ------------------------------------------------------------------------------------------------------
# particle pool: AmpGen name -> (PDG id, spin class, J)
#   spin classes: s pseudoscalar, S scalar, V vector, A axial vector, T tensor, t pseudotensor
# ------------------------------------------------------------------------------------------------------
POOL = {
    "D0": (421, "s", 0), "Dbar0": (-421, "s", 0), "D+": (411, "s", 0),
    "K-": (-321, "s", 0), "K+": (321, "s", 0), "pi+": (211, "s", 0), "pi-": (-211, "s", 0),
    # two-body resonances
    "K*(892)bar0": (-313, "V", 1), "K*(892)0": (313, "V", 1), "K*(1410)bar0": (-100313, "V", 1),
    "rho(770)0": (113, "V", 1), "omega(782)0": (223, "V", 1), "rho(1450)0": (100113, "V", 1),
    "phi(1020)0": (333, "V", 1),
    "K(0)*(1430)bar0": (-10311, "S", 0), "f(0)(980)0": (9010221, "S", 0), "f(0)(1370)0": (10221, "S", 0),
    "K(2)*(1430)bar0": (-315, "T", 2), "f(2)(1270)0": (225, "T", 2),
    # special (MintDalitzSpecialParticles.csv) S-wave states
    "PiPi00": (998101, "S", 0), "PiPi10": (988101, "S", 0), "PiPi20": (978101, "S", 0), "PiPi30": (968101, "S", 0),
    "KPi00": (998111, "S", 0), "KPi10": (988111, "S", 0), "KPi20": (978111, "S", 0),
    # three-body resonances
    "K(1)(1270)bar-": (-10323, "A", 1), "K(1)(1270)+": (10323, "A", 1), "K(1)(1400)bar-": (-20323, "A", 1),
    "a(1)(1260)+": (20213, "A", 1), "a(1)(1260)-": (-20213, "A", 1),
    "K(1460)bar-": (-100321, "s", 0), "pi(1300)+": (100211, "s", 0), "pi(1300)-": (-100211, "s", 0),
    "K(2)*(1430)bar-": (-325, "T", 2), "a(2)(1320)+": (215, "T", 2),
    "K*(1410)bar-": (-100323, "V", 1), "K(2)(1770)bar-": (-10325, "t", 2),
}

# what a resonance can be written to decay into (ordered as conventionally written)
PAIR_DECAYS = {
    ("K-", "pi+"): ["K*(892)bar0", "K*(1410)bar0", "K(0)*(1430)bar0", "KPi00", "KPi10", "KPi20", "K(2)*(1430)bar0"],
    ("K+", "pi-"): ["K*(892)0"],
    ("pi+", "pi-"): ["rho(770)0", "omega(782)0", "rho(1450)0", "f(0)(980)0", "f(0)(1370)0", "PiPi00", "PiPi10",
                     "PiPi20", "PiPi30", "f(2)(1270)0"],
    ("K+", "K-"): ["phi(1020)0"],
}
TRIPLE_RES = {
    ("K-", "pi+", "pi-"): ["K(1)(1270)bar-", "K(1)(1400)bar-", "K(1460)bar-", "K(2)*(1430)bar-", "K*(1410)bar-",
                           "K(2)(1770)bar-"],
    ("K+", "pi+", "pi-"): ["K(1)(1270)+"],
    ("pi+", "pi+", "pi-"): ["a(1)(1260)+", "pi(1300)+", "a(2)(1320)+"],
    ("pi+", "pi-", "pi-"): ["a(1)(1260)-", "pi(1300)-"],
}

LINESHAPES = [None, "GSpline.EFF", "kMatrix.pole.1", "kMatrix.prod.0", "FOCUS.Kpi",
              "kMatrix.pole.0", "kMatrix.prod.1", "FOCUS.I32", "FOCUS.KEta"]
KMATRIX_CHANNELS = ("pipi", "KK", "4pi", "EtaEta", "EtapEta", "mass")


def spin_class(name):
    return POOL[name][1]


def spin_J(name):
    return POOL[name][2]


def pdgid(name):
    return POOL[name][0]


def check_pool():
    """Self-check of the hand-written pool against the installed particle data (a mismatch is a checker
    error, never a violation): PDG id exists and has the stated J and spin class."""
    import os

    from particle import Particle

    import decaylanguage
    special = os.path.join(os.path.dirname(decaylanguage.__file__), "data", "MintDalitzSpecialParticles.csv")
    problems = []
    have = {int(p.pdgid) for p in Particle.all()}
    extra = {}
    if 998101 not in have:
        import csv
        with open(special) as f:
            for row in csv.DictReader(f):
                try:
                    extra[int(row["ID"])] = row
                except (ValueError, TypeError):
                    pass
    names = {"s": "PseudoScalar", "S": "Scalar", "V": "Vector", "A": "Axial", "T": "Tensor", "t": "PseudoTensor"}
    for nm, (pid, cls, J) in POOL.items():
        if pid in have:
            p = Particle.from_pdgid(pid)
            if p.J != J or p.spin_type.name != names[cls]:
                problems.append(f"{nm}: particle data say J={p.J} {p.spin_type.name}, pool says {J} {names[cls]}")
        elif pid in extra:
            if cls != "S" and abs(pid) > 900000:
                problems.append(f"{nm}: special particle expected scalar")
        else:
            problems.append(f"{nm}: PDG id {pid} not in the particle data")
    return problems


# ------------------------------------------------------------------------------------------------------
# memo of the (slow, ~0.2 s per call) AmpGen-name lookup
# ------------------------------------------------------------------------------------------------------
class _Memo:
    def __init__(self, real):
        self.real = real
        self.table = {}          # (name, number of rows of the loaded particle table) -> pdgid
        self.hits = 0
        self.misses = 0

    def __call__(self, name):
        from particle import Particle
        key = (name, len(Particle.all()))
        pid = self.table.get(key)
        if pid is not None:
            self.hits += 1
            return Particle.from_pdgid(pid)
        self.misses += 1
        p = self.real(name)
        self.table[key] = int(p.pdgid)
        return p


def install_lookup_memo():
    """Wrap ``particle_from_string_name`` as seen by decaylanguage.modeling.amplitudechain by a memo keyed by
    (name, size of the loaded particle table).  Every value comes from one call of the real function in the
    same table state; the assumption "the lookup is a function of the name and of the loaded table" is
    monitored by ``validate_memo``."""
    import decaylanguage.modeling.amplitudechain as ac
    cur = ac.particle_from_string_name
    if isinstance(cur, _Memo):
        return cur
    m = _Memo(cur)
    ac.particle_from_string_name = m
    return m


def uninstall_lookup_memo():
    import decaylanguage.modeling.amplitudechain as ac
    cur = ac.particle_from_string_name
    if isinstance(cur, _Memo):
        ac.particle_from_string_name = cur.real


def validate_memo(memo, names=None):
    """Re-run the real lookup for cached names in the current table state; returns list of mismatches."""
    from particle import Particle
    n = len(Particle.all())
    bad = []
    for (name, size), pid in sorted(memo.table.items()):
        if size != n or (names is not None and name not in names):
            continue
        got = int(memo.real(name).pdgid)
        if got != pid:
            bad.append(f"{name}: memo {pid}, real lookup now {got}")
    return bad


# ------------------------------------------------------------------------------------------------------
# trees and rendering
# ------------------------------------------------------------------------------------------------------
def N(name, d1=None, d2=None, spin=None, ls=None):
    ds = []
    if d1 is not None:
        ds = [d1 if isinstance(d1, dict) else N(d1), d2 if isinstance(d2, dict) else N(d2)]
    return {"name": name, "spin": spin, "lineshape": ls, "daughters": ds}


def render_tree(t, spaced=False):
    s = t["name"]
    tag = [x for x in (t["spin"], t["lineshape"]) if x]
    if tag and t["daughters"]:
        s += ("[ " + " ; ".join(tag) + " ]") if spaced else ("[" + ";".join(tag) + "]")
    if t["daughters"]:
        a, b = (render_tree(d, spaced) for d in t["daughters"])
        s += ("{ " + a + " , " + b + " }") if spaced else ("{" + a + "," + b + "}")
    return s


def rename(t, mapping):
    return {"name": mapping.get(t["name"], t["name"]), "spin": t["spin"], "lineshape": t["lineshape"],
            "daughters": [rename(d, mapping) for d in t["daughters"]]}


def bare_names(t, acc=None):
    """names of leaves (candidates for expansion by separate lines)"""
    acc = [] if acc is None else acc
    if not t["daughters"]:
        acc.append(t["name"])
    for d in t["daughters"]:
        bare_names(d, acc)
    return acc


COLS = [
    ("2", "1", "0", "2", "0", "0"),
    ("0", "0.648936", "0.0205762", "0", "-0.271637", "0.0342107"),
    ("0", "2.5e-1", "1e-3", "2", "-3.0", "0.5"),
    ("2", "-1.25", "0", "0", "3.14159", "0.1"),
    ("0", "0.361958", "0.00377983", "0", "1.99329", "0.0132565"),
    ("0", "0", "0", "0", "0", "0"),
    ("3", "1", "0", "1", "+0.5", "0"),
    ("0", "1.07313", "0.00826134", "2", "-2.28387", "0"),
    ("2", "0.5", "0", "2", "1.5707963267948966", "0"),
    ("0", "12", "3", "0", "-7", "2"),
]

PARAM_LINES = [
    ("D0_radius", "2", "0.0037559", "0"),
    ("K(1)(1270)bar-_mass", "0", "1289.81", "0.557988"),
    ("K(1)(1270)bar-_width", "0", "116.114", "1.6492"),
    ("a(1)(1260)+_mass", "0", "1195.05", "1.04514"),
    ("f_scatt0", "2", "0.23399", "0"),
    ("IS_p1_4pi", "2", "0", "0"),
    ("IS_p3_EtapEta", "2", "-0.34639", "0"),
    ("a(1)(1260)+::Spline::Gamma::0", "2", "6.62044e-09", "0"),
    ("s0_prod", "2", "-1", "0"),
    ("K(1460)bar-_width", "0", "335.595", "6.19588"),
    ("PiPi00_s0_prod", "1", "-0.196872", "0"),
    ("free_par", "0", "+2.5E-3", "1e-4"),
    ("odd_flag", "3", "-12", "7"),
]
CONST_LINES = [
    ("a(1)(1260)+::Spline::Min", "0.18412"),
    ("a(1)(1260)+::Spline::Max", "1.9"),
    ("a(1)(1260)+::Spline::N", "40"),
    ("K(1460)bar-::Spline::Min", "0.60"),
    ("K(1)(1270)bar-::Spline::Max", "3"),
    ("some_constant", "-1.5e+2"),
    ("Another::Const", "+7"),
]


# ------------------------------------------------------------------------------------------------------
# C17: option texts for the reader
# ------------------------------------------------------------------------------------------------------
def _et_kpipipi():
    Ks, rho, r14, om = "K*(892)bar0", "rho(770)0", "rho(1450)0", "omega(782)0"
    K1, a1, K14, K2 = "K(1)(1270)bar-", "a(1)(1260)+", "K(1460)bar-", "K(2)*(1430)bar-"
    tops = [
        N("D0", N(Ks, "K-", "pi+"), N(rho, "pi+", "pi-")),
        N("D0", N(Ks, "K-", "pi+"), N(rho, "pi+", "pi-"), spin="D"),
        N("D0", N(r14, "pi+", "pi-"), N(Ks, "K-", "pi+"), spin="P"),
        N("D0", Ks, N(rho, "pi+", "pi-")),
        N("D0", Ks, rho),
        N("D0", "KPi00", "PiPi00"),
        N("D0", K1, "pi+"),
        N("D0", N(K1, N(Ks, "K-", "pi+"), "pi-", ls="GSpline.EFF"), "pi+"),
        N("D0", N(K1, rho, "K-", spin="D", ls="GSpline.EFF"), "pi+"),
        N("D0", a1, "K-"),
        N("D0", N(Ks, "K-", "pi+"), "PiPi10", spin="S"),
        N("D0", N(rho, "pi+", "pi-"), N("KPi10", "K-", "pi+", ls="FOCUS.Kpi")),
        N("D0", N(K2, N(Ks, "K-", "pi+"), "pi-"), "pi+"),
        N("D0", K14, "pi+"),
    ]
    subs = {
        Ks: [N(Ks, "K-", "pi+"), N(Ks, "K-", "pi+", ls="FOCUS.Kpi"), N(Ks, "pi+", "K-", spin="P")],
        rho: [N(rho, "pi+", "pi-"), N(rho, "pi+", "pi-", ls="GSpline.EFF"), N(rho, "pi-", "pi+", spin="S")],
        "KPi00": [N("KPi00", "K-", "pi+", ls="FOCUS.I32"), N("KPi00", "K-", "pi+", ls="FOCUS.KEta"),
                  N("KPi00", "K-", "pi+", ls="FOCUS.Kpi")],
        "PiPi00": [N("PiPi00", "pi+", "pi-", ls="kMatrix.pole.1"), N("PiPi00", "pi+", "pi-", ls="kMatrix.prod.0"),
                   N("PiPi00", "pi+", "pi-", ls="kMatrix.pole.0")],
        "PiPi10": [N("PiPi10", "pi+", "pi-", ls="kMatrix.pole.1"), N("PiPi10", "pi+", "pi-", ls="kMatrix.prod.0"),
                   N("PiPi10", "pi+", "pi-")],
        K1: [N(K1, N(Ks, "K-", "pi+"), "pi-", ls="GSpline.EFF"), N(K1, Ks, "pi-", spin="D", ls="GSpline.EFF"),
             N(K1, rho, "K-")],
        a1: [N(a1, N(rho, "pi+", "pi-"), "pi+", ls="GSpline.EFF"), N(a1, rho, "pi+", spin="D"),
             N(a1, "PiPi00", "pi+")],
        K14: [N(K14, N(Ks, "K-", "pi+"), "pi-", ls="GSpline.EFF"), N(K14, "PiPi00", "K-", ls="GSpline.EFF"),
              N(K14, N(om, "pi+", "pi-"), "K-")],
    }
    distract = [N("D+", N(Ks, "K-", "pi+"), "pi+"), N(om, "pi+", "pi-"), N("K(1)(1400)bar-", N(Ks, "K-", "pi+"), "pi-")]
    return dict(label="Kpipipi", mother="D0", daughters=["K-", "pi+", "pi+", "pi-"], tops=tops, subs=subs,
                distract=distract)


_CONJ = {"D0": "Dbar0", "K-": "K+", "pi+": "pi-", "pi-": "pi+", "K*(892)bar0": "K*(892)0",
         "K(1)(1270)bar-": "K(1)(1270)+", "a(1)(1260)+": "a(1)(1260)-", "K(1460)bar-": "pi(1300)-",
         "K(2)*(1430)bar-": "a(2)(1320)+", "D+": "D0"}


def _et_conj():
    e = _et_kpipipi()
    return dict(label="Kpipipi-conj", mother="Dbar0", daughters=[_CONJ[d] for d in e["daughters"]],
                tops=[rename(t, _CONJ) for t in e["tops"]],
                subs={_CONJ.get(k, k): [rename(t, _CONJ) for t in v] for k, v in e["subs"].items()},
                distract=[rename(t, _CONJ) for t in e["distract"]])


def _et_4pi():
    rho, f0, a1, a1m, f2 = "rho(770)0", "f(0)(980)0", "a(1)(1260)+", "a(1)(1260)-", "f(2)(1270)0"
    tops = [
        N("D0", N(rho, "pi+", "pi-"), N(rho, "pi+", "pi-")),
        N("D0", rho, rho),
        N("D0", rho, rho, spin="D"),
        N("D0", rho, N(f0, "pi+", "pi-")),
        N("D0", "PiPi00", "PiPi10"),
        N("D0", a1, "pi-"),
        N("D0", a1m, "pi+"),
        N("D0", N(a1, N(rho, "pi+", "pi-"), "pi+", spin="D"), "pi-"),
        N("D0", N(f2, "pi+", "pi-"), f0, spin="P"),
    ]
    subs = {
        rho: [N(rho, "pi+", "pi-"), N(rho, "pi-", "pi+", ls="GSpline.EFF"), N(rho, "pi+", "pi-", spin="P")],
        f0: [N(f0, "pi+", "pi-"), N(f0, "pi+", "pi-", ls="kMatrix.pole.0")],
        "PiPi00": [N("PiPi00", "pi+", "pi-", ls="kMatrix.pole.1"), N("PiPi00", "pi+", "pi-", ls="kMatrix.prod.0")],
        "PiPi10": [N("PiPi10", "pi+", "pi-", ls="kMatrix.prod.1")],
        a1: [N(a1, rho, "pi+", ls="GSpline.EFF"), N(a1, N(f0, "pi+", "pi-"), "pi+"), N(a1, rho, "pi+", spin="D")],
        a1m: [N(a1m, rho, "pi-"), N(a1m, "PiPi00", "pi-", ls="GSpline.EFF")],
    }
    distract = [N("omega(782)0", "pi+", "pi-"), N("D+", N(rho, "pi+", "pi-"), "pi+")]
    return dict(label="4pi", mother="D0", daughters=["pi+", "pi-", "pi+", "pi-"], tops=tops, subs=subs, distract=distract)


def _et_kkpipi():
    phi, rho, Ks, Ksb, K1p = "phi(1020)0", "rho(770)0", "K*(892)0", "K*(892)bar0", "K(1)(1270)+"
    tops = [
        N("D0", N(phi, "K+", "K-"), N(rho, "pi+", "pi-")),
        N("D0", phi, rho),
        N("D0", phi, rho, spin="P"),
        N("D0", N(Ks, "K+", "pi-"), N(Ksb, "K-", "pi+"), spin="D"),
        N("D0", Ks, Ksb),
        N("D0", K1p, "K-"),
        N("D0", N(K1p, N(rho, "pi+", "pi-"), "K+"), "K-"),
        N("D0", phi, "PiPi00"),
    ]
    subs = {
        phi: [N(phi, "K+", "K-"), N(phi, "K-", "K+", spin="P")],
        rho: [N(rho, "pi+", "pi-"), N(rho, "pi+", "pi-", ls="GSpline.EFF")],
        Ks: [N(Ks, "K+", "pi-"), N(Ks, "K+", "pi-", ls="FOCUS.Kpi")],
        Ksb: [N(Ksb, "K-", "pi+"), N(Ksb, "K-", "pi+", ls="FOCUS.I32"), N(Ksb, "pi+", "K-")],
        K1p: [N(K1p, rho, "K+"), N(K1p, Ks, "pi+", spin="D", ls="GSpline.EFF"), N(K1p, N(Ks, "K+", "pi-"), "pi+")],
        "PiPi00": [N("PiPi00", "pi+", "pi-", ls="kMatrix.pole.1"), N("PiPi00", "pi+", "pi-", ls="kMatrix.prod.0"),
                   N("PiPi00", "pi+", "pi-", ls="kMatrix.pole.0")],
    }
    distract = [N("Dbar0", phi, rho), N("omega(782)0", "pi+", "pi-")]
    return dict(label="KKpipi", mother="D0", daughters=["K+", "K-", "pi+", "pi-"], tops=tops, subs=subs, distract=distract)


def _et_3body():
    Ks = "K*(892)bar0"
    tops = [N("D+", N(Ks, "K-", "pi+"), "pi+"), N("D+", Ks, "pi+"), N("D+", "KPi00", "pi+", spin="S"),
            N("D+", N("K(2)*(1430)bar0", "K-", "pi+"), "pi+", spin="D")]
    subs = {Ks: [N(Ks, "K-", "pi+"), N(Ks, "K-", "pi+", spin="P", ls="FOCUS.Kpi")],
            "KPi00": [N("KPi00", "K-", "pi+", ls="FOCUS.I32"), N("KPi00", "K-", "pi+", ls="FOCUS.KEta"),
                      N("KPi00", "pi+", "K-", ls="FOCUS.Kpi")]}
    distract = [N("D0", N(Ks, "K-", "pi+"), N("rho(770)0", "pi+", "pi-"))]
    return dict(label="Kpipi-3body", mother="D+", daughters=["K-", "pi+", "pi+"], tops=tops, subs=subs, distract=distract)


def _et_6body():
    """six-body final state: lines in which EVERY daughter of a node is decayed while a dead-end resonance sits deeper
    (depth 2 and 3) — the shape a 'no dead-end daughter here' shortcut in the expansion would get wrong"""
    Ks, rho = "K*(892)bar0", "rho(770)0"
    K1, a1 = "K(1)(1270)bar-", "a(1)(1260)+"
    tops = [
        N("D0", N(K1, rho, "K-"), N(a1, rho, "pi+")),
        N("D0", N(K1, N(rho, "pi+", "pi-"), "K-"), N(a1, rho, "pi+")),
        N("D0", N(K1, rho, "K-"), N(a1, N(rho, "pi+", "pi-"), "pi+", spin="D")),
        N("D0", N(K1, N(Ks, "K-", "pi+"), N(rho, "pi+", "pi-")), N(a1, rho, "pi+")),
        N("D0", N(K1, rho, "K-"), a1),
        N("D0", K1, N(a1, rho, "pi+")),
    ]
    subs = {
        rho: [N(rho, "pi+", "pi-"), N(rho, "pi+", "pi-", ls="GSpline.EFF"), N(rho, "pi-", "pi+", spin="S")],
        a1: [N(a1, N(rho, "pi+", "pi-"), "pi+", ls="GSpline.EFF"), N(a1, rho, "pi+", spin="D")],
        K1: [N(K1, rho, "K-"), N(K1, N(rho, "pi+", "pi-"), "K-", ls="GSpline.EFF")],
    }
    distract = [N("D+", N(Ks, "K-", "pi+"), "pi+")]
    return dict(label="6body", mother="D0", daughters=["K-", "pi+", "pi-", "pi+", "pi+", "pi-"], tops=tops, subs=subs,
                distract=distract)


def c17_event_types():
    return [_et_kpipipi(), _et_conj(), _et_4pi(), _et_kkpipi(), _et_3body(), _et_6body()]


OPTION_VARIANTS = [None, ("0", "start"), ("1", "start"), ("1", "end"), ("0", "end"), ("1", "middle")]
N_LAYOUTS = 7
N_ORDERS = 4
N_TABLES = 4


def _closure(tops, subs, kmap):
    """sub-lines (trees) needed: for every bare name reachable, the first kmap[name] alternatives"""
    out = []
    seen = set()
    todo = []
    for t in tops:
        todo += bare_names(t)
    while todo:
        nm = todo.pop(0)
        if nm in seen or nm not in subs:
            continue
        seen.add(nm)
        k = min(kmap.get(nm, 0), len(subs[nm]))
        for alt in subs[nm][:k]:
            out.append(alt)
            todo += bare_names(alt)
    return out


def compose_text(mother, daughters, tops, sublines, distract, option, layout, order, tables, colshift=0):
    """Render one option text.  Returns the text."""
    spaced = layout == 3
    stm = []           # (kind, text)
    ci = colshift

    def dl(t):
        nonlocal ci
        cols = COLS[ci % len(COLS)]
        ci += 1
        return render_tree(t, spaced), cols

    top_l = [("decay",) + dl(t) for t in tops]
    sub_l = [("decay",) + dl(t) for t in sublines]
    dis_l = [("decay",) + dl(t) for t in distract]
    if order == 0:
        body = top_l + sub_l + dis_l
    elif order == 1:
        body = dis_l + sub_l + top_l
    elif order == 2:
        body = []
        a, b = list(top_l), list(sub_l + dis_l)
        while a or b:
            if b:
                body.append(b.pop(0))
            if a:
                body.append(a.pop(0))
    else:
        body = list(reversed(sub_l)) + dis_l + list(reversed(top_l))
    pars = []
    consts = []
    if tables == 1:
        pars, consts = PARAM_LINES[:3], CONST_LINES[:2]
    elif tables == 2:
        pars, consts = PARAM_LINES, CONST_LINES
    elif tables == 3:
        pars, consts = PARAM_LINES[3:9] + PARAM_LINES[3:4], CONST_LINES[4:]      # a repeated name, too
    lines = []
    et = "EventType " + " ".join([mother] + daughters)
    width = max([len(x[1]) for x in body] + [10]) + 2

    def fmt_decay(txt, cols):
        if layout == 2:
            return "  " + txt.ljust(width) + "\t" + "  ".join(c.ljust(10) for c in cols).rstrip()
        return txt + " " + " ".join(cols)

    def fmt_par(p):
        if layout == 2:
            return p[0].ljust(50) + p[1].ljust(15) + p[2].ljust(15) + p[3]
        return " ".join(p)

    def fmt_const(c):
        return (c[0] + "   " + c[1]) if layout != 2 else (c[0].ljust(34) + c[1])

    if layout in (1, 5):
        lines += ["# generated option text", "", "   # indented comment"]
    if layout == 5:
        lines += ["", "\t "]
    lines.append(et + ("   # the event type" if layout == 1 else ""))
    if option and option[1] == "start":
        lines.append("FastCoherentSum::UseCartesian " + option[0])
    if layout in (1, 2, 6):
        lines.append("")
    if layout == 6:
        lines += ["nEvents 1000", 'Output "out.root"']
    if tables in (1, 2):
        lines += [fmt_const(c) for c in consts]
        if layout in (1, 2):
            lines.append("")
    half = len(body) // 2
    for i, (_, txt, cols) in enumerate(body):
        if option and option[1] == "middle" and i == half:
            lines.append("FastCoherentSum::UseCartesian " + option[0])
        s = fmt_decay(txt, cols)
        if layout == 1 and i % 3 == 1:
            s += "  # trailing comment {with, braces} 1 2 3"
        lines.append(s)
        if layout == 1 and i % 4 == 2:
            lines += ["", "# D0{not,a} 0 1 0 0 1 0 line"]
        if tables == 3 and i < len(pars):
            lines.append(fmt_par(pars[i]))
    if option and option[1] == "middle" and not body:
        lines.append("FastCoherentSum::UseCartesian " + option[0])
    if tables == 3:
        lines += [fmt_par(p) for p in pars[len(body):]]
        lines += [fmt_const(c) for c in consts]
    else:
        lines += [fmt_par(p) for p in pars]
    if layout == 6:
        lines.append("K*(892)0 = K*(892)bar0")
    if option and option[1] == "end":
        lines.append("FastCoherentSum::UseCartesian " + option[0])
    nl = "\r\n" if layout == 4 else "\n"
    text = nl.join(lines) + nl
    if layout == 5:
        text += "# last line is a comment without line end"
    return text


def c17_cases(tier="quick", seed=0):
    """Yield dict(label, text).  Exhaustive core: for every event type, every selection of 1 or 2 top lines
    (plus sliding windows of 3 and 4), every vector of alternative counts 0..3 for the first 2 bare names of
    the selection (first name only for selections of 2 or 4 lines); option, layout, order and table variants are cycled so that every variant value occurs
    with every event type.  thorough: alternative counts for up to 3 names, and every option variant for every
    selection of 1, 3 or 4 lines."""
    for et in c17_event_types():
        tops = et["tops"]
        sel = [(i,) for i in range(len(tops))]
        sel += list(itertools.combinations(range(len(tops)), 2))
        sel += [tuple((i + j) % len(tops) for j in range(3)) for i in range(len(tops))]
        sel += [tuple((i + 2 * j) % len(tops) for j in range(4)) for i in range(len(tops))]
        counter = 0
        for s in sel:
            chosen = [tops[i] for i in s]
            direct = []
            for t in chosen:
                for b in bare_names(t):
                    if b in et["subs"] and b not in direct:
                        direct.append(b)
            nfull = 3 if tier == "thorough" else (1 if len(s) in (2, 4) else 2)
            full, rest = direct[:nfull], direct[nfull:]
            others = [k for k in et["subs"] if k not in direct]
            kvecs = list(itertools.product(range(4), repeat=len(full))) or [()]
            exhaust_opts = tier == "thorough" and len(s) != 2
            opts = OPTION_VARIANTS if exhaust_opts else [None]
            for kv in kvecs:
                for o_fixed in opts:
                    counter += 1
                    kmap = dict(zip(full, kv))
                    for j, nm in enumerate(rest):
                        kmap[nm] = (counter + 2 * j + 1) % 4
                    for j, nm in enumerate(others):
                        kmap[nm] = (counter // 2 + j) % 4
                    sublines = _closure(chosen, et["subs"], kmap)
                    option = o_fixed if exhaust_opts else OPTION_VARIANTS[counter % len(OPTION_VARIANTS)]
                    layout = (counter // 2) % N_LAYOUTS
                    order = (counter // 3) % N_ORDERS
                    tables = (counter // 5) % N_TABLES
                    distract = et["distract"][: counter % (len(et["distract"]) + 1)]
                    text = compose_text(et["mother"], et["daughters"], chosen, sublines, distract, option, layout,
                                        order, tables, colshift=counter)
                    yield dict(label=f"{et['label']}/tops{list(s)}/k{dict(kmap)}/opt{option}/lay{layout}/ord{order}/tab{tables}",
                               text=text)
    # a small family with the remaining statements of the language (single-component decay lines)
    for et in c17_event_types()[:2]:
        t = et["tops"][0]
        text = ("EventType " + " ".join([et["mother"]] + et["daughters"]) + "\n" +
                render_tree(t) + " 0 1.5 0.1 0 0.5 0.1\n" +
                render_tree(et["tops"][1]) + " 0 0.7 0.1\n" +
                "nEvents 10\n")
        yield dict(label=f"{et['label']}/single-component-line", text=text)


# ------------------------------------------------------------------------------------------------------
# C18 / C19: four-body models over the supported spin structures
# ------------------------------------------------------------------------------------------------------
FOURBODY_EVENT_TYPES = [
    ("D0", ["K-", "pi+", "pi+", "pi-"]),
    ("D0", ["pi+", "K-", "pi-", "pi+"]),
    ("D0", ["pi+", "pi-", "pi+", "pi-"]),
    ("D0", ["K+", "K-", "pi+", "pi-"]),
    ("Dbar0", ["K+", "pi-", "pi-", "pi+"]),
    ("D0", ["pi-", "pi-", "pi+", "pi+"]),
]

SUPPORTED_TWO = {("V", "V"): [None, "S", "P", "D"], ("V", "S"): [None, "S"], ("S", "S"): [None, "S"]}
SUPPORTED_CASCADE = {("A", "V"): [None, "S", "D"], ("A", "S"): [None, "S"], ("T", "V"): [None, "S"],
                     ("s", "S"): [None, "S"], ("s", "V"): [None, "S"]}


def structure_class(tree):
    """-> (topology, (class of first resonance, class of second / sub-resonance), wave tag) or None when the
    tree is not one of the two four-body topologies written resonance-first."""
    ds = tree["daughters"]
    if len(ds) != 2:
        return None
    a, b = ds
    if a["daughters"] and b["daughters"] and not any(x["daughters"] for x in a["daughters"] + b["daughters"]):
        return ("two", (spin_class(a["name"]), spin_class(b["name"])), tree["spin"])
    if a["daughters"] and not b["daughters"]:
        r2, bach = a["daughters"]
        if r2["daughters"] and not bach["daughters"] and not any(x["daughters"] for x in r2["daughters"]):
            return ("cascade", (spin_class(a["name"]), spin_class(r2["name"])), a["spin"])
    return None


def is_supported(tree):
    sc = structure_class(tree)
    if sc is None:
        return False
    topo, classes, wave = sc
    table = SUPPORTED_TWO if topo == "two" else SUPPORTED_CASCADE
    return classes in table and wave in table[classes]


def _multiset_minus(lst, items):
    lst = list(lst)
    for it in items:
        if it not in lst:
            return None
        lst.remove(it)
    return lst


def fourbody_structures(mother, daughters):
    """All (tree without lineshape tags) of the two topologies over the resonance pool for this event type,
    resonance-first, with every wave tag in {None,S,P,D} at the place where the structure carries it."""
    out = []
    # two resonances
    seen = set()
    for p1, r1s in PAIR_DECAYS.items():
        rest = _multiset_minus(daughters, p1)
        if rest is None:
            continue
        for p2, r2s in PAIR_DECAYS.items():
            if _multiset_minus(rest, p2) != []:
                continue
            for r1 in r1s:
                for r2 in r2s:
                    for tag in (None, "S", "P", "D"):
                        key = (r1, r2, tag)
                        if key in seen:
                            continue
                        seen.add(key)
                        out.append(N(mother, N(r1, *p1), N(r2, *p2), spin=tag))
    # cascades
    for trip, r3s in TRIPLE_RES.items():
        rest = _multiset_minus(daughters, trip)
        if rest is None or len(rest) != 1:
            continue
        bach = rest[0]
        for p2, r2s in PAIR_DECAYS.items():
            b2 = _multiset_minus(trip, p2)
            if b2 is None:
                continue
            for r3 in r3s:
                for r2 in r2s:
                    for tag in (None, "S", "P", "D"):
                        out.append(N(mother, N(r3, N(r2, *p2), b2[0], spin=tag), bach))
    return out


def model_requirements(trees):
    """Parameter and constant lines a set of complete trees needs (P-PARS of C19):
    GSpline.EFF on X: constants X::Spline::Min/Max/N and parameters X::Spline::Gamma::0..N-1;
    kMatrix.*: f_scatt0..4, IS_p{1..5}_{channel}, sA0 (AmpGen's name; its symbol is sA_0), sA, s0_prod, s0_scatt."""
    splined = []
    kmat = False

    def walk(t):
        nonlocal kmat
        if t["lineshape"] == "GSpline.EFF" and t["name"] not in splined:
            splined.append(t["name"])
        if t["lineshape"] and t["lineshape"].startswith("kMatrix"):
            kmat = True
        for d in t["daughters"]:
            walk(d)
    for t in trees:
        walk(t)
    consts, pars = [], []
    for i, nm in enumerate(splined):
        n = 3 + (i + len(nm)) % 3
        consts += [(nm + "::Spline::Min", ["0.18412", "0.6", "0.60"][i % 3]), (nm + "::Spline::Max", ["1.9", "3", "3.0"][i % 3]),
                   (nm + "::Spline::N", str(n))]
        # written in lexicographic (not numeric) order on purpose when n > 10; here n <= 5, use reversed order
        for g in reversed(range(n)):
            pars.append((nm + f"::Spline::Gamma::{g}", "2", repr(round(0.001 * (g + 1) ** 3 + 0.01 * i, 6)), "0"))
    if kmat:
        for p in range(1, 6):
            for ch in KMATRIX_CHANNELS:
                pars.append((f"IS_p{p}_{ch}", "2", repr(round(0.1 * p - 0.07 * KMATRIX_CHANNELS.index(ch), 5)), "0"))
        for k in range(5):
            pars.append((f"f_scatt{k}", "2", repr(round(0.23399 - 0.1 * k, 5)), "0"))
        pars += [("s0_prod", "2", "-1", "0"), ("s0_scatt", "2", "-3.92637", "0"), ("sA", "2", "1", "0"),
                 ("sA0", "2", "-0.15", "0")]
    return consts, pars


EXTRA_PARS = [("D0_radius", "2", "0.0037559", "0"), ("K(1)(1270)bar-_mass", "0", "1289.81", "0.557988"),
              ("K(1)(1270)bar-_width", "0", "116.114", "1.6492"), ("a(1)(1260)+_mass", "0", "1195.05", "1.04514"),
              ("a(1)(1260)+_radius", "2", "0.0017", "0"), ("PiPi00_s0_prod", "2", "-0.196872", "0")]


def with_lineshapes(tree, ls1, ls2):
    """Copy of a four-body tree with lineshape tags on its two resonances (first/top resonance, second/sub)."""
    t = rename(tree, {})
    a, b = t["daughters"]
    if a["daughters"] and b["daughters"]:
        a["lineshape"], b["lineshape"] = ls1, ls2
    else:
        a["lineshape"] = ls1
        a["daughters"][0]["lineshape"] = ls2
    return t


def split_partial(tree, level):
    """Write a complete tree as a top line with bare resonance names plus separate lines.
    level 1: the second (or sub-) resonance is split off; level 2: both resonances."""
    t = rename(tree, {})
    extra = []
    a, b = t["daughters"]
    if a["daughters"] and b["daughters"]:
        extra.append(b)
        t["daughters"][1] = N(b["name"])
        if level >= 2:
            extra.append(a)
            t["daughters"][0] = N(a["name"])
    else:
        sub = a["daughters"][0]
        if level >= 2:
            extra.append(a)
            t["daughters"][0] = N(a["name"])
            if level >= 3:
                a["daughters"][0] = N(sub["name"])
                extra.append(sub)
        else:
            extra.append(sub)
            a["daughters"][0] = N(sub["name"])
    return t, extra


def fourbody_models(tier="quick", seed=0, supported=True):
    """Yield dict(label, text, n_top): option files of complete four-body models.

    Enumeration: for each event type every structure of ``fourbody_structures`` that is (not) in the list of
    supported spin structures, combined with lineshape kinds for its two resonances (quick: the 5x5 grid of
    the first five kinds is cycled over the resonance choices of each (event type, structure class, wave), two
    grid points per structure for the first event type, one for the others; thorough: every resonance choice with a 9x9 grid cycled), fixed/free couplings cycled, grouped
    into files of 1..7 amplitudes, written complete, or with one / both resonances given on separate lines.
    """
    rnd = random.Random(seed)
    for ei, (mother, daughters) in enumerate(FOURBODY_EVENT_TYPES):
        structs = [t for t in fourbody_structures(mother, daughters) if is_supported(t) == supported]
        if seed:
            rnd.shuffle(structs)
        amps = []
        per_class = {}
        for t in structs:
            sc = structure_class(t)
            k = per_class.get(sc, 0)
            per_class[sc] = k + 1
            if not supported:
                amps.append(t)
                continue
            if tier == "thorough":
                grid = [((k * 7 + j) % 9, (k * 7 + j) // 9 % 9) for j in range(7)]
            else:
                per = 2 if ei == 0 else 1
                grid = [((k * per + j) % 5, ((k * per + j) // 5) % 5) for j in range(per)]
            for (i1, i2) in grid:
                amps.append(with_lineshapes(t, LINESHAPES[i1], LINESHAPES[i2]))
        if not supported:
            amps = amps[:: (1 if tier == "thorough" else 5)]
        # group into files
        pos = 0
        fileno = 0
        while pos < len(amps):
            size = 1 + (fileno * 3) % 7
            chunk = amps[pos:pos + size]
            pos += size
            style = fileno % 4          # 0 complete, 1 one resonance split off, 2 both, 3 mixed
            tops, extra = [], []
            have = set()
            for j, t in enumerate(chunk):
                lvl = {0: 0, 1: 1, 2: 2, 3: j % 4}[style]
                if lvl and supported:
                    tt, ex = split_partial(t, lvl)
                    tops.append(tt)
                    for e in ex:                      # the same separate line is written once
                        key = render_tree(e)
                        if key not in have:
                            have.add(key)
                            extra.append(e)
                else:
                    tops.append(t)
            names_split = {e["name"] for e in extra}
            safe_tops = tops
            consts, pars = model_requirements(chunk)
            pars = pars + EXTRA_PARS[: (fileno % (len(EXTRA_PARS) + 1))]
            lines = ["EventType " + " ".join([mother] + daughters), ""]
            lines += [c[0] + " " + c[1] for c in consts]
            ci = fileno
            for t in safe_tops:
                lines.append(render_tree(t) + "  " + " ".join(COLS[ci % len(COLS)]))
                ci += 1
            for t in extra:
                lines.append(render_tree(t) + "  " + " ".join(COLS[(ci * 3) % len(COLS)]))
                ci += 1
            lines += [" ".join(p) for p in pars]
            if fileno % 5 == 4:
                lines.insert(2, "FastCoherentSum::UseCartesian " + str(fileno % 2))
            yield dict(label=f"et{ei}/file{fileno}/style{style}", text="\n".join(lines) + "\n", n_top=len(chunk),
                       split_names=sorted(names_split))
            fileno += 1


# ------------------------------------------------------------------------------------------------------
# C20: pool of option files with different resonance content
# ------------------------------------------------------------------------------------------------------
def c20_pool():
    f1 = """EventType D0 K- pi+ pi+ pi-
# two vector resonances, polar couplings, no option
D0[D]{K*(892)bar0{K-,pi+},rho(770)0{pi+,pi-}}   2 1 0 2 0 0
D0{K*(892)bar0{K-,pi+},rho(770)0{pi+,pi-}}      0 0.196037 0.0012135 0 -0.390311 0.00629977
D0[P]{rho(1450)0{pi+,pi-},K*(892)bar0{K-,pi+}}  0 0.642781 0.00570074 0 1.69828 0.00900026
D0_radius 2 0.0037559 0
"""
    f2 = """EventType D0 K- pi+ pi+ pi-
FastCoherentSum::UseCartesian 1
a(1)(1260)+::Spline::Min 0.18412
a(1)(1260)+::Spline::Max 1.9
a(1)(1260)+::Spline::N 4
K(1)(1270)bar-::Spline::Min 0.6
K(1)(1270)bar-::Spline::Max 3
K(1)(1270)bar-::Spline::N 3
D0{a(1)(1260)+,K-}                                   0 0.813449 0.00586375 0 -2.60325 0.00790284
D0{K(1)(1270)bar-,pi+}                               0 0.361958 0.00377983 0 1.99329 0.0132565
a(1)(1260)+[GSpline.EFF]{rho(770)0{pi+,pi-},pi+}     2 1 0 2 0 0
a(1)(1260)+[D;GSpline.EFF]{rho(770)0{pi+,pi-},pi+}   0 0.582157 0.0110043 0 -2.66737 0.0208508
K(1)(1270)bar-[GSpline.EFF]{omega(782)0{pi+,pi-},K-} 0 0.146482 0.00542024 0 0.157787 0.0369024
a(1)(1260)+::Spline::Gamma::0 2 6.6e-09 0
a(1)(1260)+::Spline::Gamma::1 2 0.001 0
a(1)(1260)+::Spline::Gamma::2 2 0.01 0
a(1)(1260)+::Spline::Gamma::3 2 0.1 0
K(1)(1270)bar-::Spline::Gamma::2 2 0.3 0
K(1)(1270)bar-::Spline::Gamma::0 2 0.1 0
K(1)(1270)bar-::Spline::Gamma::1 2 0.2 0
a(1)(1260)+_mass 0 1195.05 1.04514
"""
    kpars = []
    for p in range(1, 6):
        for ch in KMATRIX_CHANNELS:
            kpars.append(f"IS_p{p}_{ch} 2 {round(0.1 * p - 0.07 * KMATRIX_CHANNELS.index(ch), 5)} 0")
    for k in range(5):
        kpars.append(f"f_scatt{k} 2 {round(0.23399 - 0.1 * k, 5)} 0")
    kpars += ["s0_prod 2 -1 0", "s0_scatt 2 -3.92637 0", "sA 2 1 0", "sA0 2 -0.15 0"]
    f3 = """EventType D0 K- pi+ pi+ pi-
FastCoherentSum::UseCartesian 0
D0{KPi00,PiPi00}                            2 1 0 2 0 0
D0{K*(1410)bar0{K-,pi+},PiPi10}             0 0.3 0.01 0 1.1 0.02
KPi00[FOCUS.I32]{K-,pi+}                    0 0.869988 0.0102238 0 -2.60381 0.0124354
KPi00[FOCUS.Kpi]{K-,pi+}                    2 1 0 2 0 0
PiPi00[kMatrix.pole.1]{pi+,pi-}             0 0.55373 0.00858738 0 0.616282 0.0115494
PiPi00[kMatrix.prod.0]{pi+,pi-}             0 0.0816985 0.00131264 0 -2.56548 0.0125314
PiPi10[kMatrix.pole.0]{pi+,pi-}             0 0.305436 0.0110739 0 1.14414 0.0267795
""" + "\n".join(kpars) + "\n"
    f4 = """EventType D0 pi+ pi- pi+ pi-
# different final state, tensor and pseudoscalar cascades
D0{a(2)(1320)+{rho(770)0{pi+,pi-},pi+},pi-}   0 0.301933 0.0039873 0 -1.35594 0.012779
D0{pi(1300)+{f(0)(980)0{pi+,pi-},pi+},pi-}    0 0.121928 0.00232671 0 3.01374 0.0388723
D0{rho(770)0{pi+,pi-},f(0)(1370)0{pi+,pi-}}   2 1 0 2 0 0
pi(1300)+_mass 0 1300 10
"""
    f5 = """EventType Dbar0 K+ pi- pi- pi+
FastCoherentSum::UseCartesian 1
Dbar0{K*(892)0{K+,pi-},rho(770)0{pi-,pi+}}   0 0.5 0.1 0 -0.5 0.1
"""
    # the same decay line as in f1 (same string form) under an event type that lists the same species in another
    # order: anything remembered per line or per structure across reads gives this file the positions of f1
    f6 = """EventType D0 pi+ K- pi- pi+
FastCoherentSum::UseCartesian 1
D0{K*(892)bar0{K-,pi+},rho(770)0{pi+,pi-}}      0 0.5 0.1 0 -0.5 0.1
D0[P]{rho(1450)0{pi+,pi-},K*(892)bar0{K-,pi+}}  0 0.642781 0.00570074 0 1.69828 0.00900026
"""
    return [("vv-polar", f1), ("cascade-spline-cartesian", f2), ("swave-kmatrix-focus-opt0", f3),
            ("same-lines-permuted-eventtype-cartesian", f6), ("4pi-tensor", f4), ("conj-oneline-cartesian", f5)]


# ------------------------------------------------------------------------------------------------------
# shared run-time helpers of checks C17 - C20
# ------------------------------------------------------------------------------------------------------
TINY_TEXT = "EventType D0 K- pi+ pi+ pi-\nD0{K*(892)bar0{K-,pi+},rho(770)0{pi+,pi-}} 2 1 0 2 0 0\n"


def _lookup_share(args):
    names, load_special = args
    import decaylanguage.modeling.amplitudechain as ac
    from particle import Particle
    memo = ac.particle_from_string_name
    if load_special:
        ac.AmplitudeChain.read_ampgen(text=TINY_TEXT)       # the real code path that loads the special table
    out = {}
    for nm in names:
        try:
            out[nm] = int(memo.real(nm).pdgid)
        except Exception:
            out[nm] = None
    return len(Particle.all()), out


def prewarm_memo(memo, names=None, load_special_in_parent=True, procs=16):
    """Fill the memo by real lookups done in forked children (in parallel): once in the table state of the
    calling process, once in the state after the special-particle table has been loaded by the real reader.
    With ``load_special_in_parent`` the calling process afterwards performs that load itself (one real read)."""
    import multiprocessing as mp

    import decaylanguage.modeling.amplitudechain as ac
    from particle import Particle
    names = sorted(POOL) if names is None else sorted(names)
    ctx = mp.get_context("fork")
    n_before = len(Particle.all())
    already_loaded = any(int(p.pdgid) == 998101 for p in Particle.all())
    plain = [n for n in names if abs(POOL.get(n, (0,))[0]) < 900000]
    shares = []
    k = max(1, procs // 2)
    if not already_loaded:
        shares += [(plain[i::k], False) for i in range(k)]
    shares += [(names[i::k], True) for i in range(k)]
    shares = [s for s in shares if s[0]]
    with ctx.Pool(min(procs, len(shares))) as pool:
        for size, table in pool.map(_lookup_share, shares, chunksize=1):
            for nm, pid in table.items():
                if pid is not None:
                    memo.table[(nm, size)] = pid
    if load_special_in_parent and not already_loaded:
        ac.AmplitudeChain.read_ampgen(text=TINY_TEXT)
    return n_before


def shrink_lines(text, still_fails, max_tries=80):
    """Greedy line removal keeping the failure (a light delta debugging); EventType line is kept."""
    nl = "\r\n" if "\r\n" in text else "\n"
    lines = text.split(nl)
    tries = 0
    changed = True
    while changed and tries < max_tries:
        changed = False
        for i in range(len(lines) - 1, -1, -1):
            if lines[i].strip().startswith("EventType"):
                continue
            cand = lines[:i] + lines[i + 1:]
            t = nl.join(cand)
            if not t.endswith(nl) and not cand[-1].lstrip().startswith("#"):
                t += nl
            tries += 1
            try:
                bad = still_fails(t)
            except Exception:
                bad = False
            if bad:
                lines = cand
                changed = True
            if tries >= max_tries:
                break
    t = nl.join(lines)
    if not t.endswith(nl) and not lines[-1].lstrip().startswith("#"):
        t += nl
    return t


def work_dir():
    """A fresh temporary directory outside /tmp ($XDG_RUNTIME_DIR, else /var/tmp); caller removes it."""
    import os
    import tempfile
    base = os.environ.get("XDG_RUNTIME_DIR")
    if not base or not os.path.isdir(base) or not os.access(base, os.W_OK) or base.startswith("/tmp"):
        base = "/var/tmp"
    return tempfile.TemporaryDirectory(prefix="verif-ampgen-", dir=base)
