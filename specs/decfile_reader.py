"""Reference reader of the .dec statement language and the answers the properties C01/C05/C07 prescribe.

This module is a *spec function*.  It is written from the property statements (properties.jsonl: C01,
C02, C05, C06, C07) and the statement vocabulary of EvtGen decay files; it does not call Lark, the grammar
file or any function of decaylanguage.dec.dec.  The only things taken from installed packages are data:
the published list of model names (decaylanguage.dec.enums.known_decay_models, C01: "every published
model name") and the reference width of a particle (particle.Particle, C07: "the reference width of the
(aliased) particle in GeV").

Statement language read here
----------------------------
* a text is a sequence of lines; '#' starts a comment that runs to the end of the line; blank lines and
  comment lines separate nothing;
* words are maximal runs of label characters  a-z A-Z 0-9 / - + * _ ( ) . ' ~ ; the only other
  significant characters are  ; , : =  ; blanks and tabs separate words;
* a statement occupies one line, except that the parameter list of a model (in a decay line or a
  ModelAlias statement) may run over several lines and may use commas; such a list ends with one or more ';'
* a numeric literal is  [+-] digits [. digits] | [+-] . digits , optionally followed by e/E [+-] digits.

Statements (tuples of the abstract file, in file order)
    ("Define", name, literal)                  ("Alias", new, old)            ("ChargeConj", a, b)
    ("CDecay", name)                           ("CopyDecay", new, old)
    ("Particle", name, mass_literal, width_literal | None)
    ("Pythia", kind, module, param, value_word)         kind in PythiaAliasParam/BothParam/GenericParam
    ("JetSetPar", label, literal)                       label = LETTERS(digits)
    ("LSDef", kind, name)                               kind in LSFLAT/LSNONRELBW/LSMANYDELTAFUNC
    ("BlattWeisskopf", name, literal)          ("ChangeMass", kind, name, literal)   kind ChangeMassMin/Max
    ("IncFactor", kind, name, "yes"|"no")               kind IncludeBirthFactor/IncludeDecayFactor
    ("SetLineshapePW", mother, d1, d2, int_literal)     ("GlobalPhotos", bool)
    ("ModelAlias", name, model, [param words])
    ("Decay", mother, [line ...])     line = (bf_literal, [daughters], photos_flag, model_word, [param words])
In a line `model_word` is either a published model name (then the parameter words follow) or the name of a
ModelAlias (then the parameter list is empty).  A parameter list that is absent and one that contains no word
are the same thing (DESIGN.md section 7, P-NUM).

Outside the language (ReaderError, never a verdict about the code under test)
    characters other than the above; a word that *starts* like a number ("2pi", "1.0.0", "1.5") in a place
    where it directly follows a number or where a number could stand as well - parameter lists, Pythia values,
    the first daughter of a decay line (P-NUMWORD: it cannot be told from a number there; such names are fine as
    mothers, later daughters and in declarations); line breaks or commas before the model name; ModelAlias of a
    ModelAlias (P-ALIAS); JetSetPar labels not of the form LETTERS(digits); anything after the End statement.
"""
from __future__ import annotations

DIGITS = "0123456789"
LOWER = "abcdefghijklmnopqrstuvwxyz"
UPPER = LOWER.upper()
SYMBOLS = "/-+*_().'~"
LABEL_CHARS = frozenset(LOWER + UPPER + DIGITS + SYMBOLS)
PUNCT = ";,:="

PYTHIA_KINDS = ("PythiaAliasParam", "PythiaBothParam", "PythiaGenericParam")
LS_KINDS = ("LSFLAT", "LSNONRELBW", "LSMANYDELTAFUNC")
CHANGEMASS_KINDS = ("ChangeMassMin", "ChangeMassMax")
INCFACTOR_KINDS = ("IncludeBirthFactor", "IncludeDecayFactor")
KEYWORDS = frozenset(
    ("Decay", "Enddecay", "End", "PHOTOS", "Alias", "ChargeConj", "CDecay", "CopyDecay", "Define", "Particle",
     "ModelAlias", "JetSetPar", "BlattWeisskopf", "SetLineshapePW", "yesPhotos", "noPhotos", "yes", "no")
    + PYTHIA_KINDS + LS_KINDS + CHANGEMASS_KINDS + INCFACTOR_KINDS)


class ReaderError(Exception):
    """The text uses a construct outside the statement language read here."""


class OracleError(Exception):
    """The properties prescribe an error (not a value) for this query on this file."""


def published_models():
    from decaylanguage.dec.enums import known_decay_models  # data only
    return frozenset(known_decay_models)


# ----------------------------------------------------------------------------------------------- numbers

def numeric_prefix(word: str) -> int:
    """Length of the longest prefix of `word` that is a numeric literal (0 if none)."""
    n = len(word)
    i = 0
    if i < n and word[i] in "+-":
        i += 1
    j = i
    while j < n and word[j] in DIGITS:
        j += 1
    int_digits = j - i
    end = 0
    if j < n and word[j] == ".":
        k = j + 1
        while k < n and word[k] in DIGITS:
            k += 1
        frac_digits = k - (j + 1)
        if int_digits == 0 and frac_digits == 0:
            return 0
        end = k
    else:
        if int_digits == 0:
            return 0
        end = j
    if end < n and word[end] in "eE":
        e = end + 1
        if e < n and word[e] in "+-":
            e += 1
        f = e
        while f < n and word[f] in DIGITS:
            f += 1
        if f > e:
            end = f
    return end


def is_number(word: str) -> bool:
    return len(word) > 0 and numeric_prefix(word) == len(word)


def is_integer_literal(word: str) -> bool:
    w = word[1:] if word[:1] in ("+", "-") else word
    return len(w) > 0 and all(c in DIGITS for c in w)


def is_unsigned_int(word: str) -> bool:
    return len(word) > 0 and all(c in DIGITS for c in word)


def negate_literal(lit: str) -> str:
    """Text of the literal with the opposite sign."""
    if lit.startswith("-"):
        return lit[1:]
    if lit.startswith("+"):
        return "-" + lit[1:]
    return "-" + lit


# ----------------------------------------------------------------------------------------------- tokens

class Tok:
    __slots__ = ("kind", "text", "start", "end")

    def __init__(self, kind, text, start, end):
        self.kind, self.text, self.start, self.end = kind, text, start, end   # kind: 'W' | 'P' | 'NL'

    def __repr__(self):
        return f"{self.kind}:{self.text!r}@{self.start}"


def tokenize(text: str) -> list[Tok]:
    toks: list[Tok] = []
    i, n = 0, len(text)
    while i < n:
        c = text[i]
        if c in " \t":
            i += 1
        elif c == "\n":
            toks.append(Tok("NL", "\n", i, i + 1))
            i += 1
        elif c == "\r":
            if i + 1 < n and text[i + 1] == "\n":
                toks.append(Tok("NL", "\r\n", i, i + 2))
                i += 2
            else:
                raise ReaderError(f"lone carriage return at offset {i}")
        elif c == "#":
            while i < n and text[i] != "\n":
                i += 1
        elif c in PUNCT:
            toks.append(Tok("P", c, i, i + 1))
            i += 1
        elif c in LABEL_CHARS:
            j = i
            while j < n and text[j] in LABEL_CHARS:
                j += 1
            toks.append(Tok("W", text[i:j], i, j))
            i = j
        else:
            raise ReaderError(f"character {c!r} outside the statement language at offset {i}")
    return toks


# ----------------------------------------------------------------------------------------------- abstract file

class AFile:
    """Abstract file: statements in file order + where they sit in the text."""

    def __init__(self, text):
        self.text = text
        self.statements: list[tuple] = []
        self.spans: list[tuple[int, int]] = []          # statement i occupies text[start:end] (whole lines)
        self.line_spans: dict[int, list[tuple[int, int]]] = {}   # Decay statement i -> span of each decay line
        self.uses: list[tuple[int, int, str, str, int]] = []     # (start, end, word, 'param'|'label', stmt index)
        self.ended = False

    def of(self, kind):
        return [s for s in self.statements if s[0] == kind]


class _Reader:
    def __init__(self, text, models):
        self.text = text
        self.toks = tokenize(text)
        self.pos = 0
        self.models = models
        self.f = AFile(text)

    # -- token helpers
    def peek(self):
        return self.toks[self.pos] if self.pos < len(self.toks) else None

    def line_start(self, offset):
        """Offset of the blanks that precede `offset` on its line (spans cover whole lines)."""
        while offset > 0 and self.text[offset - 1] in " \t":
            offset -= 1
        return offset

    def skip_newlines(self):
        while self.pos < len(self.toks) and self.toks[self.pos].kind == "NL":
            self.pos += 1

    def rest_of_line(self):
        """Tokens up to (not including) the next line end; the line end is consumed."""
        out = []
        while self.pos < len(self.toks) and self.toks[self.pos].kind != "NL":
            out.append(self.toks[self.pos])
            self.pos += 1
        end = len(self.text)
        if self.pos < len(self.toks):
            end = self.toks[self.pos].end
            self.pos += 1
        return out, end

    def until_semicolons(self, what):
        """Tokens up to the first ';'; the run of ';' and the line end after it are consumed."""
        out = []
        while True:
            t = self.peek()
            if t is None:
                raise ReaderError(f"{what}: text ends before ';'")
            if t.kind == "P" and t.text == ";":
                break
            out.append(t)
            self.pos += 1
        while self.peek() is not None and self.peek().kind == "P" and self.peek().text == ";":
            self.pos += 1
        t = self.peek()
        end = len(self.text)
        if t is not None:
            if t.kind != "NL":
                raise ReaderError(f"{what}: {t.text!r} follows ';' on the same line")
            end = t.end
            self.pos += 1
        return out, end

    # -- pieces
    @staticmethod
    def words(toks, n_min, n_max, what):
        if any(t.kind != "W" for t in toks) or not (n_min <= len(toks) <= n_max):
            raise ReaderError(f"malformed {what} statement: {' '.join(t.text for t in toks)!r}")
        return [t.text for t in toks]

    @staticmethod
    def number(word, what):
        if not is_number(word):
            raise ReaderError(f"{what}: {word!r} is not a numeric literal")
        return word

    def param_words(self, toks, what, stmt_index):
        out = []
        for t in toks:
            if t.kind == "NL" or (t.kind == "P" and t.text == ","):
                continue
            if t.kind != "W":
                raise ReaderError(f"{what}: {t.text!r} in a parameter list")
            k = numeric_prefix(t.text)
            if 0 < k < len(t.text):
                raise ReaderError(f"{what}: parameter word {t.text!r} starts like a number (P-NUMWORD)")
            out.append(t.text)
            self.f.uses.append((t.start, t.end, t.text, "param", stmt_index))
        return out

    def model_part(self, toks, what, stmt_index, allow_label):
        """toks: the tokens between the daughters' start and the ';'.
        Returns (leading words, photos, model_word, params)."""
        k = None
        for i, t in enumerate(toks):
            if t.kind == "W" and t.text in self.models:
                k = i
                break
        if k is None:
            if not allow_label:
                raise ReaderError(f"{what}: no published model name (ModelAlias of a ModelAlias is P-ALIAS)")
            if not toks or any(t.kind != "W" for t in toks):
                raise ReaderError(f"{what}: neither a model name nor a model label before ';'")
            lead, label = toks[:-1], toks[-1]
            self.f.uses.append((label.start, label.end, label.text, "label", stmt_index))
            model_word, params = label.text, []
        else:
            if any(t.kind != "W" for t in toks[:k]):
                raise ReaderError(f"{what}: line break or punctuation before the model name")
            lead, model_word = toks[:k], toks[k].text
            params = self.param_words(toks[k + 1:], what, stmt_index)
        photos = False
        if lead and lead[-1].text == "PHOTOS":
            photos = True
            lead = lead[:-1]
        if any(t.text == "PHOTOS" for t in lead):
            raise ReaderError(f"{what}: PHOTOS not directly before the model")
        return [t.text for t in lead], photos, model_word, params

    # -- statements
    def read(self):
        f = self.f
        while True:
            self.skip_newlines()
            t = self.peek()
            if t is None:
                break
            if t.kind != "W":
                raise ReaderError(f"statement starts with {t.text!r} at offset {t.start}")
            start = self.line_start(t.start)
            key = t.text
            idx = len(f.statements)
            self.pos += 1
            if key == "End":
                rest, end = self.rest_of_line()
                if rest:
                    raise ReaderError("words after End")
                self.skip_newlines()
                if self.peek() is not None:
                    raise ReaderError("statements after End")
                f.ended = True
                break
            if key == "Decay":
                head, _ = self.rest_of_line()
                (mother,) = self.words(head, 1, 1, "Decay")
                lines, lspans = [], []
                while True:
                    self.skip_newlines()
                    t = self.peek()
                    if t is None:
                        raise ReaderError(f"Decay {mother}: text ends before Enddecay")
                    if t.kind == "W" and t.text == "Enddecay":
                        self.pos += 1
                        rest, end = self.rest_of_line()
                        if rest:
                            raise ReaderError("words after Enddecay")
                        break
                    if t.kind != "W" or not is_number(t.text):
                        raise ReaderError(f"Decay {mother}: a line starts with {t.text!r}, not a branching fraction")
                    lstart = self.line_start(t.start)
                    self.pos += 1
                    toks, lend = self.until_semicolons(f"Decay {mother}")
                    daughters, photos, model_word, params = self.model_part(toks, f"Decay {mother}", idx, True)
                    if daughters and numeric_prefix(daughters[0]) > 0:
                        raise ReaderError(f"Decay {mother}: the word {daughters[0]!r} after the branching fraction "
                                          "starts like a number (P-NUMWORD)")
                    lines.append((t.text, daughters, photos, model_word, params))
                    lspans.append((lstart, lend))
                stmt = ("Decay", mother, lines)
                f.line_spans[idx] = lspans
            elif key == "ModelAlias":
                t = self.peek()
                if t is None or t.kind != "W":
                    raise ReaderError("ModelAlias without a name")
                self.pos += 1
                toks, end = self.until_semicolons(f"ModelAlias {t.text}")
                lead, photos, model_word, params = self.model_part(toks, f"ModelAlias {t.text}", idx, False)
                if lead or photos:
                    raise ReaderError(f"ModelAlias {t.text}: words before the model name")
                stmt = ("ModelAlias", t.text, model_word, params)
            else:
                toks, end = self.rest_of_line()
                stmt = self.simple(key, toks)
            f.statements.append(stmt)
            f.spans.append((start, end))
        return f

    def simple(self, key, toks):
        W, N = self.words, self.number
        if key == "Define":
            name, lit = W(toks, 2, 2, key)
            return ("Define", name, N(lit, key))
        if key in ("Alias", "ChargeConj", "CopyDecay"):
            a, b = W(toks, 2, 2, key)
            return (key, a, b)
        if key == "CDecay":
            (a,) = W(toks, 1, 1, key)
            return ("CDecay", a)
        if key == "Particle":
            ws = W(toks, 2, 3, key)
            return ("Particle", ws[0], N(ws[1], key), N(ws[2], key) if len(ws) == 3 else None)
        if key in PYTHIA_KINDS:
            if len(toks) != 5 or [t.kind for t in toks] != ["W", "P", "W", "P", "W"] or \
                    toks[1].text != ":" or toks[3].text != "=":
                raise ReaderError(f"malformed {key} statement")
            v = toks[4].text
            if 0 < numeric_prefix(v) < len(v):
                raise ReaderError(f"{key}: value word {v!r} starts like a number (P-NUMWORD)")
            return ("Pythia", key, toks[0].text, toks[2].text, v)
        if key == "JetSetPar":
            if len(toks) != 3 or [t.kind for t in toks] != ["W", "P", "W"] or toks[1].text != "=":
                raise ReaderError("malformed JetSetPar statement")
            jetset_label(toks[0].text)
            return ("JetSetPar", toks[0].text, N(toks[2].text, key))
        if key in LS_KINDS:
            (a,) = W(toks, 1, 1, key)
            return ("LSDef", key, a)
        if key == "BlattWeisskopf":
            a, lit = W(toks, 2, 2, key)
            return ("BlattWeisskopf", a, N(lit, key))
        if key in CHANGEMASS_KINDS:
            a, lit = W(toks, 2, 2, key)
            return ("ChangeMass", key, a, N(lit, key))
        if key in INCFACTOR_KINDS:
            a, yn = W(toks, 2, 2, key)
            if yn not in ("yes", "no"):
                raise ReaderError(f"{key}: {yn!r} is neither yes nor no")
            return ("IncFactor", key, a, yn)
        if key == "SetLineshapePW":
            m, d1, d2, n = W(toks, 4, 4, key)
            if not is_unsigned_int(n):
                raise ReaderError(f"SetLineshapePW: {n!r} is not an integer")
            return ("SetLineshapePW", m, d1, d2, n)
        if key in ("yesPhotos", "noPhotos"):
            W(toks, 0, 0, key)
            return ("GlobalPhotos", key == "yesPhotos")
        raise ReaderError(f"unknown statement keyword {key!r}")


def jetset_label(label: str) -> tuple[str, int]:
    """'MSTJ(26)' -> ('MSTJ', 26)"""
    i = 0
    while i < len(label) and label[i] in LOWER + UPPER:
        i += 1
    if i == 0 or i >= len(label) or label[i] != "(" or not label.endswith(")") or \
            not is_unsigned_int(label[i + 1:-1]):
        raise ReaderError(f"JetSetPar label {label!r} is not of the form LETTERS(digits)")
    return label[:i], int(label[i + 1:-1])


def read(text: str, models=None) -> AFile:
    """The abstract file of `text`."""
    return _Reader(text, published_models() if models is None else frozenset(models)).read()


# =============================================================================================== answers
# What each public query must return, computed from the abstract file only.

def last_wins(pairs):
    d = {}
    for k, v in pairs:
        d[k] = v
    return d


def definitions(f: AFile) -> dict:
    """C05/C07: Define name -> number, the last definition of a name winning."""
    return last_wins((s[1], float(s[2])) for s in f.of("Define"))


def definition_literals(f: AFile) -> dict:
    return last_wins((s[1], s[2]) for s in f.of("Define"))


def model_alias_defs(f: AFile) -> dict:
    return last_wins((s[1], (s[2], list(s[3]))) for s in f.of("ModelAlias"))


def model_aliases(f: AFile) -> dict:
    """dict_model_aliases(): name -> [model, parameter words verbatim]."""
    return {k: [m] + ps for k, (m, ps) in model_alias_defs(f).items()}


def param_value(word: str, defs: dict):
    """C01/C05: numeric literals as floats, Define'd names by their value (negated when written -name),
    other words verbatim."""
    if is_number(word):
        return float(word)
    if word in defs:
        return defs[word]
    if word.startswith("-") and word[1:] in defs:
        return -defs[word[1:]]
    return word


def resolve(f: AFile, model_word: str, params, models=None):
    """(model name, parameter list or "") a decay line stands for."""
    models = published_models() if models is None else models
    defs = definitions(f)
    if model_word in models:
        m, ps = model_word, params
    else:
        mals = model_alias_defs(f)
        if model_word not in mals:
            raise OracleError(f"model label {model_word!r} is neither a published model nor a ModelAlias")
        m, ps = mals[model_word]
    return m, ([param_value(w, defs) for w in ps] if ps else "")


def tables(f: AFile, models=None):
    """C01: one table per distinct mother of a Decay block, file order, first block kept.
    -> [(mother, [ {bf, fs, photos, model, model_params} ... ])]"""
    models = published_models() if models is None else models
    defs = definitions(f)
    mals = model_alias_defs(f)
    out, seen = [], set()
    for s in f.of("Decay"):
        mother = s[1]
        if mother in seen:
            continue
        seen.add(mother)
        lines = []
        for bf, daughters, photos, model_word, params in s[2]:
            if model_word in models:
                m, ps = model_word, params
            elif model_word in mals:
                m, ps = mals[model_word]
            else:
                raise OracleError(f"model label {model_word!r} is neither a published model nor a ModelAlias")
            lines.append(dict(bf=float(bf), fs=list(daughters), photos=bool(photos), model=m,
                              model_params=[param_value(w, defs) for w in ps] if ps else ""))
        out.append((mother, lines))
    return out


def derived_tables(f: AFile):
    """Names that may carry a table besides the Decay blocks (C03/C08 decide their content):
    -> (copies {new: old}, conjugates {cdecay name: name it is the conjugate of, or None})."""
    copies = last_wins((s[1], s[2]) for s in f.of("CopyDecay"))
    cc = {}
    for s in f.of("ChargeConj"):
        cc[s[1]] = s[2]
    inv = {v: k for k, v in cc.items()}
    conj = {}
    for s in f.of("CDecay"):
        n = s[1]
        conj[n] = cc.get(n, inv.get(n))
    return copies, conj


def reference_width_gev(name: str) -> float:
    from particle import Particle  # data lookup prescribed by C07
    return Particle.from_evtgen_name(name).width / 1000.0


def global_answers(f: AFile, width_of=reference_width_gev) -> dict:
    """C07: query name -> ("value", v) | ("error", why)."""
    out = {}

    def put(name, fn):
        try:
            out[name] = ("value", fn())
        except OracleError as ex:
            out[name] = ("error", str(ex))

    aliases = last_wins((s[1], s[2]) for s in f.of("Alias"))
    put("dict_definitions", lambda: definitions(f))
    put("dict_aliases", lambda: dict(aliases))
    put("dict_charge_conjugates", lambda: last_wins((s[1], s[2]) for s in f.of("ChargeConj")))
    put("dict_decays2copy", lambda: last_wins((s[1], s[2]) for s in f.of("CopyDecay")))
    put("list_charge_conjugate_decays", lambda: sorted(s[1] for s in f.of("CDecay")))
    put("dict_model_aliases", lambda: model_aliases(f))

    def particles():
        d = {}
        for _, name, mass, width in f.of("Particle"):
            if width is not None:
                w = float(width)
            else:
                try:
                    w = width_of(aliases.get(name, name))
                    w = w + 0.0
                except Exception as ex:
                    raise OracleError(f"no reference width for {name!r}: {ex!r}") from None
            d[name] = {"mass": float(mass), "width": w}
        return d
    put("get_particle_property_definitions", particles)

    def pythia():
        d = {}
        for _, kind, module, param, value in f.of("Pythia"):
            d.setdefault(kind, {})[f"{module}:{param}"] = float(value) if is_number(value) else value
        return d
    put("dict_pythia_definitions", pythia)

    def jetset():
        d = {}
        for _, label, lit in f.of("JetSetPar"):
            mod, num = jetset_label(label)
            d.setdefault(mod, {})[num] = int(lit) if is_integer_literal(lit) else float(lit)
        return d
    put("dict_jetset_definitions", jetset)

    def lineshapes():
        d = {}
        for s in f.statements:
            if s[0] == "LSDef":
                name, key, val = s[2], "lineshape", s[1]
            elif s[0] == "BlattWeisskopf":
                name, key, val = s[1], "BlattWeisskopf", float(s[2])
            elif s[0] == "ChangeMass":
                name, key, val = s[2], s[1], float(s[3])
            elif s[0] == "IncFactor":
                name, key, val = s[2], s[1], s[3] == "yes"
            else:
                continue
            if key in d.setdefault(name, {}):
                raise OracleError(f"lineshape setting {key} of {name!r} repeated")
            d[name][key] = val
        return d
    put("dict_lineshape_settings", lineshapes)
    put("list_lineshapePW_definitions",
        lambda: [([s[1], s[2], s[3]], int(s[4])) for s in f.of("SetLineshapePW")])
    put("global_photos_flag", lambda: ([s[1] for s in f.of("GlobalPhotos")] or [False])[-1])
    return out


# =============================================================================================== expansion (C05)

def expand_text(f: AFile) -> str:
    """The text in which every use of a Define'd name in a parameter list of a decay line is replaced by
    the literal of its (last) definition - sign flipped when written -name - and every use of a ModelAlias
    name by the model and parameters it stands for (their Define'd names expanded likewise).  Define and
    ModelAlias statements themselves stay where they are."""
    lits = definition_literals(f)
    mals = model_alias_defs(f)

    def word_text(w):
        if is_number(w):
            return w
        if w in lits:
            return lits[w]
        if w.startswith("-") and w[1:] in lits:
            return negate_literal(lits[w[1:]])
        return w

    text = f.text
    for start, end, word, role, idx in sorted(f.uses, reverse=True):
        if f.statements[idx][0] != "Decay":
            continue
        if role == "param":
            new = word_text(word)
        else:
            if word not in mals:
                raise OracleError(f"model label {word!r} is not a ModelAlias")
            m, ps = mals[word]
            new = " ".join([m] + [word_text(w) for w in ps])
        if new != word:
            text = text[:start] + new + text[end:]
    return text


def remove_span(text: str, span) -> str:
    return text[:span[0]] + text[span[1]:]
