"""Semantics of Python operators, attribute access, subscripts and built-in functions/methods over
the heap model.  Everything here is part of the trusted encoding of Python (DESIGN.md 2.9)."""
from __future__ import annotations

import ast
import builtins as _builtins

import z3

from . import smt
from .engine import MUTATING_METHODS, Outcome, Unsupported
from .heap import TYP, class_id
from .smt import (VBool, VInt, VNone, VReal, VRef, VStr, Val, fresh, get_b, get_i, get_r, get_ref,
                  get_s, is_bool, is_int, is_none, is_real, is_ref, is_str)
from .values import (SV, BoundMeth, ClassRef, Closure, ExcVal, FuncRef, ModuleRef, PyConst, SeqView,
                     from_python, sv_bool, sv_float, sv_int, sv_none, sv_ref, sv_str)


def kind_of(eng, v):
    """'list','tuple','dict','set' for containers and for repo classes that subclass them"""
    if not isinstance(v, SV) or v.ty is None:
        return None
    if v.ty.startswith("obj:"):
        return eng.reg.class_kind(v.ty[4:])
    return v.ty


# ---------------------------------------------------------------------------------------------------
# operators
# ---------------------------------------------------------------------------------------------------
def binop(eng, op, a, b, s):
    if isinstance(a, PyConst) and isinstance(a.obj, str):
        a = sv_str(a.obj)
    a = eng.as_val(s, a) if not isinstance(a, SV) else a
    b = eng.as_val(s, b) if not isinstance(b, SV) else b
    num = ("int", "float", "bool")
    if a.ty is None and b.ty is None and isinstance(op, ast.Div) and not eng.spec:
        a = _narrow_num(eng, s, a)
        b = _narrow_num(eng, s, b)
    if a.ty is None and b.ty in ("int", "float"):
        a = _narrow_num(eng, s, a)
    if b.ty is None and a.ty in ("int", "float"):
        b = _narrow_num(eng, s, b)
    if a.ty in num and b.ty in num:
        both_int = a.ty in ("int", "bool") and b.ty in ("int", "bool")
        ai = get_i(a.t) if a.ty == "int" else None
        bi = get_i(b.t) if b.ty == "int" else None
        if isinstance(op, ast.Add):
            return [(sv_int(ai + bi) if both_int and ai is not None and bi is not None else sv_float(eng.num_real(a) + eng.num_real(b)), s)]
        if isinstance(op, ast.Sub):
            return [(sv_int(ai - bi) if both_int and ai is not None and bi is not None else sv_float(eng.num_real(a) - eng.num_real(b)), s)]
        if isinstance(op, ast.Mult):
            return [(sv_int(ai * bi) if both_int and ai is not None and bi is not None else sv_float(eng.num_real(a) * eng.num_real(b)), s)]
        if isinstance(op, ast.Div):
            den = eng.num_real(b)
            if eng.spec:
                return [(sv_float(eng.num_real(a) / den), s)]
            ok, bad = eng.branch(s, den != 0)
            if bad is not None:
                eng.raise_exc(bad, ZeroDivisionError)
            return [(sv_float(eng.num_real(a) / den), ok)] if ok is not None else []
        if isinstance(op, ast.Pow):
            # x ** n : uninterpreted real power with the algebraic facts the contracts need
            return [(sv_float(POW(eng.num_real(a), eng.num_real(b))), s)]
        raise Unsupported(f"numeric op {type(op).__name__}")
    if eng.spec and isinstance(op, ast.Add) and "str" in (a.ty, b.ty) and None in (a.ty, b.ty):
        a, b = eng.with_ty(s, a, "str"), eng.with_ty(s, b, "str")
    if a.ty == "str" and b.ty == "str" and isinstance(op, ast.Add):
        return [(sv_str(smt.simp(z3.Concat(get_s(a.t), get_s(b.t)))), s)]
    ka, kb = kind_of(eng, a), kind_of(eng, b)
    if ka == "list" and kb == "list" and isinstance(op, ast.Add) and a.ty == "list":
        h = s.heap
        n1, n2 = h.llen(a.ref), h.llen(b.ref)
        arr = fresh("cat", smt.ArrIV)
        i = z3.Int("cat_i")
        s.assume(z3.ForAll([i], z3.Implies(z3.And(0 <= i, i < n1), z3.Select(arr, i) == h.lget(a.ref, i)),
                           patterns=[z3.Select(arr, i)]),
                 z3.ForAll([i], z3.Implies(z3.And(0 <= i, i < n2), z3.Select(arr, n1 + i) == h.lget(b.ref, i)),
                           patterns=[h.lget(b.ref, i)]),
                 z3.ForAll([i], z3.Implies(z3.And(n1 <= i, i < n1 + n2), z3.Select(arr, i) == h.lget(b.ref, i - n1)),
                           patterns=[z3.Select(arr, i)]))
        return [(eng.new_list(s, n1 + n2, arr), s)]
    if ka == "list" and b.ty == "int" and isinstance(op, ast.Mult):
        h = s.heap
        n1 = h.llen(a.ref)
        if not smt.is_true(n1 == 1):
            raise Unsupported("list * int for non-singleton")
        x = h.lget(a.ref, 0)
        cnt = z3.If(get_i(b.t) > 0, get_i(b.t), 0)
        return [(eng.new_list(s, cnt, z3.K(smt.I, x)), s)]
    if a.ty == "str" and isinstance(op, ast.Mod):
        raise Unsupported("% formatting")
    raise Unsupported(f"binop {type(op).__name__} on {a.ty},{b.ty}")


POW = z3.Function("py_pow", smt.R, smt.R, smt.R)


def _narrow_num(eng, s, v):
    t = eng.static_ty(s, v, ["float", "int"])
    return eng.with_ty(s, v, t) if t else v


def augassign(eng, op, cur, rhs, s):
    cur = eng.as_val(s, cur) if not isinstance(cur, SV) else cur
    if kind_of(eng, cur) == "list" and isinstance(op, ast.Add) and cur.ty == "list":
        # list += iterable mutates in place
        return [(cur, s2) for _, s2 in list_extend(eng, cur, rhs, s)]
    if cur.ty is not None and cur.ty.startswith("obj:"):
        meth = {ast.Add: "__iadd__", ast.Sub: "__isub__"}.get(type(op))
        cls = cur.ty[4:]
        f = eng.reg.method(cls, meth) if meth else None
        if f is not None:
            return call_value(eng, BoundMeth(cur, meth, f), [rhs], {}, s)
        meth2 = {ast.Add: "__add__", ast.Sub: "__sub__"}.get(type(op))
        f = eng.reg.method(cls, meth2) if meth2 else None
        if f is not None:
            return call_value(eng, BoundMeth(cur, meth2, f), [rhs], {}, s)
    return binop(eng, op, cur, rhs, s)


def compare(eng, op, a, b, s):
    """-> z3 Bool"""
    if isinstance(op, (ast.Eq, ast.NotEq)):
        if isinstance(a, PyConst) and isinstance(b, PyConst):
            r = z3.BoolVal(a.obj == b.obj)
        elif isinstance(a, PyConst) or isinstance(b, PyConst):
            x, y = (a, b) if isinstance(b, PyConst) else (b, a)
            lit = from_python(y.obj)
            if lit is not None:
                r = eng.py_eq(s, eng.as_val(s, x), lit)
            elif isinstance(y.obj, (set, frozenset)) and isinstance(x, SV) and kind_of(eng, x) == "set":
                r = set_equals_const(eng, s, x, y.obj)
            else:
                raise Unsupported(f"== with constant {y.obj!r}")
        elif isinstance(a, SV) and isinstance(b, SV) and kind_of(eng, a) == "set" and kind_of(eng, b) == "set":
            r = set_equals(eng, s, a, b)
        else:
            r = eng.py_eq(s, eng.as_val(s, a), eng.as_val(s, b))
        return r if isinstance(op, ast.Eq) else z3.Not(r)
    if isinstance(op, (ast.Is, ast.IsNot)):
        if isinstance(a, (ExcVal, FuncRef, ClassRef)) or isinstance(b, (ExcVal, FuncRef, ClassRef)):
            raise Unsupported("is on meta value")
        if isinstance(b, PyConst) or isinstance(a, PyConst):
            raise Unsupported("is on constant object")
        a, b = eng.as_val(s, a), eng.as_val(s, b)
        if b.ty == "none" and a.ty is not None:
            r = z3.BoolVal(a.ty == "none")
        elif a.ty == "none" and b.ty is not None:
            r = z3.BoolVal(b.ty == "none")
        else:
            r = a.t == b.t
        return r if isinstance(op, ast.Is) else z3.Not(r)
    if isinstance(op, (ast.In, ast.NotIn)):
        r = contains(eng, s, b, a)
        return r if isinstance(op, ast.In) else z3.Not(r)
    if isinstance(op, ast.GtE) and getattr(a, "keys_of", None) is not None:
        # d.keys() >= {...}: every element of the set is a key of d
        if isinstance(b, PyConst) and isinstance(b.obj, (set, frozenset)):
            return z3.And([s.heap.dhas(a.keys_of, eng.as_val(s, PyConst(c)).t) for c in b.obj]) if b.obj else z3.BoolVal(True)
        bv = eng.as_val(s, b)
        if kind_of(eng, bv) == "set":
            k = z3.Const("ks_k", Val)
            return z3.ForAll([k], z3.Implies(s.heap.dhas(bv.ref, k), s.heap.dhas(a.keys_of, k)), patterns=[s.heap.dhas(bv.ref, k)])
        raise Unsupported("keys view compared with a non-set")
    if isinstance(op, (ast.Lt, ast.LtE, ast.Gt, ast.GtE)):
        a, b = eng.as_val(s, a), eng.as_val(s, b)
        if a.ty == "int" and b.ty == "int":
            x, y = get_i(a.t), get_i(b.t)
        elif (a.ty in ("int", "float", "bool") or a.ty is None) and (b.ty in ("int", "float", "bool") or b.ty is None):
            x, y = eng.num_real(a), eng.num_real(b)
        elif kind_of(eng, a) == "set" and kind_of(eng, b) == "set" and isinstance(op, ast.GtE):
            return subset(eng, s, b, a)
        elif kind_of(eng, a) == "set" and kind_of(eng, b) == "set" and isinstance(op, ast.LtE):
            return subset(eng, s, a, b)
        else:
            raise Unsupported(f"ordering on {a.ty},{b.ty}")
        return {ast.Lt: x < y, ast.LtE: x <= y, ast.Gt: x > y, ast.GtE: x >= y}[type(op)]
    raise Unsupported("compare op")


def set_equals_const(eng, s, x, const):
    h = s.heap
    ref = x.ref
    s.assume(*h.dict_wf(ref))
    members = [eng.as_val(s, PyConst(c)).t for c in const]
    k = z3.Const("se_k", Val)
    return z3.And(h.dlen(ref) == len(members), *[h.dhas(ref, m) for m in members])


def set_equals(eng, s, a, b):
    h = s.heap
    s.assume(*h.dict_wf(a.ref))
    s.assume(*h.dict_wf(b.ref))
    # one side with a concrete small number of concrete members: |x| == n and every member present
    # (equivalent by the representation invariant: keys <-> positions is a bijection)
    for x, y in ((a, b), (b, a)):
        n = smt.simp(h.dlen(y.ref))
        if z3.is_int_value(n) and n.as_long() <= 4:
            members = [smt.simp(z3.Select(h.dkeys(y.ref), j)) for j in range(n.as_long())]
            return z3.And(h.dlen(x.ref) == n, *[h.dhas(x.ref, m) for m in members])
    k = z3.Const("se_k", Val)
    return z3.ForAll([k], h.dhas(a.ref, k) == h.dhas(b.ref, k))


def subset(eng, s, a, b):
    h = s.heap
    k = z3.Const("ss_k", Val)
    return z3.ForAll([k], z3.Implies(h.dhas(a.ref, k), h.dhas(b.ref, k)))


def contains(eng, s, coll, x):
    """z3 Bool: x in coll"""
    h = s.heap
    if isinstance(coll, PyConst):
        if isinstance(coll.obj, (tuple, list, set, frozenset)):
            xs = eng.as_val(s, x)
            return z3.Or([eng.py_eq(s, xs, eng.as_val(s, PyConst(c))) for c in coll.obj]) if coll.obj else z3.BoolVal(False)
        if isinstance(coll.obj, dict):
            xs = eng.as_val(s, x)
            return z3.Or([eng.py_eq(s, xs, eng.as_val(s, PyConst(c))) for c in coll.obj]) if coll.obj else z3.BoolVal(False)
        raise Unsupported(f"in {coll.obj!r}")
    if isinstance(coll, SeqView):
        xs = eng.as_val(s, x)
        i = fresh("in_i", smt.I)
        return z3.Exists([i], z3.And(0 <= i, i < coll.n, z3.Select(coll.arr, i) == xs.t))
    xs = eng.as_val(s, x)
    k = kind_of(eng, coll)
    if k in ("dict", "set"):
        s.assume(*h.dict_wf(coll.ref))
        return h.dhas(coll.ref, xs.t)
    if k in ("list", "tuple"):
        n = h.llen(coll.ref)
        nn = smt.simp(n)
        if z3.is_int_value(nn) and nn.as_long() <= 8:
            return z3.Or([eng.py_eq(s, xs, SV(h.lget(coll.ref, j))) for j in range(nn.as_long())]) if nn.as_long() else z3.BoolVal(False)
        i = fresh("in_i", smt.I)
        return z3.Exists([i], z3.And(0 <= i, i < n, h.lget(coll.ref, i) == xs.t))
    if k == "str":
        if xs.ty != "str":
            raise Unsupported("in str with non-str")
        return z3.Contains(get_s(coll.t), get_s(xs.t))
    if isinstance(coll, SV) and coll.ty is None:
        ref = get_ref(coll.t)
        i = fresh("in_i", smt.I)
        is_l = z3.Or(TYP(ref) == class_id("list"), TYP(ref) == class_id("tuple"))
        return z3.If(is_l, z3.Exists([i], z3.And(0 <= i, i < h.llen(ref), h.lget(ref, i) == xs.t)),
                     h.dhas(ref, xs.t))
    raise Unsupported(f"in on {coll!r}")


# ---------------------------------------------------------------------------------------------------
# attributes
# ---------------------------------------------------------------------------------------------------
def getattr_(eng, v, name, s):
    if isinstance(v, ModuleRef):
        if not hasattr(v.pymod, name):
            raise Unsupported(f"module attribute {name}")
        return [(eng.wrap_python(getattr(v.pymod, name), name), s)]
    if isinstance(v, ClassRef):
        return [(class_attr(eng, v.pycls, name, s), s)]
    from .values import SuperRef
    if isinstance(v, SuperRef):
        mro = list(v.cls.__mro__)
        recv_cls = v.recv.pycls if isinstance(v.recv, ClassRef) else None
        for k in mro[1:]:
            if name in k.__dict__:
                raw = k.__dict__[name]
                f = raw.__func__ if isinstance(raw, (staticmethod, classmethod)) else raw
                qn = f"{k.__module__}.{k.__qualname__}.{name}"
                return [(BoundMeth(v.recv, name, FuncRef(qn, f)), s)]
        raise Unsupported(f"super().{name}")
    if isinstance(v, PyConst):
        if hasattr(v.obj, name):
            a = getattr(v.obj, name)
            if callable(a):
                return [(BoundMeth(v, name), s)]
            return [(eng.wrap_python(a, name), s)]
        raise Unsupported(f"attribute {name} of constant")
    if isinstance(v, SeqView):
        return [(BoundMeth(v, name), s)]
    if isinstance(v, ExcVal):
        raise Unsupported("attribute of exception")
    if not isinstance(v, SV):
        raise Unsupported(f"getattr on {v!r}")
    ty = v.ty
    if ty in ("str", "list", "tuple", "dict", "set", "int", "float", "bool", "none"):
        pyty = {"str": str, "list": list, "tuple": tuple, "dict": dict, "set": set, "int": int,
                "float": float, "bool": bool, "none": type(None)}[ty]
        if hasattr(pyty, name):
            return [(BoundMeth(v, name), s)]
        if not eng.spec:
            eng.raise_exc(s, AttributeError)
        return []
    if ty is not None and ty.startswith("obj:"):
        return obj_attr(eng, v, ty[4:], name, s)
    # unknown static type: first try to establish it from the path condition
    cands = [t for t, pyty in (("dict", dict), ("list", list), ("str", str), ("tuple", tuple), ("set", set))
             if hasattr(pyty, name)]
    if cands and not eng.reg.classes_with_field(name):
        t = eng.static_ty(s, v, cands)
        if t is not None:
            return getattr_(eng, eng.with_ty(s, v, t), name, s)
    # split on the classes that can hold this attribute
    classes = eng.reg.classes_with_field(name)
    if not classes:
        meth = [c for c, k in eng.reg.classes.items() if k.pycls is not None and (callable(getattr(k.pycls, name, None)) or isinstance(getattr(k.pycls, name, None), property))]
        if meth:
            t = eng.static_ty(s, v, ["obj:" + c for c in meth])
            if t is not None:
                return getattr_(eng, eng.with_ty(s, v, t), name, s)
        raise Unsupported(f"attribute {name} on value of unknown type")
    if eng.spec:
        # total in specifications: field read
        return [(SV(s.heap.get_field(get_ref(v.t), name), eng.reg.field_ty(classes[0], name)), s)]
    out = []
    rest = s
    for c in classes:
        if rest is None:
            break
        yes, rest = eng.branch(rest, eng.typ_is(v, c))
        if yes is not None:
            out += obj_attr(eng, sv_ref(get_ref(v.t), "obj:" + c), c, name, yes)
    if rest is not None:
        eng.raise_exc(rest, AttributeError)
    return out


def class_attr(eng, pycls, name, s):
    cname = pycls.__name__
    f = eng.reg.method(cname, name)
    if f is not None:
        raw = pycls.__dict__.get(name) if name in pycls.__dict__ else None
        for k in pycls.__mro__:
            if name in k.__dict__:
                raw = k.__dict__[name]
                break
        if isinstance(raw, classmethod):
            return BoundMeth(ClassRef(pycls), name, f)
        return f      # staticmethod or plain function accessed on the class
    if eng.reg.is_class_var(cname, name):
        val = s.heap.get_field(CLASS_OBJ(eng.reg.class_var_owner(cname, name)), name)
        fty = eng.reg.field_ty(cname, name)
        s.assume(z3.Implies(is_ref(val), z3.And(get_ref(val) >= 0, get_ref(val) < s.heap.alloc)))
        eng.field_closed(s, name)
        if fty is not None:
            s.assume(eng.ty_cond(SV(val, None), fty))
        return SV(val, fty)
    if hasattr(pycls, name):
        return eng.wrap_python(getattr(pycls, name), name)
    raise Unsupported(f"class attribute {cname}.{name}")


def CLASS_OBJ(cname):
    """class objects live at negative references: never allocated, never fresh"""
    return z3.IntVal(-class_id("class:" + cname))


def obj_attr(eng, v, cls, name, s):
    reg = eng.reg
    if reg.has_field(cls, name):
        val = s.heap.get_field(v.ref, name)
        s.assume(z3.Implies(is_ref(val), z3.And(get_ref(val) >= 0, get_ref(val) < s.heap.alloc)))
        eng.field_closed(s, name)
        fty = reg.field_ty(cls, name)
        if fty is not None:
            # declared attribute types are class invariants: established by every write (see setattr_)
            s.assume(eng.ty_cond(SV(val, None), fty))
        return [(SV(val, fty), s)]
    if reg.is_class_var(cls, name):
        return [(SV(s.heap.get_field(CLASS_OBJ(reg.class_var_owner(cls, name)), name), reg.field_ty(cls, name)), s)]
    if cls == "Particle" and getattr(reg, "particle_attr", None) is not None and not reg.has_field(cls, name) \
            and reg.method(cls, name) is None:
        return reg.particle_attr(eng, v, name, s)
    prop = reg.property_of(cls, name)
    if prop is not None:
        return call_value(eng, BoundMeth(v, name, prop), [], {}, s)
    f = reg.method(cls, name)
    if f is not None:
        raw = None
        pc = reg.pyclass(cls)
        for kls in (pc.__mro__ if pc is not None else ()):
            if name in kls.__dict__:
                raw = kls.__dict__[name]
                break
        if isinstance(raw, staticmethod):
            return [(f, s)]
        if isinstance(raw, classmethod):
            return [(BoundMeth(ClassRef(pc), name, f), s)]
        return [(BoundMeth(v, name, f), s)]
    if name == "__class__":
        pc = reg.pyclass(cls)
        if pc is not None:
            return [(ClassRef(pc), s)]
    k = reg.class_kind(cls)
    if k:
        pyty = {"dict": dict, "list": list, "set": set}[k]
        if hasattr(pyty, name):
            return [(BoundMeth(v, name), s)]
    if reg.knows_class(cls):
        if not eng.spec:
            eng.raise_exc(s, AttributeError)
        return []
    raise Unsupported(f"attribute {cls}.{name}")


def setattr_(eng, obj, name, v, s):
    if isinstance(obj, ClassRef):
        cname = obj.pycls.__name__
        if not eng.reg.is_class_var(cname, name):
            raise Unsupported(f"assignment to {cname}.{name}")
        ref = CLASS_OBJ(eng.reg.class_var_owner(cname, name))
        eng.check_write(s, ref, "fld:" + name)
        s.heap = s.heap.set_field(ref, name, eng.as_val(s, v).t)
        return [s]
    if not isinstance(obj, SV):
        raise Unsupported("setattr on meta value")
    if obj.ty is None:
        classes = eng.reg.classes_with_field(name)
        if not classes:
            raise Unsupported(f"setattr {name} on unknown type")
        out = []
        rest = s
        for c in classes:
            if rest is None:
                break
            yes, rest = eng.branch(rest, eng.typ_is(obj, c))
            if yes is not None:
                out += setattr_(eng, sv_ref(get_ref(obj.t), "obj:" + c), name, v, yes)
        if rest is not None:
            eng.raise_exc(rest, AttributeError)
        return out
    if not obj.ty.startswith("obj:"):
        eng.raise_exc(s, AttributeError)
        return []
    cls = obj.ty[4:]
    if not eng.reg.has_field(cls, name):
        if eng.reg.is_class_var(cls, name):
            raise Unsupported("instance assignment shadowing class variable")
        if eng.reg.has_slots(cls):
            eng.raise_exc(s, AttributeError)
            return []
        raise Unsupported(f"unknown field {cls}.{name}")
    eng.check_write(s, obj.ref, "fld:" + name)
    newv = eng.as_val(s, v)
    fty = eng.reg.field_ty(cls, name)
    if fty is not None and newv.ty != fty:
        eng.oblige(f"{eng.qual}.fieldtype.{cls}.{name}@L{eng.cur_line}", s, eng.ty_cond(SV(newv.t, None), fty), "frame")
    s.heap = s.heap.set_field(obj.ref, name, newv.t)
    return [s]


# ---------------------------------------------------------------------------------------------------
# subscripts
# ---------------------------------------------------------------------------------------------------
def norm_index(n, i, spec=False):
    """Python's negative indexing; in specifications indices are taken as written unless they are
    negative literals (keeps quantifier triggers free of `if`)"""
    si = smt.simp(i)
    if z3.is_int_value(si):
        return si if si.as_long() >= 0 else smt.simp(n + si)
    if spec:
        return i
    return z3.If(i < 0, n + i, i)


def subscript(eng, v, k, s):
    h = s.heap
    if isinstance(v, PyConst):
        if isinstance(v.obj, (tuple, list)) and isinstance(k, SV) and k.ty == "int":
            kk = smt.simp(get_i(k.t))
            if z3.is_int_value(kk):
                return [(eng.wrap_python(v.obj[kk.as_long()]), s)]
        if isinstance(v.obj, dict) or hasattr(v.obj, "__getitem__"):
            ext = eng.reg.const_getitem(v.obj)
            if ext is not None:
                return ext(eng, v, k, s)
        raise Unsupported(f"subscript of constant {type(v.obj).__name__}")
    if isinstance(v, PairVal):
        kk = smt.simp(get_i(eng.as_val(s, k).t))
        if z3.is_int_value(kk) and kk.as_long() in (0, 1):
            return [((v.a, v.b)[kk.as_long()], s)]
        raise Unsupported("index into a pair")
    if isinstance(v, SeqView):
        from .builtins_model import elem_at
        k = eng.as_val(s, k)
        i = norm_index(v.n, get_i(k.t), eng.spec)
        if eng.spec:
            return [(elem_at(eng, s, v, i), s)]
        ok, bad = eng.branch(s, z3.And(0 <= i, i < v.n))
        if bad is not None:
            eng.raise_exc(bad, IndexError)
        return [(elem_at(eng, ok, v, i), ok)] if ok is not None else []
    if not isinstance(v, SV):
        raise Unsupported(f"subscript of {v!r}")
    kd = kind_of(eng, v)
    if kd is None and v.ty is None:
        t = eng.static_ty(s, v, ["list", "dict", "tuple", "str"])
        if t is None:
            if eng.spec:
                raise Unsupported("subscript of value of unknown type in specification")
            # not indexable unless proven so: float / None etc. raise TypeError
            cand = [("list", eng.typ_is(v, "list")), ("tuple", eng.typ_is(v, "tuple")),
                    ("dict", eng.typ_is(v, "dict")), ("str", is_str(v.t))]
            out = []
            rest = s
            for ty, c in cand:
                if rest is None:
                    break
                yes, rest = eng.branch(rest, c)
                if yes is not None:
                    out += subscript(eng, eng.with_ty(yes, v, ty), k, yes)
            if rest is not None:
                eng.raise_exc(rest, TypeError)
            return out
        v = eng.with_ty(s, v, t)
        kd = kind_of(eng, v)
    if kd in ("list", "tuple"):
        k = eng.as_val(s, k)
        if k.ty not in ("int", "bool", None):
            eng.raise_exc(s, TypeError)
            return []
        n = h.llen(v.ref)
        i = norm_index(n, get_i(k.t), eng.spec)
        ety = eng.reg.elem_ty_hint(s, v)
        if eng.spec:
            return [(SV(h.lget(v.ref, i), ety), s)]
        ok, bad = eng.branch(s, z3.And(0 <= i, i < n))
        if bad is not None:
            eng.raise_exc(bad, IndexError)
        return [(SV(ok.heap.lget(v.ref, smt.simp(i)), ety), ok)] if ok is not None else []
    if kd == "dict":
        k = eng.as_val(s, k)
        s.assume(*h.dict_wf(v.ref))
        if v.ty.startswith("obj:") and eng.reg.dict_default(v.ty[4:]) is not None and not eng.spec:
            dflt = eng.reg.dict_default(v.ty[4:])
            return [(SV(z3.If(h.dhas(v.ref, k.t), h.dget(v.ref, k.t), dflt), None), s)]
        if eng.spec:
            return [(SV(h.dget(v.ref, k.t), None), s)]
        ok, bad = eng.branch(s, h.dhas(v.ref, k.t))
        if bad is not None:
            eng.raise_exc(bad, KeyError)
        return [(SV(h.dget(v.ref, k.t), None), ok)] if ok is not None else []
    if kd == "str":
        k = eng.as_val(s, k)
        n = z3.Length(get_s(v.t))
        i = norm_index(n, get_i(k.t), eng.spec)
        if eng.spec:
            return [(sv_str(z3.SubString(get_s(v.t), i, 1)), s)]
        ok, bad = eng.branch(s, z3.And(0 <= i, i < n))
        if bad is not None:
            eng.raise_exc(bad, IndexError)
        return [(sv_str(z3.SubString(get_s(v.t), i, 1)), ok)] if ok is not None else []
    if not eng.spec and v.ty in ("int", "float", "none", "bool"):
        eng.raise_exc(s, TypeError)
        return []
    raise Unsupported(f"subscript on {v.ty}")


def slice_(eng, v, lo, hi, s):
    h = s.heap
    if isinstance(v, SeqView):
        n, arr = v.n, v.arr
        kd = "list"
    else:
        v = eng.as_val(s, v)
        kd = kind_of(eng, v)
        if kd is None and v.ty is None:
            t = eng.static_ty(s, v, ["str", "list", "tuple"])
            if t is None:
                raise Unsupported("slice of unknown type")
            v = eng.with_ty(s, v, t)
            kd = t
    if kd == "str":
        n = z3.Length(get_s(v.t))
    elif kd in ("list", "tuple"):
        if not isinstance(v, SeqView):
            n, arr = h.llen(v.ref), h.lelems(v.ref)
    else:
        raise Unsupported(f"slice of {kd}")

    def clamp(x, default):
        if x is None:
            return default
        x = eng.as_val(s, x)
        if x.ty == "none":
            return default
        i = get_i(x.t)
        i = z3.If(i < 0, n + i, i)
        return z3.If(i < 0, 0, z3.If(i > n, n, i))
    a = clamp(lo, z3.IntVal(0))
    b = clamp(hi, n)
    ln = smt.simp(z3.If(b > a, b - a, 0))
    if kd == "str":
        return [(sv_str(z3.SubString(get_s(v.t), a, ln)), s)]
    new = fresh("slice", smt.ArrIV)
    i = z3.Int("sl_i")
    s.assume(z3.ForAll([i], z3.Implies(z3.And(0 <= i, i < ln), z3.Select(new, i) == z3.Select(arr, a + i)),
                       patterns=[z3.Select(new, i)]))
    if eng.spec:
        return [(SeqView(ln, new), s)]
    return [(eng.new_list(s, ln, new, kd if kd in ("list", "tuple") else "list"), s)]


def setitem(eng, obj, k, v, s):
    h = s.heap
    if not isinstance(obj, SV):
        raise Unsupported("setitem on meta value")
    kd = kind_of(eng, obj)
    if kd is None:
        t = eng.static_ty(s, obj, ["list", "dict"])
        if t is None:
            raise Unsupported("setitem on unknown type")
        obj = eng.with_ty(s, obj, t)
        kd = t
    val = eng.as_val(s, v).t
    if kd == "list":
        k = eng.as_val(s, k)
        n = h.llen(obj.ref)
        i = norm_index(n, get_i(k.t))
        ok, bad = eng.branch(s, z3.And(0 <= i, i < n))
        if bad is not None:
            eng.raise_exc(bad, IndexError)
        if ok is None:
            return []
        eng.check_write(ok, obj.ref, "list")
        ok.heap = ok.heap.lset(obj.ref, smt.simp(i), val)
        return [ok]
    if kd == "dict":
        k = eng.as_val(s, k)
        s.assume(*h.dict_wf(obj.ref))
        eng.check_write(s, obj.ref, "dict")
        s.heap = s.heap.dset(obj.ref, k.t, val)
        return [s]
    if kd == "tuple":
        eng.raise_exc(s, TypeError)
        return []
    raise Unsupported(f"setitem on {kd}")


def unpack(eng, targets, v, s):
    n = len(targets)
    if any(isinstance(t, ast.Starred) for t in targets):
        raise Unsupported("starred unpacking")
    if isinstance(v, PyConst) and isinstance(v.obj, (tuple, list)):
        if len(v.obj) != n:
            eng.raise_exc(s, ValueError)
            return []
        items = [eng.wrap_python(x) for x in v.obj]
        ok = s
    elif isinstance(v, PairVal):
        if n != 2:
            eng.raise_exc(s, ValueError)
            return []
        items = [v.a, v.b]
        ok = s
    else:
        seq = eng.seq_of(s, v)
        if eng.spec:
            ok = s
        else:
            ok, bad = eng.branch(s, seq.n == n)
            if bad is not None:
                eng.raise_exc(bad, ValueError)
            if ok is None:
                return []
        items = [SV(smt.simp(z3.Select(seq.arr, j)), seq.elem_ty) for j in range(n)]
    states = [ok]
    for t, it in zip(targets, items):
        nxt = []
        for s1 in states:
            nxt += eng.assign(t, it, s1)
        states = nxt
    return states


class PairVal:
    """a (key, value) pair produced by iterating dict.items() / enumerate(); materialised lazily"""
    def __init__(self, a, b):
        self.a = a
        self.b = b


# ---------------------------------------------------------------------------------------------------
# formatting
# ---------------------------------------------------------------------------------------------------
def format_value(eng, s, val, spec, conv):
    """-> z3 String for format(val, spec) / str(val) / repr(val)"""
    if isinstance(val, PyConst):
        txt = val.obj
        if conv == "r":
            txt = repr(txt)
        return z3.StringVal(format(txt, spec) if spec else str(txt))
    if isinstance(val, (ExcVal,)):
        return smt.fresh("excstr", smt.S)
    v = eng.as_val(s, val)
    if conv == "r":
        return smt.fmt_of(v.t, z3.StringVal("!r" + (spec or "")))
    if spec:
        return smt.fmt_of(v.t, z3.StringVal(spec))
    if v.ty == "str":
        return get_s(v.t)
    if v.ty == "obj:Token":
        # lark.Token is a str subclass: str(token) is its (immutable) text
        return smt.TOKTEXT(smt.get_ref(v.t))
    if v.ty is None:
        from .builtins_model import tokens_are_str
        if not tokens_are_str(eng):
            return z3.If(is_str(v.t), get_s(v.t), smt.str_of(v.t))
        return z3.If(is_str(v.t), get_s(v.t), z3.If(eng.ty_cond(v, "obj:Token"), smt.TOKTEXT(smt.get_ref(v.t)), smt.str_of(v.t)))
    if v.ty in ("list", "tuple", "dict", "set") or v.ty.startswith("obj:"):
        # str() of a container depends on its contents: an opaque fresh string
        return smt.fresh("strof", smt.S)
    return smt.str_of(v.t)


# ---------------------------------------------------------------------------------------------------
# calls
# ---------------------------------------------------------------------------------------------------
def call(eng, e, st):
    if eng.spec:
        from .callcontract import spec_form
        r = spec_form(eng, e, st)
        if r is not None:
            return r
    out = []
    if eng.spec and isinstance(e.func, ast.Name) and e.func.id in eng.reg.spec_funcs:
        # spec functions win over program variables of the same name
        fs = [(FuncRef("spec." + e.func.id, eng.reg.spec_funcs[e.func.id]), st)]
    else:
        fs = None
    for f, s in (fs if fs is not None else eng.ev(e.func, st)):
        # positional args (with *iterable support) and keywords (with **dict support)
        arg_nodes = [a.value if isinstance(a, ast.Starred) else a for a in e.args]
        kw_nodes = [k.value for k in e.keywords]
        for vals, s2 in eng.ev_many(arg_nodes + kw_nodes, s):
            pos_vals = vals[:len(arg_nodes)]
            kw_vals = vals[len(arg_nodes):]
            args = []
            star = None
            for a, v in zip(e.args, pos_vals):
                if isinstance(a, ast.Starred):
                    if star is not None:
                        raise Unsupported("two * arguments")
                    star = v
                    args.append(StarArg(v))
                else:
                    args.append(v)
            kwargs = {}
            dstar = None
            for k, v in zip(e.keywords, kw_vals):
                if k.arg is None:
                    dstar = v
                else:
                    kwargs[k.arg] = v
            if dstar is not None:
                kwargs["**"] = dstar
            out += call_value(eng, f, args, kwargs, s2)
    return out


class StarArg:
    def __init__(self, v):
        self.v = v


def expand_star(eng, args, s):
    """expand *x arguments whose length is concrete"""
    out = []
    for a in args:
        if isinstance(a, StarArg):
            seq = eng.seq_of(s, a.v)
            n = smt.simp(seq.n)
            if not z3.is_int_value(n):
                raise Unsupported("*args of symbolic length")
            for j in range(n.as_long()):
                out.append(SV(smt.simp(z3.Select(seq.arr, j)), seq.elem_ty))
        else:
            out.append(a)
    return out


def call_value(eng, f, args, kwargs, s):
    from . import builtins_model as bm
    from . import callcontract
    if isinstance(f, Closure):
        args = expand_star(eng, args, s)
        return eng.call_closure(f, args, kwargs, s)
    if isinstance(f, BoundMeth):
        if f.func is not None:
            return callcontract.call_function(eng, f.func, [f.recv] + list(args), kwargs, s, bound=True)
        return bm.call_method(eng, f.recv, f.name, args, kwargs, s)
    if isinstance(f, FuncRef):
        if f.qualname.startswith("spec."):
            return [(f.pyobj(eng, s, *args, **kwargs), s)]
        if f.qualname.startswith("builtins.") or f.qualname in bm.FUNCS:
            name = f.qualname.split(".", 1)[1] if f.qualname.startswith("builtins.") else f.qualname
            if name in bm.FUNCS:
                return bm.FUNCS[name](eng, s, args, kwargs)
        return callcontract.call_function(eng, f, list(args), kwargs, s)
    if isinstance(f, ClassRef):
        if f.pycls.__module__ == "builtins" and f.pycls.__name__ in bm.FUNCS:
            return bm.FUNCS[f.pycls.__name__](eng, s, expand_star(eng, args, s), kwargs)
        return callcontract.construct(eng, f.pycls, list(args), kwargs, s)
    if isinstance(f, PyConst) and callable(f.obj):
        return callcontract.call_function(eng, eng.wrap_python(f.obj), list(args), kwargs, s)
    raise Unsupported(f"call of {f!r}")


# ---------------------------------------------------------------------------------------------------
# list helpers shared with builtins_model
# ---------------------------------------------------------------------------------------------------
def list_extend(eng, lst, other, s):
    h = s.heap
    seq = eng.seq_of(s, other)
    n1 = h.llen(lst.ref)
    n2 = smt.simp(seq.n)
    eng.check_write(s, lst.ref, "list")
    if z3.is_int_value(n2) and n2.as_long() <= 6:
        arr = h.lelems(lst.ref)
        for j in range(n2.as_long()):
            arr = z3.Store(arr, n1 + j, z3.Select(seq.arr, j))
        s.heap = s.heap.set_list(lst.ref, n1 + n2, arr)
        return [(sv_none(), s)]
    arr = fresh("ext", smt.ArrIV)
    i = z3.Int("ext_i")
    old = h.lelems(lst.ref)
    s.assume(z3.ForAll([i], z3.Implies(z3.And(0 <= i, i < n1), z3.Select(arr, i) == z3.Select(old, i)),
                       patterns=[z3.Select(arr, i)]),
             z3.ForAll([i], z3.Implies(z3.And(0 <= i, i < n2), z3.Select(arr, n1 + i) == z3.Select(seq.arr, i)),
                       patterns=[z3.Select(seq.arr, i)]),
             z3.ForAll([i], z3.Implies(z3.And(n1 <= i, i < n1 + n2), z3.Select(arr, i) == z3.Select(seq.arr, i - n1)),
                       patterns=[z3.Select(arr, i)]),
             n2 >= 0)
    s.heap = s.heap.set_list(lst.ref, n1 + n2, arr)
    return [(sv_none(), s)]
