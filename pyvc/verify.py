"""Verification of one function against its contract: builds the symbolic pre-state, runs the
executor over the real ast, turns outcomes into obligations and discharges them."""
from __future__ import annotations

import time
import traceback

import z3

from . import smt
from .callcontract import resolve_exc, spec_bool, spec_value, type_conds
from .engine import Engine, Env, Obligation, State, Unsupported
from .heap import Heap
from .smt import Val, fresh, get_ref, is_ref
from .source import find_function
from .values import SV, ClassRef, sv_ref


class FunctionReport:
    def __init__(self, qualname):
        self.qualname = qualname
        self.sha = None
        self.status = "ok"              # ok | unsupported | missing | error
        self.detail = ""
        self.obligations = []           # dicts: name, kind, status, seconds, backend, line
        self.inlined = []
        self.externals = []
        self.seconds = 0.0
        self.properties = []

    def to_json(self):
        return dict(qualname=self.qualname, sha=self.sha, status=self.status, detail=self.detail,
                    obligations=self.obligations, inlined=self.inlined, externals=self.externals,
                    seconds=round(self.seconds, 3), properties=self.properties)


def initial_state(eng, fi, c):
    heap = Heap.symbolic("h0")
    env = Env({})
    st = State(env, heap, [])
    st.assume(heap.alloc >= 0)
    st.assume(*heap.closed_facts())
    params = {}
    a = fi.node.args
    names = [x.arg for x in a.posonlyargs + a.args] + [x.arg for x in a.kwonlyargs]
    if a.vararg:
        names.append(a.vararg.arg)
    if a.kwarg:
        names.append(a.kwarg.arg)
    for idx, n in enumerate(names):
        if idx == 0 and fi.cls_name and fi.kind in ("function", "property") and n == "self":
            ref = fresh("self", smt.I)
            v = sv_ref(ref, "obj:" + c.types.get("self", fi.cls_name).replace("obj:", ""))
            st.assume(eng.typ_is(SV(v.t, None), fi.cls_name), ref >= 0, ref < heap.alloc)
        elif idx == 0 and fi.kind == "classmethod":
            import importlib
            v = ClassRef(getattr(fi.module, fi.cls_name))
            env.vars[n] = v
            continue
        else:
            v = SV(fresh("p_" + n, Val), None)
            st.assume(z3.Implies(is_ref(v.t), z3.And(get_ref(v.t) >= 0, get_ref(v.t) < heap.alloc)))
            if a.vararg and n == a.vararg.arg:
                v = eng.with_ty(st, v, "tuple")
                st.assume(eng.typ_is(SV(v.t, None), "tuple"))
            if n in c.types:
                cond, sty = type_conds(eng, v, c.types[n])
                st.assume(cond)
                if sty:
                    v = eng.with_ty(st, v, sty)
        env.vars[n] = v
        params[n] = v
    return st, params


def verify_function(reg, qualname, opts=None) -> FunctionReport:
    rep = FunctionReport(qualname)
    t0 = time.time()
    c = reg.contracts[qualname]
    rep.properties = c.properties
    fi = find_function(qualname)
    if fi is None:
        rep.status = "missing"
        rep.detail = "function not found in /repo/src"
        return rep
    rep.sha = fi.sha
    eng = Engine(reg, fi, c, dict(opts or {}, **c.opts))
    try:
        st, params = initial_state(eng, fi, c)
        eng.entry_alloc = st.heap.alloc
        eng.entry_heap = st.heap
        pre = State(st.env.copy(), st.heap, st.pc, None, {})
        st.old = pre
        if c.opts.get("ghost_stdout"):
            st.ghost["stdout"] = (fresh("out_n0", smt.I), fresh("out_arr0", smt.ArrIV))
            pre.ghost["stdout"] = st.ghost["stdout"]
            st.assume(st.ghost["stdout"][0] >= 0)
        for r in c.requires + c.defs:
            st.assume(spec_bool(eng, r, st))
        from .values import RefSet
        for m in c.modifies:
            v = spec_value(eng, m, st)
            if isinstance(v, RefSet):
                eng.modifies_refs.append(v)
            else:
                eng.modifies_refs.append(get_ref(eng.as_val(st, v).t))
        # smoke: the precondition must be satisfiable (vacuity guard, DESIGN 2.8)
        sm = smt.check_sat(st.pc, 3000)
        eng.obligations.append(_smoke(qualname, sm))
        outs = eng.exec_block(fi.node.body, st)
        raised = eng.raised[0]
        # normal outcomes
        pidx = 0
        for o in outs:
            if o.kind not in ("return", "fall"):
                raise Unsupported(f"outcome {o.kind} at function level")
            res = o.val if o.kind == "return" else None
            from .values import sv_none
            if res is None:
                res = sv_none()
            s = o.st
            s.old = pre
            if c.returns:
                resv = eng.as_val(s, res)
                cond, sty = type_conds(eng, resv, c.returns)
                eng.oblige(f"{qualname}.post.type#p{pidx}", s, cond, "post")
                if sty and resv.ty is None:
                    resv = eng.with_ty(s, resv, sty)
                res = resv
            else:
                res = eng.as_val(s, res) if not isinstance(res, SV) else res
            if c.fresh:
                eng.oblige(f"{qualname}.post.fresh#p{pidx}", s,
                           z3.And(is_ref(res.t), get_ref(res.t) >= eng.entry_alloc), "post")
            for k, e in enumerate(c.ensures):
                eng.cur_line = None
                eng.oblige(f"{qualname}.post.{k}#p{pidx}", s, spec_bool(eng, e, s, result=res), "post")
            for exc_name, cond in c.raises.items():
                if cond is not None:
                    pre_view = State(s.env, pre.heap, s.pc, None, pre.ghost)
                    eng.oblige(f"{qualname}.raises.{exc_name}.complete#p{pidx}", s,
                               z3.Not(spec_bool(eng, cond, _entry_view(s, pre, params))), "raises")
            pidx += 1
        # exceptional outcomes
        for r in raised:
            cls = r.val.cls
            declared = None
            for exc_name, cond in c.raises.items():
                if issubclass(cls, resolve_exc(eng, fi, exc_name)) and (declared is None):
                    declared = (exc_name, cond)
            s = r.st
            if declared is None:
                eng.cur_line = None
                eng.oblige(f"{qualname}.noraise.{cls.__name__}#p{pidx}", s, z3.BoolVal(False), "noraise")
            else:
                exc_name, cond = declared
                if cond is not None:
                    eng.oblige(f"{qualname}.raises.{exc_name}.sound#p{pidx}", s,
                               spec_bool(eng, cond, _entry_view(s, pre, params)), "raises")
                for k, e in enumerate(c.opts.get("ensures_on_raise", [])):
                    import ast as _ast
                    node = _ast.parse(e.strip(), mode="eval").body
                    s.old = pre
                    eng.oblige(f"{qualname}.onraise.{k}#p{pidx}", s, spec_bool(eng, node, s), "post")
            pidx += 1
    except Unsupported as u:
        rep.status = "unsupported"
        rep.detail = f"{u} (line {eng.cur_line})"
    except Exception as ex:      # engine crash: reported, never a verdict
        rep.status = "error"
        rep.detail = "".join(traceback.format_exception_only(type(ex), ex)).strip() + f" (line {eng.cur_line})"
        rep.trace = traceback.format_exc()
    rep.inlined = sorted(eng.inlined)
    rep.externals = sorted(eng.externals_used)
    discharge(eng, rep, opts or {})
    rep.seconds = time.time() - t0
    rep._engine = eng
    return rep


def _entry_view(s, pre, params):
    """state for evaluating a pre-state condition: parameters as at entry, heap as at entry, but the
    current path condition"""
    return State(Env(dict(params)), pre.heap, s.pc, None, pre.ghost)


def _smoke(qualname, status):
    ob = Obligation(f"{qualname}.smoke.requires_satisfiable", [], z3.BoolVal(True), "smoke")
    ob.smoke_status = status
    return ob


def discharge(eng, rep, opts):
    timeout = opts.get("timeout_ms", 10000)
    failures = 0
    for ob in eng.obligations:
        if ob.kind == "smoke":
            st = ob.smoke_status
            rep.obligations.append(dict(name=ob.name, kind="smoke", status="unsat" if st != "unsat" else "vacuous",
                                        seconds=0.0, backend="z3", line=None,
                                        note=f"requires is {st}"))
            continue
        if z3.is_true(ob.goal):
            rep.obligations.append(dict(name=ob.name, kind=ob.kind, status="unsat", seconds=0.0,
                                        backend="simplifier", line=ob.lineno))
            continue
        # portfolio, budgets in z3 resource units (deterministic): neither quantifier-instantiation mode
        # dominates on these VCs (measured: 0.03 s vs unknown, in both directions); only `unsat` discharges
        stages = [("z3-mbqi", {}, 1500), ("z3-ematch", smt.EMATCH, 6000), ("z3-mbqi", {}, 6000),
                  ("cvc5", None, 15000), ("z3-ematch", smt.EMATCH, timeout)]
        if failures >= opts.get("full_effort_failures", 2):
            # the function already fails: the remaining obligations get the two cheap stages only
            stages = stages[:2]
        r = None
        secs = 0.0
        backend = "z3"
        for name, cfg, budget in stages:
            if name == "cvc5":
                if not opts.get("cvc5", True):
                    continue
                from . import cvc5_backend
                r2 = cvc5_backend.check(ob.pc, ob.goal, budget)
            else:
                r2 = smt.check_valid(ob.pc, ob.goal, budget, config=cfg)
            secs += r2.seconds
            if r is None or r2.status != "unknown":
                r = r2
                backend = name
            if r2.status != "unknown":
                break
        ob.result = r
        d = dict(name=ob.name, kind=ob.kind, status=r.status, seconds=round(secs, 4), backend=backend,
                 line=ob.lineno)
        if r.status != "unsat":
            d["reason"] = r.reason
            failures += 1
        rep.obligations.append(d)
