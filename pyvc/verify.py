"""Verification of one function against its contract: builds the symbolic pre-state, runs the
executor over the real ast, turns outcomes into obligations and discharges them."""
from __future__ import annotations

import os
import time
import traceback

import z3

from . import smt
from .callcontract import resolve_exc, spec_bool, spec_value, type_conds
from .engine import Engine, Env, Obligation, State, Unsupported
from .heap import Frozen, Heap
from .smt import Val, fresh, get_ref, is_ref
from .source import find_function
from .values import SV, ClassRef, sv_ref


class FunctionReport:
    def __init__(self, qualname):
        self.qualname = qualname
        self.sha = None
        self.status = "ok"              # ok | unsupported | missing | error
        self.detail = ""
        self.obligations = []           # dicts: name, kind, status, seconds, backend, line
        self.inlined = []
        self.externals = []
        self.seconds = 0.0
        self.properties = []

    def to_json(self):
        return dict(qualname=self.qualname, sha=self.sha, status=self.status, detail=self.detail,
                    obligations=self.obligations, inlined=self.inlined, externals=self.externals,
                    seconds=round(self.seconds, 3), properties=self.properties)


def initial_state(eng, fi, c):
    heap = Heap.symbolic("h0")
    env = Env({})
    st = State(env, heap, [])
    st.assume(heap.alloc >= 0)
    st.assume(*heap.closed_facts())
    params = {}
    a = fi.node.args
    names = [x.arg for x in a.posonlyargs + a.args] + [x.arg for x in a.kwonlyargs]
    if a.vararg:
        names.append(a.vararg.arg)
    if a.kwarg:
        names.append(a.kwarg.arg)
    for idx, n in enumerate(names):
        if idx == 0 and fi.cls_name and fi.kind in ("function", "property") and n == "self":
            ref = fresh("self", smt.I)
            v = sv_ref(ref, "obj:" + c.types.get("self", fi.cls_name).replace("obj:", ""))
            st.assume(eng.typ_is(SV(v.t, None), fi.cls_name), ref >= 0, ref < heap.alloc)
        elif idx == 0 and fi.kind == "classmethod":
            import importlib
            v = ClassRef(getattr(fi.module, fi.cls_name))
            env.vars[n] = v
            continue
        else:
            v = SV(fresh("p_" + n, Val), None)
            st.assume(z3.Implies(is_ref(v.t), z3.And(get_ref(v.t) >= 0, get_ref(v.t) < heap.alloc)))
            if a.vararg and n == a.vararg.arg:
                v = eng.with_ty(st, v, "tuple")
                st.assume(eng.typ_is(SV(v.t, None), "tuple"))
            if n in c.types:
                cond, sty = type_conds(eng, v, c.types[n])
                st.assume(cond)
                if sty:
                    v = eng.with_ty(st, v, sty)
        env.vars[n] = v
        params[n] = v
    return st, params


def verify_function(reg, qualname, opts=None) -> FunctionReport:
    rep = FunctionReport(qualname)
    t0 = time.time()
    c = reg.contracts[qualname]
    rep.properties = c.properties
    fi = find_function(qualname)
    if fi is None:
        rep.status = "missing"
        rep.detail = "function not found in /repo/src"
        return rep
    rep.sha = fi.sha
    eng = Engine(reg, fi, c, dict(opts or {}, **c.opts))
    try:
        st, params = initial_state(eng, fi, c)
        eng.entry_alloc = st.heap.alloc
        eng.entry_heap = st.heap
        pre = State(st.env.copy(), st.heap, st.pc, None, {})
        st.old = pre
        if c.opts.get("ghost_stdout"):
            st.ghost["stdout"] = (fresh("out_n0", smt.I), fresh("out_arr0", smt.ArrIV))
            pre.ghost["stdout"] = st.ghost["stdout"]
            st.assume(st.ghost["stdout"][0] >= 0)
        if not os.environ.get('PYVC_NOFREEZE'):
            # the container parameters (and what the entry heap stores in them) existed at entry: with an empty frame they
            # keep their entry contents for the whole call; with a frame, reads at them at least skip the stores made at
            # objects allocated since
            refs = {str(z3.simplify(get_ref(v.t))) for v in params.values() if isinstance(v, SV) and v.ty not in ("none", "bool", "int", "float", "str")}
            st.heap.frozen = Frozen(dict(st.heap.arr), refs, freeze=not c.modifies)
        for r in c.requires + c.defs:
            st.assume(spec_bool(eng, r, st))
        from .values import RefSet
        for m in c.modifies:
            v = spec_value(eng, m, st)
            if isinstance(v, RefSet):
                eng.modifies_refs.append(v)
            else:
                eng.modifies_refs.append(get_ref(eng.as_val(st, v).t))
        # smoke: the precondition must be satisfiable (vacuity guard, DESIGN 2.8)
        sm = smt.check_sat(st.pc, 3000)
        eng.obligations.append(_smoke(qualname, sm))
        outs = eng.exec_block(fi.node.body, st)
        raised = eng.raised[0]
        # normal outcomes
        pidx = 0
        for o in outs:
            if o.kind not in ("return", "fall"):
                raise Unsupported(f"outcome {o.kind} at function level")
            res = o.val if o.kind == "return" else None
            from .values import sv_none
            if res is None:
                res = sv_none()
            s = o.st
            s.old = pre
            if c.returns:
                resv = eng.as_val(s, res)
                cond, sty = type_conds(eng, resv, c.returns)
                eng.oblige(f"{qualname}.post.type#p{pidx}", s, cond, "post")
                if sty and resv.ty is None:
                    resv = eng.with_ty(s, resv, sty)
                res = resv
            else:
                res = eng.as_val(s, res) if not isinstance(res, SV) else res
            if c.ghost_on_return:
                # ghost code at the return point: tag the result object (it must be a new object of this call)
                eng.oblige(f"{qualname}.ghost.result_is_fresh#p{pidx}", s,
                           z3.And(is_ref(res.t), get_ref(res.t) >= eng.entry_alloc), "post")
                for gname, gexpr in c.ghost_on_return.items():
                    gv = eng.as_val(s, spec_value(eng, gexpr, _entry_view(s, pre, params)))
                    s.heap = s.heap.set_field(get_ref(res.t), "$" + gname, gv.t)
            if c.fresh:
                eng.oblige(f"{qualname}.post.fresh#p{pidx}", s,
                           z3.And(is_ref(res.t), get_ref(res.t) >= eng.entry_alloc), "post")
            for k, e in enumerate(c.ensures):
                eng.cur_line = None
                # parameter names in a postcondition denote the values PASSED (that is how callers use the contract), not
                # whatever the body has assigned to the parameter since
                ps = State(Env(dict(params)), s.heap, s.pc, pre, s.ghost)
                ps.branches = s.branches
                g = spec_bool(eng, e, ps, result=res)
                s.pc = ps.pc
                eng.oblige(f"{qualname}.post.{k}#p{pidx}", s, g, "post")
            for exc_name, cond in c.raises.items():
                if cond is not None:
                    pre_view = State(s.env, pre.heap, s.pc, None, pre.ghost)
                    eng.oblige(f"{qualname}.raises.{exc_name}.complete#p{pidx}", s,
                               z3.Not(spec_bool(eng, cond, _entry_view(s, pre, params))), "raises")
            pidx += 1
        # exceptional outcomes
        for r in raised:
            cls = r.val.cls
            declared = None
            for exc_name, cond in c.raises.items():
                if issubclass(cls, resolve_exc(eng, fi, exc_name)) and (declared is None):
                    declared = (exc_name, cond)
            s = r.st
            if declared is None:
                eng.cur_line = None
                eng.oblige(f"{qualname}.noraise.{cls.__name__}#p{pidx}", s, z3.BoolVal(False), "noraise")
            else:
                exc_name, cond = declared
                if cond is not None:
                    eng.oblige(f"{qualname}.raises.{exc_name}.sound#p{pidx}", s,
                               spec_bool(eng, cond, _entry_view(s, pre, params)), "raises")
                elif exc_name in c.opts.get("raises_only_if", {}):
                    # an exception declared without an exact condition may still have a NECESSARY one
                    import ast as _ast
                    node = _ast.parse(c.opts["raises_only_if"][exc_name].strip(), mode="eval").body
                    eng.oblige(f"{qualname}.raises.{exc_name}.onlyif#p{pidx}", s,
                               spec_bool(eng, node, _entry_view(s, pre, params)), "raises")
                for k, e in enumerate(c.opts.get("ensures_on_raise", [])):
                    import ast as _ast
                    node = _ast.parse(e.strip(), mode="eval").body
                    s.old = pre
                    eng.oblige(f"{qualname}.onraise.{k}#p{pidx}", s, spec_bool(eng, node, s), "post")
            pidx += 1
    except Unsupported as u:
        rep.status = "unsupported"
        rep.detail = f"{u} (line {eng.cur_line})"
    except Exception as ex:      # engine crash: reported, never a verdict
        rep.status = "error"
        rep.detail = "".join(traceback.format_exception_only(type(ex), ex)).strip() + f" (line {eng.cur_line})"
        rep.trace = traceback.format_exc()
    rep.inlined = sorted(eng.inlined)
    rep.externals = sorted(eng.externals_used)
    discharge(eng, rep, opts or {})
    rep.seconds = time.time() - t0
    rep._engine = eng
    return rep


def _entry_view(s, pre, params):
    """state for evaluating a pre-state condition: parameters as at entry, heap as at entry, but the
    current path condition"""
    return State(Env(dict(params)), pre.heap, s.pc, None, pre.ghost)


def _smoke(qualname, status):
    ob = Obligation(f"{qualname}.smoke.requires_satisfiable", [], z3.BoolVal(True), "smoke")
    ob.smoke_status = status
    return ob


CHEAP = [["z3-mbqi", {}, 1500, 0], ["z3-ematch", smt.EMATCH, 6000, 0], ["z3-mbqi", {}, 6000, 0]]
HINTED = [["z3-mbqi", {}, 3000, 0], ["z3-ematch", smt.EMATCH, 3000, 0], ["z3-mbqi", {}, 10000, 1], ["z3-ematch", smt.EMATCH, 20000, 1]]
SEARCH = [["z3-mbqi", {}, 3000, 0], ["z3-ematch", smt.EMATCH, 6000, 0], ["z3-mbqi", {}, 10000, 1],
          ["z3-ematch", smt.EMATCH, 20000, 1], ["z3-mbqi", {}, 30000, 2], ["z3-ematch", smt.EMATCH, 60000, 3]]


class Query:
    """the SMT-LIB text of one obligation (duplicate assumptions dropped), written once"""

    def __init__(self, tmp, n, ob, subset=None):
        seen = set()
        self.index = []                 # position in ob.pc of every assertion written
        uniq = []
        for i, a in enumerate(ob.pc):
            if a.get_id() in seen or (subset is not None and i not in subset):
                continue
            seen.add(a.get_id())
            self.index.append(i)
            uniq.append(a)
        self.path = os.path.join(tmp, f"q{n}{'h' if subset is not None else ''}.smt2")
        with open(self.path, "w") as f:
            f.write("(set-logic ALL)\n" + smt.to_smt2(uniq, ob.goal))


SOLVER_SLOTS = None      # cross-process semaphore set by cli.verify_many: at most that many solver processes at a time


class _Slot:
    def __enter__(self):
        if SOLVER_SLOTS is not None:
            SOLVER_SLOTS.acquire()

    def __exit__(self, *a):
        if SOLVER_SLOTS is not None:
            SOLVER_SLOTS.release()


def solve_job(path, stages, core=False):
    """run pyvc.solve on the file in a fresh process; any failure of that process is an `unknown`"""
    with _Slot():
        return _solve_job(path, stages, core)


def _solve_job(path, stages, core=False):
    import json
    import subprocess
    import sys
    wall = sum(st[2] for st in stages) * 4 / 1000 + 60
    t0 = time.time()
    try:
        p = subprocess.run([sys.executable, "-m", "pyvc.solve"], input=json.dumps(dict(file=path, stages=stages, core=core)),
                           capture_output=True, text=True, timeout=wall, cwd=os.path.dirname(os.path.dirname(os.path.abspath(__file__))))
        out = json.loads(p.stdout)
    except Exception as ex:
        out = dict(status="unknown", stage=stages[-1][0], seconds=time.time() - t0, reason=f"solver process failed: {type(ex).__name__}", core=None)
    return out


def discharge(eng, rep, opts):
    """Portfolio, budgets in z3 resource units (deterministic): neither quantifier-instantiation mode dominates on these
    VCs (measured: 0.03 s vs unknown, in both directions); only `unsat` discharges.  Every query runs in a process of its
    own (pyvc.solve: fresh z3 context, a solver crash is an `unknown`), `PYVC_THREADS` of them at a time.
    Order: recorded proof hint (hints.py) -> cheap z3 stages -> cvc5 -> long z3 stage."""
    import shutil
    import tempfile
    from concurrent.futures import ThreadPoolExecutor
    from . import cvc5_backend, hints
    timeout = opts.get("timeout_ms", 10000)
    threads = max(1, int(os.environ.get("PYVC_THREADS", "16")))
    only = os.environ.get("PYVC_ONLY")
    hint_data = hints.load(rep.qualname) if opts.get("hints", True) and not os.environ.get("PYVC_NOHINTS") else {}
    keys = dict(zip(map(id, eng.obligations), hints.keys_for(eng.obligations)))
    order = {id(ob): n for n, ob in enumerate(eng.obligations)}
    slots = []          # one dict per obligation, in order
    work = []           # (slot, obligation) still undecided
    for ob in eng.obligations:
        if ob.kind == "smoke":
            st = ob.smoke_status
            slots.append(dict(name=ob.name, kind="smoke", status="unsat" if st != "unsat" else "vacuous",
                              seconds=0.0, backend="z3", line=None, note=f"requires is {st}"))
        elif z3.is_true(ob.goal):
            slots.append(dict(name=ob.name, kind=ob.kind, status="unsat", seconds=0.0, backend="simplifier", line=ob.lineno))
        elif only and not any(x in ob.name for x in only.split(",")):
            slots.append(dict(name=ob.name, kind=ob.kind, status="unsat", seconds=0.0, backend="skipped(debug)", line=ob.lineno))
        else:
            d = dict(name=ob.name, kind=ob.kind, status="unknown", seconds=0.0, backend="z3", line=ob.lineno, reason="")
            slots.append(d)
            work.append((d, ob))
    tmp = tempfile.mkdtemp(prefix="pyvc_", dir=os.environ.get("PYVC_TMP") or "/var/tmp")
    full = {}

    def full_query(ob):
        q = full.get(id(ob))
        if q is None:
            q = full[id(ob)] = Query(tmp, order[id(ob)], ob)
        return q

    def record(d, res, suffix=""):
        d["seconds"] = round(d["seconds"] + res["seconds"], 4)
        if res["status"] != "unknown" or not d.get("reason"):
            d["status"], d["backend"], d["reason"] = res["status"], (res.get("stage") or "z3") + suffix, res.get("reason") or ""

    def run(items, fn, need_full=True):
        """fn(d, ob) -> result dict, for all items in parallel; returns the still undecided items (in order).
        Everything that touches z3 terms (printing the query) happens here, in the main thread; the threads only wait
        for solver processes."""
        if need_full:
            for d, ob in items:
                full_query(ob)
        left = []
        with ThreadPoolExecutor(threads) as ex:
            for (d, ob), res in zip(items, ex.map(lambda it: fn(*it), items)):
                if res is None or res["status"] == "unknown":
                    left.append((d, ob))
        return left

    try:
        # stage 0: the recorded proof hint — a subset of the assumptions, so `unsat` of it is `unsat` of the whole
        if hint_data and work:
            hq = {}
            for d, ob in work:
                h = hint_data.get(keys[id(ob)])
                if h:
                    fps = set(h["fps"])
                    hq[id(ob)] = (Query(tmp, order[id(ob)], ob, {i for i, a in enumerate(ob.pc) if hints.fingerprint(a) in fps}), h)

            def by_hint(d, ob):
                if id(ob) not in hq:
                    return None
                q, h = hq[id(ob)]
                res = solve_job(q.path, HINTED)
                if res["status"] != "unsat" and h.get("via") == "cvc5":
                    with _Slot():
                        r = cvc5_backend.check_file(q.path, 60000)
                    res = dict(status=r.status, stage="cvc5", seconds=res["seconds"] + r.seconds, reason=r.reason)
                if res["status"] == "unsat":
                    record(d, res, "+hint")
                    return res
                d["seconds"] = round(d["seconds"] + res["seconds"], 4)
                return None               # a hint that does not prove is no verdict
            work = run(work, by_hint, need_full=False)
            # second try for what has no (working) hint of its own, e.g. after an edit that renumbered the obligations:
            # the assumptions used by ANY recorded proof of this function (still a subset of the path condition)
            if work and not opts.get("make_hints"):
                union = set()
                for h in hint_data.values():
                    union |= set(h["fps"])
                uq = {id(ob): Query(tmp, f"{order[id(ob)]}u", ob, {i for i, a in enumerate(ob.pc) if hints.fingerprint(a) in union})
                      for d, ob in work}

                def by_union(d, ob):
                    res = solve_job(uq[id(ob)].path, HINTED[:2])
                    if res["status"] == "unsat":
                        record(d, res, "+hints-of-function")
                        return res
                    d["seconds"] = round(d["seconds"] + res["seconds"], 4)
                    return None
                work = run(work, by_union, need_full=False)

        if opts.get("make_hints"):
            make_hints(rep, work, keys, hint_data, run, full_query, record, tmp, order)
            work = []

        def by_cheap(d, ob):
            res = solve_job(full_query(ob).path, CHEAP)
            record(d, res)
            return res
        work = run(work, by_cheap)

        # the expensive stages, a batch at a time: once a batch leaves something undecided the function fails anyway and
        # the rest keeps the verdict of the cheap stages (bounds the time spent on a function that no longer verifies)
        def by_cvc5(d, ob):
            with _Slot():
                r = cvc5_backend.check_file(full_query(ob).path, 90000)
            res = dict(status=r.status, stage="cvc5", seconds=r.seconds, reason=r.reason)
            record(d, res)
            return res

        def by_long(d, ob):
            res = solve_job(full_query(ob).path, [["z3-ematch", smt.EMATCH, timeout, 0]])
            record(d, res)
            return res
        batch = opts.get("full_effort_batch", threads)
        while work:
            cur, work = work[:batch], work[batch:]
            if opts.get("cvc5", True):
                cur = run(cur, by_cvc5)
            cur = run(cur, by_long)
            if cur:
                break
    finally:
        shutil.rmtree(tmp, ignore_errors=True)
    for d in slots:
        if d["status"] == "unsat":
            d.pop("reason", None)
        rep.obligations.append(d)


def make_hints(rep, work, keys, hint_data, run, full_query, record, tmp, order):
    """(maintenance) find an unsat core for every obligation in `work`, check that the core alone proves the obligation
    within the hint budgets, record it.  Obligations already proved through their recorded hint are not in `work`."""
    from . import cvc5_backend, hints
    n_new = [0]

    def search(d, ob):
        q = full_query(ob)
        res = solve_job(q.path, SEARCH, core=True)
        via = "z3"
        core = res.get("core")
        if core is None:
            with _Slot():
                c = cvc5_backend.core_file(q.path, len(q.index), 120000)
            if c is None:
                d["seconds"] = round(d["seconds"] + res["seconds"], 4)
                d["status"], d["reason"], d["backend"] = "unknown", "no proof found for a hint", "hint-search"
                return dict(status="unknown")
            core, via = c, "cvc5"
        d["seconds"] = round(d["seconds"] + res["seconds"], 4)
        found[id(ob)] = ({q.index[i] for i in core}, via)
        return dict(status="unknown")

    found = {}
    all_work = list(work)
    run(work, search)
    # second chance: only the assumptions that some other proof of this function used (sibling obligations have similar
    # proofs; the union of their cores is a fraction of the path condition) -- first those of obligations with the same
    # name up to the invariant number, then all
    def fps_of(pred):
        u = set()
        for d2, ob2 in all_work:
            if id(ob2) in found and pred(ob2):
                u |= {hints.fingerprint(ob2.pc[i]) for i in found[id(ob2)][0]}
        for k, h in hint_data.items():
            if pred_key(pred, k):
                u |= set(h["fps"])
        return u

    def pred_key(pred, k):
        class _O:
            name = k.rsplit("@", 1)[0]
        return pred(_O)
    import re as _re
    stem = lambda name: _re.sub(r"\.(inv|post\.|pre\.)\d+", ".", name)
    for rnd in (0, 1):
        missing = [(d, ob) for d, ob in all_work if id(ob) not in found]
        if not missing:
            break
        sib = {}
        for d, ob in missing:
            u = fps_of((lambda o, st=stem(ob.name): stem(o.name) == st) if rnd == 0 else (lambda o: True))
            sub_idx = {i for i, a in enumerate(ob.pc) if hints.fingerprint(a) in u}
            if sub_idx:
                sib[id(ob)] = Query(tmp, f"{order[id(ob)]}u{rnd}", ob, sub_idx)

        def by_siblings(d, ob):
            q = sib.get(id(ob))
            if q is None:
                return dict(status="unknown")
            res = solve_job(q.path, SEARCH[:4], core=True)
            d["seconds"] = round(d["seconds"] + res["seconds"], 4)
            if res.get("core") is not None:
                found[id(ob)] = ({q.index[i] for i in res["core"]}, "z3")
            return dict(status="unknown")
        run(missing, by_siblings, need_full=False)

    work = [it for it in all_work if id(it[1]) in found]
    first_core = {k: v[0] for k, v in found.items()}
    # re-core once on the core itself (usually much smaller) ...
    sub = {id(ob): Query(tmp, f"{order[id(ob)]}s", ob, found[id(ob)][0]) for d, ob in work}      # main thread

    def recore(d, ob):
        hq = sub[id(ob)]
        r2 = solve_job(hq.path, HINTED, core=True)
        if r2.get("core") is not None and len(r2["core"]) < len(hq.index):
            found[id(ob)] = ({hq.index[i] for i in r2["core"]}, found[id(ob)][1])
        return dict(status="unknown")
    run(work, recore, need_full=False)
    sub = {id(ob): Query(tmp, f"{order[id(ob)]}t", ob, found[id(ob)][0]) for d, ob in work}
    sub1 = {id(ob): Query(tmp, f"{order[id(ob)]}v", ob, first_core[id(ob)]) for d, ob in work if first_core[id(ob)] != found[id(ob)][0]}

    # ... then require the hint budgets to suffice
    def confirm(d, ob):
        hq = sub[id(ob)]
        via = found[id(ob)][1]
        r3 = solve_job(hq.path, HINTED)
        if r3["status"] != "unsat" and id(ob) in sub1:
            # the smaller core was found with tracking literals and does not reprove without them: keep the first one
            hq = sub1[id(ob)]
            r3 = solve_job(hq.path, HINTED)
            if r3["status"] == "unsat":
                found[id(ob)] = (first_core[id(ob)], via)
        if r3["status"] != "unsat":
            with _Slot():
                r = cvc5_backend.check_file(hq.path, 60000)
            if r.status != "unsat":
                d["status"], d["reason"], d["backend"] = "unknown", "core found but not reproved within the hint budget", "hint-search"
                return dict(status="unknown")
            via = "cvc5"
        found[id(ob)] = (found[id(ob)][0], via)
        d["status"], d["backend"], d["reason"] = "unsat", via + "+newhint", ""
        return dict(status="unsat")
    failed = {id(ob) for d, ob in run(work, confirm, need_full=False)}
    for d, ob in work:
        if id(ob) not in failed:
            sel, via = found[id(ob)]
            hint_data[keys[id(ob)]] = dict(fps=sorted({hints.fingerprint(ob.pc[i]) for i in sel}), via=via, n=len(sel), of=len(full_query(ob).index))
            n_new[0] += 1
    live = set(keys.values())
    for k in [k for k in hint_data if k not in live]:
        del hint_data[k]
    hints.save(rep.qualname, hint_data)
    rep.detail = (rep.detail or "") + f" hints: {n_new[0]} new, {len(hint_data)} total"
