"""Symbolic values manipulated by the interpreter.

SV      a first-class Python value: a z3 term of sort Val plus (when known) its static Python type
meta    things that never live in the heap model: functions, classes, modules, lazy sequences,
        exception values, arbitrary concrete Python constants
"""
from __future__ import annotations

import z3

from . import smt
from .smt import VBool, VInt, VNone, VReal, VRef, VStr


class SV:
    __slots__ = ("t", "ty")

    def __init__(self, t, ty=None):
        self.t = t
        self.ty = ty          # 'none','bool','int','float','str','list','tuple','dict','set','obj:<Class>' or None

    def __repr__(self):
        return f"SV({self.t}, {self.ty})"

    @property
    def ref(self):
        return smt.simp(smt.get_ref(self.t))

    @property
    def s(self):
        return smt.simp(smt.get_s(self.t))

    @property
    def i(self):
        return smt.simp(smt.get_i(self.t))

    @property
    def r(self):
        return smt.simp(smt.get_r(self.t))

    @property
    def b(self):
        return smt.simp(smt.get_b(self.t))


def sv_none():
    return SV(VNone, "none")


def sv_bool(b):
    if isinstance(b, bool):
        b = z3.BoolVal(b)
    return SV(VBool(b), "bool")


def sv_int(i):
    if isinstance(i, int):
        i = z3.IntVal(i)
    return SV(VInt(i), "int")


def sv_float(r):
    if isinstance(r, (int, float)):
        r = z3.RealVal(repr(r) if isinstance(r, float) else r)
    return SV(VReal(r), "float")


def sv_str(s):
    if isinstance(s, str):
        s = z3.StringVal(s)
    return SV(VStr(s), "str")


def sv_ref(ref, ty):
    return SV(VRef(ref), ty)


def from_python(obj):
    """literal Python constant -> SV (None if not representable as a first-class value)"""
    if obj is None:
        return sv_none()
    if isinstance(obj, bool):
        return sv_bool(obj)
    if isinstance(obj, int):
        return sv_int(int(obj))
    if isinstance(obj, float):
        return sv_float(obj)
    if isinstance(obj, str):
        return sv_str(obj)
    return None


TAG_OF_TY = {"none": smt.is_none, "bool": smt.is_bool, "int": smt.is_int, "float": smt.is_real,
             "str": smt.is_str}


# ---- meta values --------------------------------------------------------------------------------
class FuncRef:
    def __init__(self, qualname, pyobj=None):
        self.qualname = qualname
        self.pyobj = pyobj

    def __repr__(self):
        return f"FuncRef({self.qualname})"


class ClassRef:
    def __init__(self, pycls):
        self.pycls = pycls

    def __repr__(self):
        return f"ClassRef({self.pycls.__name__})"


class ModuleRef:
    def __init__(self, pymod):
        self.pymod = pymod


class PyConst:
    """an arbitrary concrete Python object (tuple of names, compiled regex, enum member ...)"""
    def __init__(self, obj):
        self.obj = obj

    def __repr__(self):
        return f"PyConst({self.obj!r})"


class Closure:
    def __init__(self, node, env, qualname):
        self.node = node        # ast.FunctionDef or ast.Lambda
        self.env = env          # defining environment (captured by reference, like Python cells)
        self.qualname = qualname


class BoundMeth:
    def __init__(self, recv, name, func=None):
        self.recv = recv        # SV or meta value
        self.name = name
        self.func = func        # FuncRef for methods of repo classes


class SeqView:
    """an immutable logical sequence: length n (Int) and contents arr (Array Int Val)"""
    def __init__(self, n, arr, elem_ty=None, pairs=None):
        self.n = n
        self.arr = arr
        self.elem_ty = elem_ty
        self.pairs = pairs      # for dict.items(): (dict ref, heap) so that targets can be unpacked


class ExcVal:
    def __init__(self, cls, msg=None):
        self.cls = cls          # real Python exception class
        self.msg = msg

    def __repr__(self):
        return f"ExcVal({self.cls.__name__})"


class RefSet:
    """a set of references given by a predicate (frames of unbounded size: `all parameter tokens of this node`)"""
    def __init__(self, pred):
        self.pred = pred


def in_frame(ref, items):
    """z3 Bool: ref is one of the items (z3 Int references or RefSets)"""
    import z3 as _z3
    alts = [(x.pred(ref) if isinstance(x, RefSet) else ref == x) for x in items]
    return _z3.Or(alts) if alts else _z3.BoolVal(False)


class SuperRef:
    """super() inside a method: attribute look-up continues after `cls` in the MRO of the receiver's class"""
    def __init__(self, recv, cls):
        self.recv = recv
        self.cls = cls
