"""Models of built-in functions and of the methods of built-in types (trusted encoding, X-STD)."""
from __future__ import annotations

import ast
import string as _string

import z3

from . import smt
from .engine import Unsupported
from .heap import TYP, class_id
from .models import (PairVal, StarArg, contains, expand_star, format_value, kind_of, list_extend,
                     norm_index)
from .smt import (VBool, VInt, VNone, VReal, VRef, VStr, Val, fresh, get_b, get_i, get_r, get_ref,
                  get_s, is_bool, is_int, is_none, is_real, is_ref, is_str)
from .values import (SV, BoundMeth, ClassRef, Closure, ExcVal, FuncRef, ModuleRef, PyConst, SeqView,
                     from_python, sv_bool, sv_float, sv_int, sv_none, sv_ref, sv_str)

# uninterpreted helpers ------------------------------------------------------------------------------
JOIN = z3.Function("str_join", smt.S, smt.ArrIV, smt.I, smt.S)
SPLIT_N = z3.Function("str_split_n", smt.S, smt.I)
SPLIT_AT = z3.Function("str_split_at", smt.S, smt.ArrIV)
STRIP = z3.Function("str_strip", smt.S, smt.S, smt.I, smt.S)       # (s, chars, mode 0=l 1=r 2=both)
REPLACE_ALL = z3.Function("str_replace_all", smt.S, smt.S, smt.S, smt.S)
SUMV = z3.Function("sum_vals", smt.ArrIV, smt.I, smt.R)            # sum of the first n numeric Vals
PERM = z3.Function("sorted_perm", smt.I, smt.I, smt.I)             # (result ref, j) -> source index
STR_UPPER = z3.Function("str_misc", smt.S, smt.S, smt.S)           # (method name, s) for the rest


class View(SeqView):
    """SeqView whose elements are computed by a Python callback (enumerate, items, zip)"""
    def __init__(self, n, at):
        super().__init__(n, None)
        self.at = at


def elem_at(eng, s, view, i):
    if isinstance(view, View):
        return view.at(s, i)
    return SV(smt.simp(z3.Select(view.arr, i)), view.elem_ty)


def materialise(eng, s, v):
    if isinstance(v, PairVal):
        return eng.new_list_of(s, [materialise(eng, s, v.a), materialise(eng, s, v.b)], "tuple")
    return eng.as_val(s, v)


def plain_view(eng, s, x):
    """view of an iterable as a plain SeqView of Vals (no pairs)"""
    if isinstance(x, View):
        raise Unsupported("pair view used as plain sequence")
    return eng.seq_of(s, x)


def apply_pure(eng, s, f, args):
    """call a closure / function value on args and demand a single, exception-free, heap-preserving outcome"""
    from .models import call_value
    eng.raised.append([])
    try:
        s2 = s.copy()
        res = call_value(eng, f, list(args), {}, s2)
    finally:
        raised = eng.raised.pop()
    if raised:
        # exceptional outcomes are only acceptable if infeasible
        for r in raised:
            if eng.feasible(r.st):
                raise Unsupported("key/closure may raise")
    if len(res) != 1:
        if not res:
            raise Unsupported("closure has no normal outcome")
        # merge by ite on path conditions is not attempted
        raise Unsupported("closure with several paths")
    v, s3 = res[0]
    return v, s3


# ---------------------------------------------------------------------------------------------------
# functions
# ---------------------------------------------------------------------------------------------------
def f_len(eng, s, args, kw):
    (x,) = args
    if isinstance(x, SeqView):
        return [(sv_int(x.n), s)]
    if isinstance(x, PyConst):
        return [(sv_int(len(x.obj)), s)]
    x = eng.as_val(s, x)
    k = kind_of(eng, x)
    if x.ty is not None and x.ty.startswith("obj:"):
        f = eng.reg.method(x.ty[4:], "__len__")
        if f is not None:
            from .models import call_value
            return call_value(eng, BoundMeth(x, "__len__", f), [], {}, s)
    if k is None and x.ty is None and eng.spec:
        r = get_ref(x.t)
        is_l = z3.Or(TYP(r) == class_id("list"), TYP(r) == class_id("tuple"))
        return [(sv_int(z3.If(is_str(x.t), z3.Length(get_s(x.t)), z3.If(is_l, s.heap.llen(r), s.heap.dlen(r)))), s)]
    if k is None and x.ty is None:
        t = eng.static_ty(s, x, ["list", "tuple", "dict", "str", "set"])
        if t is None:
            raise Unsupported("len of unknown type")
        x = eng.with_ty(s, x, t)
        k = t
    h = s.heap
    if k in ("list", "tuple"):
        s.assume(h.llen(x.ref) >= 0)
        return [(sv_int(h.llen(x.ref)), s)]
    if k in ("dict", "set"):
        s.assume(*h.dict_wf(x.ref))
        return [(sv_int(h.dlen(x.ref)), s)]
    if k == "str":
        return [(sv_int(z3.Length(get_s(x.t))), s)]
    eng.raise_exc(s, TypeError)
    return []


def f_list(eng, s, args, kw, kind="list"):
    if not args:
        return [(eng.new_list(s, z3.IntVal(0), z3.K(smt.I, VNone), kind), s)]
    (x,) = args
    if isinstance(x, View):
        n = smt.simp(x.n)
        if z3.is_int_value(n):
            items = [materialise(eng, s, x.at(s, z3.IntVal(j))) for j in range(n.as_long())]
            return [(eng.new_list_of(s, items, kind), s)]
        return [(materialise_view(eng, s, x, kind), s)]
    seq = eng.seq_of(s, x)
    s.assume(seq.n >= 0)
    return [(eng.new_list(s, seq.n, seq.arr, kind, seq.elem_ty), s)]


def materialise_view(eng, s, view, kind="list"):
    """list(enumerate(..)) / list(d.items()) of symbolic length: n new 2-tuples in one allocation block"""
    n = view.n
    base = s.heap.alloc
    tref = z3.Function(smt.fresh_name("pair_tuple"), smt.I, smt.I)
    i = z3.Int("mv_i")
    h = s.heap.copy()
    h.alloc = fresh("mv_alloc", smt.I)
    s.heap = h
    probe = view.at(s, i)
    a_t, b_t = materialise(eng, s, probe.a).t, materialise(eng, s, probe.b).t
    s.assume(n >= 0, h.alloc == base + n,
             z3.ForAll([i], z3.Implies(z3.And(0 <= i, i < n),
                                       z3.And(tref(i) == base + i, TYP(tref(i)) == class_id("tuple"), h.llen(tref(i)) == 2,
                                              h.lget(tref(i), 0) == a_t, h.lget(tref(i), 1) == b_t)),
                       patterns=[tref(i)]))
    arr = fresh("mv_arr", smt.ArrIV)
    s.assume(z3.ForAll([i], z3.Implies(z3.And(0 <= i, i < n), z3.Select(arr, i) == VRef(tref(i))), patterns=[z3.Select(arr, i)]))
    return eng.new_list(s, n, arr, kind, "tuple")


def f_tuple(eng, s, args, kw):
    return f_list(eng, s, args, kw, "tuple")


def f_set(eng, s, args, kw):
    d = eng.new_dict(s, "set")
    if not args:
        return [(d, s)]
    seq = plain_view(eng, s, args[0])
    return [(set_from_seq(eng, s, seq), s)]


def set_from_seq(eng, s, seq):
    """fresh set with membership = elements of seq; order of first occurrence"""
    ref = eng.alloc(s, "set")
    h, d = s.heap.fresh_dict_at(ref, "set")
    s.heap = h
    kk = z3.Const("sk", Val)
    i = z3.Int("si")
    first = z3.Function(smt.fresh_name("set_first"), Val, smt.I)
    s.assume(*d.wf())
    s.assume(d.n <= seq.n, seq.n >= 0,
             z3.ForAll([i], z3.Implies(z3.And(0 <= i, i < seq.n), d.has(z3.Select(seq.arr, i))),
                       patterns=[z3.Select(seq.arr, i)]),
             z3.ForAll([kk], z3.Implies(d.has(kk), z3.And(0 <= first(kk), first(kk) < seq.n,
                                                          z3.Select(seq.arr, first(kk)) == kk)),
                       patterns=[d.has(kk)]))
    return sv_ref(ref, "set")


def f_dict(eng, s, args, kw):
    if args or kw:
        raise Unsupported("dict(...) with arguments")
    return [(eng.new_dict(s), s)]


def f_str(eng, s, args, kw):
    if not args:
        return [(sv_str(""), s)]
    return [(sv_str(smt.simp(format_value(eng, s, args[0], None, None))), s)]


def f_repr(eng, s, args, kw):
    return [(sv_str(format_value(eng, s, args[0], None, "r")), s)]


def tokens_are_str(eng):
    """contracts of functions that read lark Tokens as the strs they are (str(t), float(t), int(t)) ask for it with
    opts={"token_is_str": True}; elsewhere an untyped value is never taken for a Token (the terms stay as they were
    when the recorded proof hints were made)"""
    c = getattr(eng, "contract", None)
    return bool(c is not None and c.opts.get("token_is_str"))


def float_parts(eng, x: SV):
    """(ok condition, real value) of float(x)"""
    if x.ty == "str":
        return smt.float_ok(get_s(x.t)), smt.float_of(get_s(x.t)), ValueError
    if x.ty == "obj:Token":
        t = smt.TOKTEXT(smt.get_ref(x.t))
        return smt.float_ok(t), smt.float_of(t), ValueError
    if x.ty == "float":
        return z3.BoolVal(True), get_r(x.t), None
    if x.ty in ("int", "bool"):
        return z3.BoolVal(True), eng.num_real(x), None
    if x.ty is None:
        tok = eng.ty_cond(x, "obj:Token") if tokens_are_str(eng) else z3.BoolVal(False)
        tt = smt.TOKTEXT(smt.get_ref(x.t))
        if not tokens_are_str(eng):
            ok = z3.Or(z3.And(is_str(x.t), smt.float_ok(get_s(x.t))), is_real(x.t), is_int(x.t), is_bool(x.t))
            val = z3.If(is_str(x.t), smt.float_of(get_s(x.t)), eng.num_real(x))
            return ok, val, None
        ok = z3.Or(z3.And(is_str(x.t), smt.float_ok(get_s(x.t))), z3.And(tok, smt.float_ok(tt)), is_real(x.t), is_int(x.t), is_bool(x.t))
        val = z3.If(is_str(x.t), smt.float_of(get_s(x.t)), z3.If(tok, smt.float_of(tt), eng.num_real(x)))
        return ok, val, None
    return z3.BoolVal(False), z3.RealVal(0), TypeError


def f_float(eng, s, args, kw):
    (x,) = args
    x = eng.as_val(s, x)
    ok, val, exc = float_parts(eng, x)
    if eng.spec:
        return [(sv_float(val), s)]
    good, bad = eng.branch(s, ok)
    if bad is not None:
        if x.ty is None:
            # str that is not a number -> ValueError ; other types -> TypeError
            b1, b2 = eng.branch(bad, z3.Or(is_str(x.t), eng.ty_cond(x, "obj:Token")) if tokens_are_str(eng) else is_str(x.t))
            if b1 is not None:
                eng.raise_exc(b1, ValueError)
            if b2 is not None:
                eng.raise_exc(b2, TypeError)
        else:
            eng.raise_exc(bad, exc or TypeError)
    return [(sv_float(val), good)] if good is not None else []


def f_int(eng, s, args, kw):
    (x,) = args
    x = eng.as_val(s, x)
    if x.ty is None:
        tok = eng.ty_cond(x, "obj:Token")
        tt = smt.TOKTEXT(smt.get_ref(x.t))
        if tokens_are_str(eng):
            ok = z3.Or(z3.And(is_str(x.t), smt.int_ok(get_s(x.t))), z3.And(tok, smt.int_ok(tt)), is_int(x.t))
            val = z3.If(is_str(x.t), smt.int_of(get_s(x.t)), z3.If(tok, smt.int_of(tt), get_i(x.t)))
        else:
            tok = z3.BoolVal(False)
            ok = z3.Or(z3.And(is_str(x.t), smt.int_ok(get_s(x.t))), is_int(x.t))
            val = z3.If(is_str(x.t), smt.int_of(get_s(x.t)), get_i(x.t))
        if eng.spec:
            return [(sv_int(val), s)]
        good, bad = eng.branch(s, ok)
        if bad is not None:
            b1, b2 = eng.branch(bad, z3.Or(is_str(x.t), tok) if tokens_are_str(eng) else is_str(x.t))
            if b1 is not None:
                eng.raise_exc(b1, ValueError)
            if b2 is not None:
                eng.raise_exc(b2, TypeError)
        return [(sv_int(val), good)] if good is not None else []
    if x.ty == "int":
        return [(x, s)]
    if x.ty == "obj:Token":
        x = sv_str(smt.TOKTEXT(smt.get_ref(x.t)))
    if x.ty == "str":
        if eng.spec:
            return [(sv_int(smt.int_of(get_s(x.t))), s)]
        good, bad = eng.branch(s, smt.int_ok(get_s(x.t)))
        if bad is not None:
            eng.raise_exc(bad, ValueError)
        return [(sv_int(smt.int_of(get_s(x.t))), good)] if good is not None else []
    raise Unsupported(f"int() of {x.ty}")


def f_bool(eng, s, args, kw):
    return [(sv_bool(eng.truth(s, args[0])), s)]


def f_isinstance(eng, s, args, kw):
    x, c = args
    classes = []
    if isinstance(c, ClassRef):
        classes = [c.pycls]
    elif isinstance(c, PyConst) and isinstance(c.obj, tuple):
        classes = list(c.obj)
    elif isinstance(c, SV) and c.ty == "tuple":
        raise Unsupported("isinstance with heap tuple")
    else:
        raise Unsupported("isinstance classes")
    if isinstance(x, (ExcVal,)):
        return [(sv_bool(any(issubclass(x.cls, k) for k in classes)), s)]
    if isinstance(x, SeqView):
        return [(sv_bool(False), s)]
    x = eng.as_val(s, x)
    conds = []
    for k in classes:
        ty = eng.reg.ty_of_class(k)
        if ty == "int":
            conds.append(z3.Or(eng.ty_cond(x, "int"), eng.ty_cond(x, "bool")) if x.ty is None else z3.BoolVal(x.ty in ("int", "bool")))
        elif x.ty is not None and not ty.startswith("obj:") and not x.ty.startswith("obj:"):
            conds.append(z3.BoolVal(x.ty == ty))
        elif x.ty is not None and x.ty.startswith("obj:") and not ty.startswith("obj:"):
            conds.append(z3.BoolVal(eng.reg.class_kind(x.ty[4:]) == ty))
        else:
            conds.append(eng.ty_cond(x, ty))
    return [(sv_bool(smt.simp(z3.Or(conds))), s)]


def f_enumerate(eng, s, args, kw):
    base = eng.seq_of(s, args[0])
    start = get_i(eng.as_val(s, args[1]).t) if len(args) > 1 else (get_i(eng.as_val(s, kw["start"]).t) if "start" in kw else z3.IntVal(0))
    return [(View(base.n, lambda st, i: PairVal(sv_int(smt.simp(i + start)), elem_at(eng, st, base, i))), s)]


def f_zip(eng, s, args, kw):
    if len(args) != 2:
        raise Unsupported("zip arity")
    a, b = eng.seq_of(s, args[0]), eng.seq_of(s, args[1])
    n = z3.If(a.n < b.n, a.n, b.n)
    return [(View(smt.simp(n), lambda st, i: PairVal(elem_at(eng, st, a, i), elem_at(eng, st, b, i))), s)]


def f_reversed(eng, s, args, kw):
    base = plain_view(eng, s, args[0])
    arr = fresh("rev", smt.ArrIV)
    i = z3.Int("rv_i")
    s.assume(z3.ForAll([i], z3.Implies(z3.And(0 <= i, i < base.n), z3.Select(arr, i) == z3.Select(base.arr, base.n - 1 - i)),
                       patterns=[z3.Select(arr, i)]))
    return [(SeqView(base.n, arr, base.elem_ty), s)]


def f_range(eng, s, args, kw):
    vals = [get_i(eng.as_val(s, a).t) for a in args]
    if len(vals) == 1:
        lo, hi = z3.IntVal(0), vals[0]
    elif len(vals) == 2:
        lo, hi = vals
    else:
        raise Unsupported("range with step")
    n = smt.simp(z3.If(hi > lo, hi - lo, 0))
    return [(View(n, lambda st, i: sv_int(smt.simp(lo + i))), s)]


def f_sorted(eng, s, args, kw):
    seq = eng.seq_of(s, args[0])
    if isinstance(seq, View):
        raise Unsupported("sorted of pair view")
    key = kw.get("key")
    rev = kw.get("reverse")
    if rev is not None:
        raise Unsupported("sorted(reverse=...)")
    n = seq.n
    res = fresh("sorted", smt.ArrIV)
    out = eng.new_list(s, n, res, "list", seq.elem_ty)
    ref = out.ref
    j, k = z3.Ints("so_j so_k")
    perm = lambda x: PERM(ref, x)
    inv = z3.Function(smt.fresh_name("sorted_inv"), smt.I, smt.I)
    s.assume(n >= 0,
             z3.ForAll([j], z3.Implies(z3.And(0 <= j, j < n),
                                       z3.And(0 <= perm(j), perm(j) < n, inv(perm(j)) == j,
                                              z3.Select(res, j) == z3.Select(seq.arr, perm(j)))),
                       patterns=[z3.Select(res, j), perm(j)]),
             z3.ForAll([j], z3.Implies(z3.And(0 <= j, j < n), z3.And(0 <= inv(j), inv(j) < n, perm(inv(j)) == j)),
                       patterns=[inv(j)]))
    # ordering
    x = z3.Const("so_x", Val)
    if key is None:
        keyterm = lambda t: t
        kty = seq.elem_ty
    else:
        try:
            kv, _ = apply_pure(eng, s, key, [SV(x, seq.elem_ty)])
        except Unsupported:
            # the key is not a total single-path function of an arbitrary value: apply it to the element at an arbitrary
            # position instead; it must not raise there (else unsupported, as before).  The result is then only known to
            # be a permutation of the input: no ordering facts are assumed (weaker, sound)
            from .models import call_value
            pos = fresh("so_pos", smt.I)
            sp = s.copy()
            sp.assume(0 <= pos, pos < n)
            eng.raised.append([])
            try:
                call_value(eng, key, [SV(z3.Select(seq.arr, pos), seq.elem_ty)], {}, sp)
            finally:
                raised = eng.raised.pop()
            for r in raised:
                if eng.feasible(r.st):
                    raise Unsupported("sorted key may raise on an element")
            return [(out, s)]
        kv = eng.as_val(s, kv)
        kty = kv.ty
        keyterm = lambda t: z3.substitute(kv.t, (x, t))
    a, b = keyterm(z3.Select(res, j)), keyterm(z3.Select(res, k))
    if kty == "str":
        le = get_s(a) <= get_s(b)
        eq = get_s(a) == get_s(b)
    elif kty in ("float", "int"):
        le = eng.num_real(SV(a, kty)) <= eng.num_real(SV(b, kty))
        eq = eng.num_real(SV(a, kty)) == eng.num_real(SV(b, kty))
    else:
        le = z3.If(z3.And(is_str(a), is_str(b)), get_s(a) <= get_s(b),
                   eng.num_real(SV(a)) <= eng.num_real(SV(b)))
        eq = a == b
    s.assume(z3.ForAll([j, k], z3.Implies(z3.And(0 <= j, j < k, k < n),
                                          z3.And(le, z3.Implies(eq, perm(j) < perm(k)))),
                       patterns=[z3.MultiPattern(z3.Select(res, j), z3.Select(res, k))]))
    # a permutation keeps every multiplicity (what "sorted returns a permutation" means for counting; the bijection above
    # implies it, but only by an induction no SMT solver performs)
    from contracts.decay_model import CNT, cnt_facts
    xx = z3.Const("so_c", Val)
    s.assume(*cnt_facts(res, n))
    s.assume(z3.ForAll([xx], CNT(res, n, xx) == CNT(seq.arr, n, xx), patterns=[CNT(res, n, xx)]))
    return [(out, s)]


def f_type(eng, s, args, kw):
    """type(x) with one argument, only ever formatted into a message here: an opaque value"""
    if len(args) != 1 or kw:
        raise Unsupported("type() with three arguments")
    return [(SV(fresh("type_of", Val), None), s)]


def f_max(eng, s, args, kw, is_max=True):
    if len(args) == 2 and not kw:
        a, b = eng.as_val(s, args[0]), eng.as_val(s, args[1])
        if a.ty == "int" and b.ty == "int":
            c = get_i(a.t) >= get_i(b.t) if is_max else get_i(a.t) <= get_i(b.t)
            return [(sv_int(z3.If(c, get_i(a.t), get_i(b.t))), s)]
        c = eng.num_real(a) >= eng.num_real(b) if is_max else eng.num_real(a) <= eng.num_real(b)
        return [(SV(z3.If(c, a.t, b.t), a.ty if a.ty == b.ty else None), s)]
    raise Unsupported("max/min over iterable")


def f_min(eng, s, args, kw):
    return f_max(eng, s, args, kw, False)


def f_sum(eng, s, args, kw):
    seq = plain_view(eng, s, args[0])
    if len(args) > 1:
        raise Unsupported("sum with start")
    return [(SV(VReal(SUMV(seq.arr, seq.n)), "float"), s)]


def f_any(eng, s, args, kw, is_any=True):
    seq = plain_view(eng, s, args[0])
    i = fresh("any_i", smt.I)
    t = eng.truth(s, SV(z3.Select(seq.arr, i), seq.elem_ty))
    if is_any:
        return [(sv_bool(z3.Exists([i], z3.And(0 <= i, i < seq.n, t))), s)]
    return [(sv_bool(z3.ForAll([i], z3.Implies(z3.And(0 <= i, i < seq.n), t))), s)]


def f_all(eng, s, args, kw):
    return f_any(eng, s, args, kw, False)


def f_iter(eng, s, args, kw):
    x = args[0]
    if isinstance(x, SeqView):
        return [(x, s)]
    return [(eng.seq_of(s, x), s)]


def f_next(eng, s, args, kw):
    v = args[0]
    if not isinstance(v, SeqView):
        raise Unsupported("next() of non-iterator")
    if eng.spec:
        return [(elem_at(eng, s, v, z3.IntVal(0)), s)]
    ok, bad = eng.branch(s, v.n > 0)
    if bad is not None:
        eng.raise_exc(bad, StopIteration)
    return [(elem_at(eng, ok, v, z3.IntVal(0)), ok)] if ok is not None else []


def f_print(eng, s, args, kw):
    if kw:
        raise Unsupported("print with keywords")
    parts = [format_value(eng, s, a, None, None) for a in args]
    line = parts[0] if parts else z3.StringVal("")
    for p in parts[1:]:
        line = z3.Concat(line, z3.StringVal(" "), p)
    n, arr = s.ghost.get("stdout", (z3.IntVal(0), z3.K(smt.I, VNone)))
    s.ghost["stdout"] = (smt.simp(n + 1), z3.Store(arr, n, VStr(line)))
    return [(sv_none(), s)]


def f_warn(eng, s, args, kw):
    return [(sv_none(), s)]          # ghost warning log that no obligation reads (DESIGN 2.1)


def f_abs(eng, s, args, kw):
    x = eng.as_val(s, args[0])
    r = eng.num_real(x)
    return [(sv_float(z3.If(r >= 0, r, -r)), s)]


def f_super(eng, s, args, kw):
    from .values import SuperRef
    if args:
        raise Unsupported("super() with arguments")
    recv, _ = s.env.lookup("self")
    if recv is None:
        recv, _ = s.env.lookup("cls")
    if recv is None or eng.fi.cls_name is None:
        raise Unsupported("super() outside a method")
    return [(SuperRef(recv, getattr(eng.fi.module, eng.fi.cls_name)), s)]


def f_callable_unsupported(name):
    def f(eng, s, args, kw):
        raise Unsupported(f"builtin {name}")
    return f


FUNCS = {
    "len": f_len, "list": f_list, "tuple": f_tuple, "set": f_set, "dict": f_dict, "str": f_str,
    "repr": f_repr, "float": f_float, "int": f_int, "bool": f_bool, "isinstance": f_isinstance,
    "enumerate": f_enumerate, "zip": f_zip, "reversed": f_reversed, "range": f_range,
    "sorted": f_sorted, "type": f_type, "max": f_max, "min": f_min, "sum": f_sum, "any": f_any, "all": f_all,
    "iter": f_iter, "next": f_next, "print": f_print, "abs": f_abs,
    "warnings.warn": f_warn, "_warnings.warn": f_warn, "super": f_super,
}


# ---------------------------------------------------------------------------------------------------
# methods of built-in types
# ---------------------------------------------------------------------------------------------------
def call_method(eng, recv, name, args, kw, s):
    if isinstance(recv, SeqView):
        raise Unsupported(f"method {name} on lazy sequence")
    if isinstance(recv, PyConst):
        ext = eng.reg.const_method(recv.obj, name)
        if ext is not None:
            return ext(eng, recv, args, kw, s)
        raise Unsupported(f"method {name} of constant {type(recv.obj).__name__}")
    recv = eng.as_val(s, recv)
    k = kind_of(eng, recv) or recv.ty
    m = METHODS.get((k, name))
    if m is None:
        raise Unsupported(f"method {k}.{name}")
    return m(eng, s, recv, args, kw)


def m_list_append(eng, s, l, args, kw):
    h = s.heap
    n = h.llen(l.ref)
    eng.check_write(s, l.ref, "list")
    s.assume(n >= 0)
    x = materialise(eng, s, args[0]).t
    new_elems = z3.Store(h.lelems(l.ref), n, x)
    s.heap = h.set_list(l.ref, n + 1, new_elems)
    # ground instance (a tautology of the array theory) that gives quantifier triggers the new last element
    s.assume(z3.Select(new_elems, n) == x)
    return [(sv_none(), s)]


def m_list_extend(eng, s, l, args, kw):
    return list_extend(eng, l, args[0], s)


def m_list_count(eng, s, l, args, kw):
    raise Unsupported("list.count")


def m_list_index(eng, s, l, args, kw):
    h = s.heap
    x = eng.as_val(s, args[0])
    n = h.llen(l.ref)
    idx = fresh("idx", smt.I)
    i = z3.Int("ix_i")
    found = z3.And(0 <= idx, idx < n, h.lget(l.ref, idx) == x.t,
                   z3.ForAll([i], z3.Implies(z3.And(0 <= i, i < idx), h.lget(l.ref, i) != x.t)))
    ex = z3.Exists([i], z3.And(0 <= i, i < n, h.lget(l.ref, i) == x.t))
    ok, bad = eng.branch(s, ex)
    if bad is not None:
        eng.raise_exc(bad, ValueError)
    if ok is None:
        return []
    ok.assume(found)
    return [(sv_int(idx), ok)]


def m_list_pop(eng, s, l, args, kw):
    h = s.heap
    n = h.llen(l.ref)
    if args:
        idx = norm_index(n, get_i(eng.as_val(s, args[0]).t))
    else:
        idx = n - 1
    ok, bad = eng.branch(s, z3.And(0 <= idx, idx < n))
    if bad is not None:
        eng.raise_exc(bad, IndexError)
    if ok is None:
        return []
    eng.check_write(ok, l.ref, "list")
    old = h.lelems(l.ref)
    val = z3.Select(old, idx)
    arr = fresh("pop", smt.ArrIV)
    i = z3.Int("pp_i")
    ok.assume(z3.ForAll([i], z3.Select(arr, i) == z3.If(i < idx, z3.Select(old, i), z3.Select(old, i + 1)),
                        patterns=[z3.Select(arr, i)]))
    ok.heap = ok.heap.set_list(l.ref, n - 1, arr)
    return [(SV(val), ok)]


def m_list_remove(eng, s, l, args, kw):
    """l.remove(x): deletes the FIRST element equal to x (by value for str/number, identity for objects), ValueError if none"""
    h = s.heap
    x = eng.as_val(s, args[0])
    n = h.llen(l.ref)
    old = h.lelems(l.ref)
    i = z3.Int("rm_i")
    ex = z3.Exists([i], z3.And(0 <= i, i < n, z3.Select(old, i) == x.t))
    ok, bad = eng.branch(s, ex)
    if bad is not None:
        eng.raise_exc(bad, ValueError)
    if ok is None:
        return []
    idx = fresh("rm_idx", smt.I)
    ok.assume(0 <= idx, idx < n, z3.Select(old, idx) == x.t,
              z3.ForAll([i], z3.Implies(z3.And(0 <= i, i < idx), z3.Select(old, i) != x.t), patterns=[z3.Select(old, i)]))
    eng.check_write(ok, l.ref, "list")
    arr = fresh("rm", smt.ArrIV)
    ok.assume(z3.ForAll([i], z3.Select(arr, i) == z3.If(i < idx, z3.Select(old, i), z3.Select(old, i + 1)), patterns=[z3.Select(arr, i)]))
    # the same fact read from the old positions (gives "x is still in the list" its witness)
    ok.assume(z3.ForAll([i], z3.And(z3.Implies(i < idx, z3.Select(arr, i) == z3.Select(old, i)),
                                    z3.Implies(i > idx, z3.Select(arr, i - 1) == z3.Select(old, i))), patterns=[z3.Select(old, i)]))
    ok.heap = ok.heap.set_list(l.ref, n - 1, arr)
    return [(sv_none(), ok)]


def m_list_insert(eng, s, l, args, kw):
    h = s.heap
    n = h.llen(l.ref)
    pos = get_i(eng.as_val(s, args[0]).t)
    pos = z3.If(pos < 0, z3.If(n + pos < 0, 0, n + pos), z3.If(pos > n, n, pos))
    eng.check_write(s, l.ref, "list")
    old = h.lelems(l.ref)
    arr = fresh("ins", smt.ArrIV)
    i = z3.Int("in_i")
    x = materialise(eng, s, args[1]).t
    s.assume(z3.ForAll([i], z3.Select(arr, i) == z3.If(i < pos, z3.Select(old, i),
                                                        z3.If(i == pos, x, z3.Select(old, i - 1))),
                       patterns=[z3.Select(arr, i)]))
    s.heap = s.heap.set_list(l.ref, n + 1, arr)
    return [(sv_none(), s)]


def m_dict_get(eng, s, d, args, kw):
    h = s.heap
    k = eng.as_val(s, args[0])
    dflt = eng.as_val(s, args[1]).t if len(args) > 1 else VNone
    s.assume(*h.dict_wf(d.ref))
    return [(SV(z3.If(h.dhas(d.ref, k.t), h.dget(d.ref, k.t), dflt), None), s)]


def m_dict_items(eng, s, d, args, kw):
    h = s.heap
    s.assume(*h.dict_wf(d.ref))
    ref = d.ref
    return [(View(h.dlen(ref), lambda st, i: PairVal(SV(smt.simp(z3.Select(st.heap.dkeys(ref), i))),
                                                       SV(st.heap.dget(ref, z3.Select(st.heap.dkeys(ref), i))))), s)]


def m_dict_keys(eng, s, d, args, kw):
    h = s.heap
    s.assume(*h.dict_wf(d.ref))
    v = SeqView(h.dlen(d.ref), h.dkeys(d.ref))
    v.keys_of = d.ref           # set-like comparisons of a keys view (d.keys() >= {...}) need the dictionary
    return [(v, s)]


def m_dict_values(eng, s, d, args, kw):
    h = s.heap
    s.assume(*h.dict_wf(d.ref))
    ref = d.ref
    n = smt.simp(h.dlen(ref))
    if z3.is_int_value(n) and n.as_long() <= 8:
        arr = z3.K(smt.I, VNone)
        for j in range(n.as_long()):
            arr = z3.Store(arr, j, smt.simp(h.dget(ref, smt.simp(z3.Select(h.dkeys(ref), j)))))
        return [(SeqView(n, arr), s)]
    arr = fresh("vals", smt.ArrIV)
    i = z3.Int("dv_i")
    s.assume(z3.ForAll([i], z3.Implies(z3.And(0 <= i, i < h.dlen(ref)),
                                       z3.Select(arr, i) == h.dget(ref, z3.Select(h.dkeys(ref), i))),
                       patterns=[z3.Select(arr, i)]))
    return [(SeqView(h.dlen(ref), arr), s)]


def dict_merge(eng, s, d, other):
    """d.update(other) for a dict `other` of symbolic size: keys of d (order kept) then the new keys of other in
    other's order; values of other win"""
    h = s.heap
    s.assume(*h.dict_wf(d.ref))
    s.assume(*h.dict_wf(other.ref))
    eng.check_write(s, d.ref, "dict")
    from .heap import DictComps
    old = DictComps(h.dlen(d.ref), h.dkeys(d.ref), h._get("dhas", d.ref), h._get("didx", d.ref), h._get("dval", d.ref))
    oth = DictComps(h.dlen(other.ref), h.dkeys(other.ref), h._get("dhas", other.ref), h._get("didx", other.ref), h._get("dval", other.ref))
    hh, new = h.fresh_dict_at(d.ref, "upd")
    s.heap = hh
    k = z3.Const("up_k", Val)
    k2 = z3.Const("up_k2", Val)
    i = z3.Int("up_i")
    s.assume(*new.wf())
    s.assume(z3.ForAll([k], new.has(k) == z3.Or(old.has(k), oth.has(k)), patterns=[new.has(k)]),
             z3.ForAll([k], new.val(k) == z3.If(oth.has(k), oth.val(k), old.val(k)), patterns=[new.val(k)]),
             z3.ForAll([k], z3.Implies(old.has(k), new.idx(k) == old.idx(k)), patterns=[new.idx(k)]),
             z3.ForAll([i], z3.Implies(z3.And(0 <= i, i < old.n), new.key(i) == old.key(i)), patterns=[new.key(i)]),
             new.n >= old.n, new.n <= old.n + oth.n,
             z3.ForAll([k, k2], z3.Implies(z3.And(oth.has(k), oth.has(k2), z3.Not(old.has(k)), z3.Not(old.has(k2))),
                                           (new.idx(k) < new.idx(k2)) == (oth.idx(k) < oth.idx(k2))),
                       patterns=[z3.MultiPattern(new.idx(k), new.idx(k2))]))
    return [(sv_none(), s)]


def m_dict_pop(eng, s, d, args, kw):
    h = s.heap
    k = eng.as_val(s, args[0])
    s.assume(*h.dict_wf(d.ref))
    has = h.dhas(d.ref, k.t)
    if len(args) > 1:
        raise Unsupported("dict.pop with default")
    ok, bad = eng.branch(s, has)
    if bad is not None:
        eng.raise_exc(bad, KeyError)
    if ok is None:
        return []
    h = ok.heap
    val = h.dget(d.ref, k.t)
    eng.check_write(ok, d.ref, "dict")
    from .heap import DictComps
    old = DictComps(h.dlen(d.ref), h.dkeys(d.ref), h._get("dhas", d.ref), h._get("didx", d.ref), h._get("dval", d.ref))
    hh, new = h.fresh_dict_at(d.ref, "pop")
    ok.heap = hh
    x = z3.Const("pp_k", Val)
    x2 = z3.Const("pp_k2", Val)
    ok.assume(*new.wf())
    ok.assume(new.n == old.n - 1,
              z3.ForAll([x], new.has(x) == z3.And(old.has(x), x != k.t), patterns=[new.has(x)]),
              z3.ForAll([x], z3.Implies(x != k.t, new.val(x) == old.val(x)), patterns=[new.val(x)]),
              z3.ForAll([x, x2], z3.Implies(z3.And(new.has(x), new.has(x2)), (new.idx(x) < new.idx(x2)) == (old.idx(x) < old.idx(x2))),
                        patterns=[z3.MultiPattern(new.idx(x), new.idx(x2))]))
    return [(SV(val), ok)]


def m_dict_update(eng, s, d, args, kw):
    other = eng.as_val(s, args[0]) if args else None
    if other is None and set(kw) == {"**"}:
        other = eng.as_val(s, kw["**"])
        kw = {}
    h = s.heap
    s.assume(*h.dict_wf(d.ref))
    if other is not None:
        if kind_of(eng, other) != "dict":
            raise Unsupported("dict.update with non-dict")
        n = smt.simp(h.dlen(other.ref))
        if not z3.is_int_value(n):
            if kw:
                raise Unsupported("dict.update(d, **kw) with symbolic d")
            return dict_merge(eng, s, d, other)
        eng.check_write(s, d.ref, "dict")
        for j in range(n.as_long()):
            key = smt.simp(z3.Select(h.dkeys(other.ref), j))
            s.heap = s.heap.dset(d.ref, key, smt.simp(h.dget(other.ref, key)))
    for name, v in kw.items():
        if name == "**":
            raise Unsupported("dict.update(**d)")
        eng.check_write(s, d.ref, "dict")
        s.heap = s.heap.dset(d.ref, VStr(z3.StringVal(name)), eng.as_val(s, v).t)
    return [(sv_none(), s)]


def m_set_add(eng, s, d, args, kw):
    h = s.heap
    s.assume(*h.dict_wf(d.ref))
    eng.check_write(s, d.ref, "dict")
    s.heap = s.heap.dset(d.ref, eng.as_val(s, args[0]).t, VNone)
    return [(sv_none(), s)]


def m_str_join(eng, s, sep, args, kw):
    x = args[0]
    seq = plain_view(eng, s, x)
    n = smt.simp(seq.n)
    if z3.is_int_value(n) and n.as_long() <= 6:
        acc = z3.StringVal("")
        for j in range(n.as_long()):
            if j:
                acc = z3.Concat(acc, get_s(sep.t))
            acc = z3.Concat(acc, get_s(smt.simp(z3.Select(seq.arr, j))))
        return [(sv_str(smt.simp(acc)), s)]
    return [(sv_str(JOIN(get_s(sep.t), seq.arr, seq.n)), s)]


def m_str_split(eng, s, x, args, kw):
    if args or kw:
        raise Unsupported("split with arguments")
    st = get_s(x.t)
    n = SPLIT_N(st)
    s.assume(n >= 0)
    return [(eng.new_list(s, n, SPLIT_AT(st), "list", "str"), s)]


def m_str_startswith(eng, s, x, args, kw):
    p = eng.as_val(s, args[0])
    return [(sv_bool(z3.PrefixOf(get_s(p.t), get_s(x.t))), s)]


def m_str_endswith(eng, s, x, args, kw):
    p = eng.as_val(s, args[0])
    return [(sv_bool(z3.SuffixOf(get_s(p.t), get_s(x.t))), s)]


def _strip(mode):
    def m(eng, s, x, args, kw):
        chars = get_s(eng.as_val(s, args[0]).t) if args else z3.StringVal(" \t\n\r\x0b\x0c")
        return [(sv_str(STRIP(get_s(x.t), chars, mode)), s)]
    return m


def m_str_replace(eng, s, x, args, kw):
    a, b = eng.as_val(s, args[0]), eng.as_val(s, args[1])
    return [(sv_str(REPLACE_ALL(get_s(x.t), get_s(a.t), get_s(b.t))), s)]


FORMAT_SYM = {}


def m_str_format(eng, s, x, args, kw):
    tmpl = smt.simp(get_s(x.t))
    args = expand_star(eng, args, s)
    if "**" in kw:
        d = kw.pop("**")
        d = eng.as_val(s, d)
        n = smt.simp(s.heap.dlen(d.ref))
        if not z3.is_int_value(n):
            raise Unsupported("format(**d) with dict of symbolic size")
        for j in range(n.as_long()):
            key = smt.simp(z3.Select(s.heap.dkeys(d.ref), j))
            ks = smt.simp(get_s(key))
            if not z3.is_string_value(ks):
                raise Unsupported("format(**d) with symbolic key")
            kw[ks.as_string()] = SV(smt.simp(s.heap.dget(d.ref, key)))
    if z3.is_string_value(tmpl):
        text = tmpl.as_string()
        acc = z3.StringVal("")
        auto = 0
        for lit, field, spec, conv in _string.Formatter().parse(text):
            if lit:
                acc = z3.Concat(acc, z3.StringVal(lit))
            if field is None:
                continue
            if field == "":
                val = args[auto]
                auto += 1
            elif field.isdigit():
                val = args[int(field)]
            elif field in kw:
                val = kw[field]
            elif "." in field or "[" in field:
                raise Unsupported("format field access")
            else:
                eng.raise_exc(s, KeyError)
                return []
            if spec and "{" in spec:
                # nested width: "{:<{max_length}}" -> opaque but deterministic in (value, spec args)
                inner = [kw[f] for _, f, _, _ in _string.Formatter().parse(spec) if f]
                sp = z3.StringVal(spec)
                for iv in inner:
                    sp = z3.Concat(sp, z3.StringVal("|"), format_value(eng, s, iv, None, None))
                acc = z3.Concat(acc, smt.fmt_of(eng.as_val(s, val).t, sp))
            else:
                acc = z3.Concat(acc, format_value(eng, s, val, spec or None, conv))
        return [(sv_str(smt.simp(acc)), s)]
    # symbolic template: uninterpreted, deterministic in template and (sorted) keyword arguments
    if args:
        raise Unsupported("symbolic template with positional args")
    names = tuple(sorted(kw))
    f = FORMAT_SYM.get(names)
    if f is None:
        f = z3.Function("str_format_" + "_".join(names), *([smt.S] * (len(names) + 2)))
        FORMAT_SYM[names] = f
    vals = [format_value(eng, s, kw[n], None, None) for n in names]
    return [(sv_str(f(tmpl, *vals)), s)]


def _str_misc(name):
    def m(eng, s, x, args, kw):
        acc = get_s(x.t)
        extra = z3.StringVal(name)
        for a in args:
            extra = z3.Concat(extra, z3.StringVal("|"), format_value(eng, s, a, None, None))
        return [(sv_str(STR_UPPER(extra, acc)), s)]
    return m


METHODS = {
    ("list", "append"): m_list_append, ("list", "extend"): m_list_extend, ("list", "index"): m_list_index,
    ("list", "pop"): m_list_pop, ("list", "insert"): m_list_insert, ("list", "remove"): m_list_remove, ("list", "count"): m_list_count,
    ("dict", "get"): m_dict_get, ("dict", "items"): m_dict_items, ("dict", "keys"): m_dict_keys,
    ("dict", "values"): m_dict_values, ("dict", "update"): m_dict_update, ("dict", "pop"): m_dict_pop,
    ("set", "add"): m_set_add,
    ("str", "join"): m_str_join, ("str", "split"): m_str_split, ("str", "startswith"): m_str_startswith,
    ("str", "endswith"): m_str_endswith, ("str", "lstrip"): _strip(0), ("str", "rstrip"): _strip(1),
    ("str", "strip"): _strip(2), ("str", "replace"): m_str_replace, ("str", "format"): m_str_format,
    ("str", "ljust"): _str_misc("ljust"), ("str", "rjust"): _str_misc("rjust"),
    ("str", "lower"): _str_misc("lower"), ("str", "upper"): _str_misc("upper"),
}
