"""Locates the functions under contract in the *current* source text of /repo (nothing is cached
between runs) and pairs them with the live module namespace used to resolve global names."""
from __future__ import annotations

import ast
import hashlib
import importlib
import os

REPO = os.environ.get("DLVERIF_REPO", "/repo")
SRC = os.path.join(REPO, "src")


class FuncInfo:
    def __init__(self, qualname, node, module, cls_name, source, path):
        self.qualname = qualname
        self.node = node
        self.module = module
        self.module_globals = vars(module)
        self.cls_name = cls_name
        self.source = source
        self.path = path
        self.sha = hashlib.sha256(source.encode()).hexdigest()[:16]
        self.kind = "function"
        for d in node.decorator_list:
            name = ast.unparse(d)
            if name in ("staticmethod", "classmethod", "property"):
                self.kind = name

    @property
    def params(self):
        a = self.node.args
        return [x.arg for x in a.posonlyargs + a.args]


_module_cache = {}
_ast_cache = {}


def module_path(modname):
    rel = modname.replace(".", "/")
    for cand in (os.path.join(SRC, rel + ".py"), os.path.join(SRC, rel, "__init__.py")):
        if os.path.exists(cand):
            return cand
    return None


def load_module_ast(modname):
    if modname not in _ast_cache:
        path = module_path(modname)
        if path is None:
            return None, None, None
        with open(path, encoding="utf-8") as f:
            text = f.read()
        _ast_cache[modname] = (ast.parse(text), text, path)
    return _ast_cache[modname]


def find_function(qualname) -> FuncInfo | None:
    """qualname = module.path.[Class.]func[.<locals>.inner]"""
    parts = qualname.split(".")
    # longest module prefix that exists in the repo source tree
    for cut in range(len(parts) - 1, 0, -1):
        modname = ".".join(parts[:cut])
        if module_path(modname) and not os.path.isdir(os.path.join(SRC, *parts[:cut + 1])):
            break
    else:
        return None
    tree, text, path = load_module_ast(modname)
    if tree is None:
        return None
    rest = [p for p in parts[cut:] if p != "<locals>"]
    node = tree
    cls_name = None
    for p in rest:
        found = None
        for child in ast.walk(node) if isinstance(node, (ast.FunctionDef,)) else ast.iter_child_nodes(node):
            if isinstance(child, (ast.FunctionDef, ast.ClassDef)) and child.name == p and child is not node:
                found = child
                break
        if found is None:
            return None
        if isinstance(found, ast.ClassDef):
            cls_name = found.name
        node = found
    if not isinstance(node, ast.FunctionDef):
        return None
    module = importlib.import_module(modname)
    src = ast.get_source_segment(text, node) or ""
    return FuncInfo(qualname, node, module, cls_name, src, path)
