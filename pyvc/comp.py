"""Comprehensions with a pure, non-allocating body are summarised exactly (DESIGN.md 2.3):

  [f(x) for x in xs]            result[i] == f(xs[i]) for all i, same length
  [f(x) for x in xs if c(x)]    order-preserving bijection between the kept positions and the result
  {k(x): v(x) for x in xs}      sequential insertion: membership = keys seen, value = that of the
                                LAST position with the key, order = order of first occurrence
  {f(x) for x in xs}            membership only
The summaries are the language semantics of comprehensions (A-DICT); selfcheck.py proves that the
dict summary is what the step-by-step fold of Heap.dset produces.
"""
from __future__ import annotations

import ast

import z3

from . import smt
from .builtins_model import View, elem_at
from .engine import Outcome, Unsupported
from .models import PairVal
from .smt import VNone, Val, fresh
from .values import SV, SeqView, sv_ref


def split_pc(st, base_len, guard):
    """entries of st.pc from base_len on -> (path condition = the branch conditions, facts).  A fact holds
    whenever the branch conditions recorded before it hold, so it is returned guarded by them."""
    conds, facts = [], []
    for e in st.pc[base_len:]:
        if e.get_id() in st.branches:
            conds.append(e)
        else:
            facts.append(z3.Implies(z3.And(guard, *conds), e) if conds or guard is not None else e)
    return (z3.And(conds) if conds else z3.BoolVal(True)), facts


class Skolemiser:
    """replaces every free constant created after `mark` (other than the position variable) by an application f(i)"""
    def __init__(self, i, mark):
        self.i, self.mark, self.map = i, mark, {}

    def __call__(self, t):
        import re
        from z3.z3util import get_vars
        if t is None:
            return None
        subs = []
        for v in get_vars(t):
            if v.get_id() == self.i.get_id():
                continue
            m = re.search(r"!(\d+)$", v.decl().name())
            if m and int(m.group(1)) > self.mark:
                key = v.get_id()
                if key not in self.map:
                    f = z3.Function(smt.fresh_name("sk_" + v.decl().name().split("!")[0]), smt.I, v.sort())
                    self.map[key] = (v, f(self.i))
                subs.append(self.map[key])
        return z3.substitute(t, *subs) if subs else t


def _merge(eng, base_len, results, hoisted=None, guard=None):
    """results: [(value, state)] of a pure evaluation; -> (term of sort Val, static type)"""
    if not results:
        return None, None
    vals = []
    for v, s in results:
        v = eng.as_val(s, v)
        cond, facts = split_pc(s, base_len, guard if guard is not None else z3.BoolVal(True))
        if hoisted is not None:
            hoisted.extend(facts)
        vals.append((cond, v))
    term = vals[-1][1].t
    for c, v in reversed(vals[:-1]):
        term = z3.If(c, v.t, term)
    tys = {v.ty for _, v in vals}
    return term, (tys.pop() if len(tys) == 1 else None)


class _NeedsLoop(Exception):
    pass


def comprehension(eng, e, st, kind):
    if len(e.generators) != 1:
        raise Unsupported("comprehension with several generators")
    gen = e.generators[0]
    if gen.is_async:
        raise Unsupported("async comprehension")
    label = eng.comp_ids.get(id(e))
    has_spec = eng.contract is not None and label in eng.contract.loops
    if has_spec and not eng.spec and (kind == "list" or (kind == "dict" and eng.contract.loops[label].get("invariant"))):
        # (a dict comprehension is run as a loop only when the sidecar gives it an invariant: the exact summary is stronger)
        return as_loop(eng, e, gen, st, label)
    out = []
    for itv, s in eng.ev(gen.iter, st):
        for view, s1 in eng.iter_sources(s, itv):
            out += _one(eng, e, gen, view, s1, kind)
    return out


def as_loop(eng, e, gen, st, label):
    """a list comprehension whose body allocates or calls contracted functions: executed as the loop
         _acc = [] ; for x in it: [if c:] _acc.append(elt)
    under the invariant the sidecar gives for `comp#k` (which may mention _acc and _i)"""
    src = f"for _t in _it:\n    pass\n"
    loop = ast.parse(src).body[0]
    loop.target = gen.target
    loop.iter = gen.iter
    if isinstance(e, ast.DictComp):
        # {k: v for ...}: the key is evaluated before the value, then stored (a later equal key overwrites the value and
        # keeps the position of the first)
        body = [ast.Assign(targets=[ast.Name(id="_k", ctx=ast.Store())], value=e.key),
                ast.Assign(targets=[ast.Name(id="_v", ctx=ast.Store())], value=e.value),
                ast.Assign(targets=[ast.Subscript(value=ast.Name(id="_acc", ctx=ast.Load()), slice=ast.Name(id="_k", ctx=ast.Load()), ctx=ast.Store())],
                           value=ast.Name(id="_v", ctx=ast.Load()))]
    else:
        app = ast.Expr(ast.Call(func=ast.Attribute(value=ast.Name(id="_acc", ctx=ast.Load()), attr="append", ctx=ast.Load()),
                                args=[e.elt], keywords=[]))
        body = [app]
    for c in reversed(gen.ifs):
        body = [ast.If(test=c, body=body, orelse=[])]
    loop.body = body
    ast.copy_location(loop, e)
    for n in ast.walk(loop):
        if not hasattr(n, "lineno"):
            ast.copy_location(n, e)
    ast.fix_missing_locations(loop)
    eng.loop_ids[id(loop)] = label
    eng._synth = getattr(eng, "_synth", []) + [loop]       # keep the node alive (ids are reused otherwise)
    s = st
    s.env.vars["_acc"] = eng.new_dict(s) if isinstance(e, ast.DictComp) else eng.new_list(s, z3.IntVal(0), z3.K(smt.I, VNone), "list")
    outs = eng.exec_block([loop], s)
    res = []
    for o in outs:
        if o.kind != "fall":
            raise Unsupported("comprehension with non-local exit")
        acc = o.st.env.vars.pop("_acc")
        for tmp_name in ("_k", "_v"):
            o.st.env.vars.pop(tmp_name, None)
        res.append((acc, o.st))
    return res


def _one(eng, e, gen, view, s, kind):
    n = view.n
    s.assume(n >= 0)
    i = fresh("ci", smt.I)
    mark = next(smt._counter)            # symbols created from here on belong to ONE position of the comprehension
    body = s.copy()
    body.assume(i >= 0, i < n)
    inr = z3.And(i >= 0, i < n)
    hoisted = []
    base_len = len(body.pc)
    alloc0 = body.heap.alloc
    eng.raised.append([])
    try:
        from .loops import bind_target
        starts = bind_target(eng, gen.target, elem_at(eng, body, view, i), body)
        if len(starts) != 1:
            raise Unsupported("comprehension target")
        b = starts[0]
        base_len = len(b.pc)
        conds_res = [(None, b)]
        cond_term = z3.BoolVal(True)
        for c in gen.ifs:
            rs = eng.ev(c, b)
            t, _ = _merge(eng, base_len, [(SV(smt.VBool(eng.truth(s2, v)), "bool"), s2) for v, s2 in rs], hoisted, inr)
            cond_term = z3.And(cond_term, smt.get_b(t))
        if isinstance(e, ast.DictComp):
            kres = eng.ev(e.key, b.copy())
            vres = eng.ev(e.value, b.copy())
            for _, s2 in kres + vres:
                if not z3.eq(s2.heap.alloc, alloc0):
                    raise Unsupported("allocating comprehension body")
            key_t, _ = _merge(eng, base_len, kres, hoisted, inr)
            val_t, _ = _merge(eng, base_len, vres, hoisted, inr)
            elt_t, elt_ty = None, None
        else:
            eres = eng.ev(e.elt, b.copy())
            for _, s2 in eres:
                if not z3.eq(s2.heap.alloc, alloc0):
                    raise Unsupported("allocating comprehension body")
            elt_t, elt_ty = _merge(eng, base_len, eres, hoisted, inr)
    finally:
        raised = eng.raised.pop()

    # exceptions inside the body: raised for some position, otherwise excluded for all positions
    # Soundness: a symbol created while evaluating the body for the symbolic position i (result of a contracted call,
    # definition of a slice, ...) stands for a different value at every position: it becomes a function of i.
    sk = Skolemiser(i, mark)
    elt_t, key_t_, val_t_ = sk(elt_t), sk(locals().get("key_t")), sk(locals().get("val_t"))
    if isinstance(e, ast.DictComp):
        key_t, val_t = key_t_, val_t_
    cond_term = sk(cond_term)
    hoisted = [sk(f) for f in hoisted]
    normal = s
    n_pc = len(s.pc)
    seen = set()
    for f in hoisted:
        # facts collected while evaluating the body for the symbolic position i hold for every position
        if f.get_id() not in seen:
            seen.add(f.get_id())
            s.assume(z3.ForAll([i], f))
    n_pc2 = len(s.pc)
    for r in raised:
        cond, facts = split_pc(r.st, base_len, inr)
        cond = sk(cond)
        facts = [sk(f) for f in facts]
        for f in facts:
            if f.get_id() not in seen:
                seen.add(f.get_id())
                s.assume(z3.ForAll([i], f))
        cond = z3.And(inr, cond)
        if not eng.feasible(s, cond):
            continue
        i0 = fresh("ci_raise", smt.I)
        bad = s.copy()
        bad.assume(z3.substitute(cond, (i, i0)))
        eng.raised[-1].append(Outcome("raise", r.val, bad))
        normal.assume(z3.ForAll([i], z3.Not(cond)))
    s = normal
    has_filter = bool(gen.ifs)
    inrange = z3.And(i >= 0, i < n)

    if kind in ("list", "gen"):
        if elt_t is None:
            raise Unsupported("comprehension body has no normal outcome")
        arr = fresh("comp", smt.ArrIV)
        if not has_filter:
            s.assume(z3.ForAll([i], z3.Implies(inrange, z3.Select(arr, i) == elt_t), patterns=[z3.Select(arr, i)]))
            m = n
        else:
            m = fresh("comp_n", smt.I)
            src = z3.Function(smt.fresh_name("comp_src"), smt.I, smt.I)
            dst = z3.Function(smt.fresh_name("comp_dst"), smt.I, smt.I)
            j, k = z3.Ints("cj ck")
            at = lambda idx, t: z3.substitute(t, (i, idx))
            s.assume(m >= 0, m <= n,
                     z3.ForAll([j], z3.Implies(z3.And(0 <= j, j < m),
                                               z3.And(0 <= src(j), src(j) < n, at(src(j), cond_term), dst(src(j)) == j,
                                                      z3.Select(arr, j) == at(src(j), elt_t))),
                               patterns=[z3.Select(arr, j)]),
                     z3.ForAll([j, k], z3.Implies(z3.And(0 <= j, j < k, k < m), src(j) < src(k)),
                               patterns=[z3.MultiPattern(src(j), src(k))]),
                     z3.ForAll([i], z3.Implies(z3.And(inrange, cond_term),
                                               z3.And(0 <= dst(i), dst(i) < m, src(dst(i)) == i)),
                               patterns=[dst(i)]))
        if kind == "gen" :
            return [(SeqView(m, arr, elt_ty), s)]
        return [(eng.new_list(s, m, arr, "list", elt_ty), s)]

    # dict / set: fresh container described by quantified facts
    ckind = "dict" if kind == "dict" else "set"
    ref = eng.alloc(s, ckind)
    new, d = s.heap.fresh_dict_at(ref, "comp")
    s.heap = new
    if kind == "set":
        key_t, val_t = elt_t, VNone
    kk = z3.Const("ck", Val)
    k2 = z3.Const("ck2", Val)
    j = z3.Int("cj")
    at = lambda idx, t: z3.substitute(t, (i, idx))
    keep = z3.And(inrange, cond_term)
    last = z3.Function(smt.fresh_name("comp_last"), Val, smt.I)
    first = z3.Function(smt.fresh_name("comp_first"), Val, smt.I)
    s.assume(*d.wf())
    s.assume(d.n <= n,
             z3.ForAll([i], z3.Implies(keep, d.has(key_t))),
             z3.ForAll([kk], z3.Implies(d.has(kk),
                                        z3.And(0 <= last(kk), last(kk) < n, at(last(kk), cond_term),
                                               at(last(kk), key_t) == kk,
                                               d.val(kk) == at(last(kk), val_t),
                                               0 <= first(kk), first(kk) < n, at(first(kk), cond_term),
                                               at(first(kk), key_t) == kk)),
                       patterns=[d.has(kk)]),
             z3.ForAll([kk, j], z3.Implies(z3.And(d.has(kk), 0 <= j, j < n, at(j, cond_term), at(j, key_t) == kk),
                                           z3.And(first(kk) <= j, j <= last(kk)))),
             z3.ForAll([kk, k2], z3.Implies(z3.And(d.has(kk), d.has(k2)),
                                            (d.idx(kk) < d.idx(k2)) == (first(kk) < first(k2))),
                       patterns=[z3.MultiPattern(d.idx(kk), d.idx(k2))]))
    return [(sv_ref(ref, ckind), s)]
