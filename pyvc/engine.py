"""PyVC symbolic executor: turns the ast of a real /repo function plus its sidecar contract into
named proof obligations (see DESIGN.md section 2).

One Engine verifies one function.  Paths are explored forward; every path ends in return / raise /
loop back-edge.  Callees are replaced by their contracts (never their bodies), except tiny closures
and helpers declared `inline` in the sidecar, which are listed in the evidence.
"""
from __future__ import annotations

import ast
import builtins as _builtins

import z3

from . import smt
from .heap import ARR_KINDS, TYP, Heap, class_id
from .smt import (VBool, VInt, VNone, VReal, VRef, VStr, Val, fresh, get_b, get_i, get_r, get_ref,
                  get_s, is_bool, is_int, is_none, is_real, is_ref, is_str)
from .values import (SV, BoundMeth, ClassRef, Closure, ExcVal, FuncRef, ModuleRef, PyConst, SeqView,
                     from_python, sv_bool, sv_float, sv_int, sv_none, sv_ref, sv_str)


class Unsupported(Exception):
    pass


class Env:
    __slots__ = ("vars", "parent", "ret")

    def __init__(self, vars=None, parent=None, ret=None):
        self.vars = vars if vars is not None else {}
        self.parent = parent
        self.ret = ret           # environment of the caller (for inlined calls)

    def copy(self):
        p = self.parent.copy() if self.parent else None
        if self.ret is None:
            r = None
        elif self.ret is self.parent:
            r = p
        else:
            r = self.ret.copy()
        return Env(dict(self.vars), p, r)

    def lookup(self, name):
        e = self
        while e is not None:
            if name in e.vars:
                return e.vars[name], e
            e = e.parent
        return None, None


class State:
    __slots__ = ("env", "heap", "pc", "old", "ghost", "branches")

    def __init__(self, env, heap, pc, old=None, ghost=None, branches=None):
        self.env = env
        self.heap = heap
        self.pc = pc
        self.old = old
        self.ghost = ghost if ghost is not None else {}
        # ids of the entries of pc that are branch conditions (the others are facts: representation
        # invariants, definitions of fresh symbols, assumed contracts)
        self.branches = branches if branches is not None else set()

    def copy(self):
        return State(self.env.copy(), self.heap, list(self.pc), self.old, dict(self.ghost), set(self.branches))

    def assume_branch(self, c):
        if not z3.is_true(c):
            self.pc.append(c)
            self.branches.add(c.get_id())
        return self

    def assume(self, *facts):
        for f in facts:
            if f is None:
                continue
            if isinstance(f, bool):
                f = z3.BoolVal(f)
            if not z3.is_true(f):
                self.pc.append(f)
        return self


class Outcome:
    __slots__ = ("kind", "val", "st")

    def __init__(self, kind, val, st):
        self.kind = kind
        self.val = val
        self.st = st


class Obligation:
    def __init__(self, name, pc, goal, kind, lineno=None):
        self.name = name
        self.pc = pc
        self.goal = goal
        self.kind = kind
        self.lineno = lineno
        self.result = None


MUTATING_METHODS = {"append", "extend", "insert", "remove", "pop", "update", "clear", "sort",
                    "reverse", "add", "discard", "setdefault", "popitem"}


class Engine:
    def __init__(self, registry, funcinfo, contract, opts=None):
        self.reg = registry              # pyvc.contracts.Registry
        self.fi = funcinfo               # pyvc.source.FuncInfo of the function under verification
        self.contract = contract
        self.opts = opts or {}
        self.obligations: list[Obligation] = []
        self.spec = 0                    # >0 while evaluating a specification expression
        self.raised: list[list[Outcome]] = [[]]
        self.loop_counter = 0
        self.comp_counter = 0
        self.notes: list[str] = []       # inlined helpers, assumptions used
        self.inlined: set[str] = set()
        self.externals_used: set[str] = set()
        self.solver_time = 0.0
        self.entry_alloc = None
        self.modifies_refs = []          # function-level frame (list of z3 Int refs), evaluated at entry
        self.frame_stack = []            # nested loop frames: (alloc_at_entry, [refs])
        self.depth = 0
        self.path_budget = self.opts.get("max_paths", 4000)
        self.paths = 0
        self.qual = funcinfo.qualname
        self.module_globals = funcinfo.module_globals
        self.cur_line = None
        self.loop_ids = {}
        self.comp_ids = {}
        k = c = 0
        for n in _dfs(funcinfo.node):
            if isinstance(n, (ast.For, ast.While)):
                self.loop_ids[id(n)] = f"loop#{k}"
                k += 1
            elif isinstance(n, (ast.ListComp, ast.SetComp, ast.DictComp, ast.GeneratorExp)):
                self.comp_ids[id(n)] = f"comp#{c}"
                c += 1

    # ------------------------------------------------------------------------------------------
    # obligations / branching
    # ------------------------------------------------------------------------------------------
    def oblige(self, name, st, goal, kind="assert"):
        if isinstance(goal, bool):
            goal = z3.BoolVal(goal)
        if z3.is_true(smt.simp(goal)):
            # still recorded: it is an obligation that was generated and is trivially discharged
            ob = Obligation(name, [], z3.BoolVal(True), kind, self.cur_line)
        else:
            ob = Obligation(name, list(st.pc), goal, kind, self.cur_line)
        self.obligations.append(ob)
        return ob

    def feasible(self, st, extra=None, timeout=None):
        pcs = st.pc + ([extra] if extra is not None else [])
        r = smt.check_sat(pcs, timeout or self.opts.get("branch_timeout_ms", 400))
        return r != "unsat"

    def branch(self, st, cond, prune=True):
        """-> (state where cond holds | None, state where it does not | None)"""
        c = smt.simp(cond)
        if z3.is_true(c):
            return st, None
        if z3.is_false(c):
            return None, st
        if self.spec:
            raise Unsupported("branch in specification")
        t = f = None
        if not prune or self.feasible(st, c):
            t = st.copy().assume_branch(c)
        if not prune or self.feasible(st, z3.Not(c)):
            f = st.copy().assume_branch(z3.Not(c))
        self.paths += 1
        if self.paths > self.path_budget:
            raise Unsupported("path budget exceeded")
        return t, f

    def raise_exc(self, st, cls, msg=None):
        self.raised[-1].append(Outcome("raise", ExcVal(cls, msg), st))

    # ------------------------------------------------------------------------------------------
    # helpers on values
    # ------------------------------------------------------------------------------------------
    def typ_is(self, v: SV, cls: str):
        """z3 Bool: v is a reference to an object of class cls"""
        if v.ty is not None:
            if v.ty in ("list", "tuple", "dict", "set"):
                return z3.BoolVal(v.ty == cls)
            if v.ty.startswith("obj:"):
                return z3.BoolVal(self.reg.is_subclass(v.ty[4:], cls))
            return z3.BoolVal(False)
        ids = [class_id(c) for c in self.reg.subclasses_of(cls)]
        return z3.And(is_ref(v.t), z3.Or([TYP(get_ref(v.t)) == i for i in ids]))

    def static_ty(self, st, v: SV, candidates):
        """try to establish the static type of v among candidates using the path condition"""
        if v.ty is not None:
            return v.ty
        for c in candidates:
            cond = self.ty_cond(v, c)
            if smt.check_valid(st.pc, cond, 300).status == "unsat":
                return c
        return None

    def ty_cond(self, v: SV, ty: str):
        if ty == "none":
            return is_none(v.t)
        if ty == "bool":
            return is_bool(v.t)
        if ty == "int":
            return is_int(v.t)
        if ty == "float":
            return is_real(v.t)
        if ty == "str":
            return is_str(v.t)
        if ty in ("list", "tuple", "dict", "set"):
            return self.typ_is(v, ty)
        if ty.startswith("obj:"):
            return self.typ_is(v, ty[4:])
        raise Unsupported(f"type {ty}")

    def with_ty(self, st, v: SV, ty: str) -> SV:
        """assume the static type (used after a type test made it certain)"""
        if v.ty == ty:
            return v
        if ty in ("none",):
            return sv_none()
        if ty == "bool":
            return SV(VBool(get_b(v.t)), "bool")
        if ty == "int":
            return SV(VInt(get_i(v.t)), "int")
        if ty == "float":
            return SV(VReal(get_r(v.t)), "float")
        if ty == "str":
            return SV(VStr(get_s(v.t)), "str")
        return SV(VRef(get_ref(v.t)), ty)

    def truth(self, st, v):
        if isinstance(v, (FuncRef, ClassRef, ModuleRef, Closure, BoundMeth)):
            return z3.BoolVal(True)
        if isinstance(v, PyConst):
            return z3.BoolVal(bool(v.obj))
        if isinstance(v, SeqView):
            return v.n > 0
        if not isinstance(v, SV):
            raise Unsupported(f"truth of {v!r}")
        ty = v.ty
        h = st.heap
        if ty == "none":
            return z3.BoolVal(False)
        if ty == "bool":
            return get_b(v.t)
        if ty == "int":
            return get_i(v.t) != 0
        if ty == "float":
            return get_r(v.t) != 0
        if ty == "str":
            return z3.Length(get_s(v.t)) > 0
        if ty in ("list", "tuple"):
            return h.llen(get_ref(v.t)) > 0
        if ty in ("dict", "set"):
            return h.dlen(get_ref(v.t)) > 0
        if ty is not None and ty.startswith("obj:"):
            cls = ty[4:]
            if self.reg.class_kind(cls) == "dict":
                return h.dlen(get_ref(v.t)) > 0
            return z3.BoolVal(True)
        # unknown static type: dispatch on the tag
        ref = get_ref(v.t)
        lk = ["list", "tuple"] + [c for c, k in self.reg.classes.items() if k.kind in ("list", "tuple")]
        dk = ["dict", "set"] + [c for c, k in self.reg.classes.items() if k.kind in ("dict", "set")]
        is_l = z3.Or([TYP(ref) == class_id(c) for c in lk])
        is_d = z3.Or([TYP(ref) == class_id(c) for c in dk])
        return z3.If(is_none(v.t), False,
               z3.If(is_bool(v.t), get_b(v.t),
               z3.If(is_int(v.t), get_i(v.t) != 0,
               z3.If(is_real(v.t), get_r(v.t) != 0,
               z3.If(is_str(v.t), z3.Length(get_s(v.t)) > 0,
               z3.If(is_l, h.llen(ref) > 0,
               z3.If(is_d, h.dlen(ref) > 0, True)))))))

    def num_real(self, v: SV):
        if v.ty == "int":
            return z3.ToReal(get_i(v.t))
        if v.ty == "float":
            return get_r(v.t)
        if v.ty == "bool":
            return z3.If(get_b(v.t), z3.RealVal(1), z3.RealVal(0))
        return z3.If(is_int(v.t), z3.ToReal(get_i(v.t)),
               z3.If(is_bool(v.t), z3.If(get_b(v.t), z3.RealVal(1), z3.RealVal(0)), get_r(v.t)))

    def is_num(self, v: SV):
        if v.ty in ("int", "float", "bool"):
            return z3.BoolVal(True)
        if v.ty is not None:
            return z3.BoolVal(False)
        return z3.Or(is_int(v.t), is_real(v.t), is_bool(v.t))

    def py_eq(self, st, a, b):
        """z3 Bool for Python's a == b on the supported value kinds"""
        if isinstance(a, PyConst) or isinstance(b, PyConst):
            raise Unsupported("== on concrete object")
        if isinstance(a, SeqView) or isinstance(b, SeqView):
            raise Unsupported("== on lazy sequence")
        if not (isinstance(a, SV) and isinstance(b, SV)):
            raise Unsupported(f"== on {a!r} {b!r}")
        prim = ("none", "bool", "str")
        num = ("int", "float")
        if a.ty in num and b.ty in num:
            if a.ty == b.ty == "int":
                return get_i(a.t) == get_i(b.t)
            return self.num_real(a) == self.num_real(b)
        if a.ty in prim and b.ty in prim:
            if a.ty != b.ty:
                return z3.BoolVal(False)
            return a.t == b.t
        h = st.heap
        # comparison of a list with another list whose length is syntactically 0 (x == [])
        for x, y in ((a, b), (b, a)):
            if y.ty in ("list", "tuple") and smt.is_true(h.llen(get_ref(y.t)) == 0):
                if x.ty == y.ty:
                    return h.llen(get_ref(x.t)) == 0
                if x.ty is None:
                    return z3.And(self.typ_is(x, y.ty), h.llen(get_ref(x.t)) == 0)
        if a.ty in ("list", "tuple", "dict", "set") or b.ty in ("list", "tuple", "dict", "set"):
            if a.ty is not None and b.ty is not None and a.ty != b.ty:
                return z3.BoolVal(False)
            raise Unsupported("structural == on containers")
        for x in (a, b):
            if x.ty is not None and x.ty.startswith("obj:") and self.reg.has_custom_eq(x.ty[4:]):
                raise Unsupported(f"== on {x.ty} (custom __eq__)")
        if (a.ty in prim + num and b.ty is not None and b.ty.startswith("obj:")) or \
           (b.ty in prim + num and a.ty is not None and a.ty.startswith("obj:")):
            return z3.BoolVal(False)
        # generic: numbers compare numerically, everything else by Val identity
        both_num = z3.And(self.is_num(a), self.is_num(b))
        if z3.is_false(smt.simp(both_num)):
            return a.t == b.t
        return z3.If(both_num, self.num_real(a) == self.num_real(b), a.t == b.t)

    # ------------------------------------------------------------------------------------------
    # allocation helpers
    # ------------------------------------------------------------------------------------------
    def alloc(self, st, cls, ty=None):
        h, ref, facts = st.heap.allocate(cls)
        st.heap = h
        st.assume(*facts)
        return ref

    def new_list(self, st, n, arr, kind="list", elem_ty=None):
        ref = self.alloc(st, kind)
        st.heap = st.heap.set_list(ref, n, arr)
        return sv_ref(ref, kind)

    def new_list_of(self, st, items, kind="list"):
        arr = z3.K(smt.I, VNone)
        for k, it in enumerate(items):
            arr = z3.Store(arr, k, self.as_val(st, it).t)
        return self.new_list(st, z3.IntVal(len(items)), arr, kind)

    def new_dict(self, st, kind="dict"):
        ref = self.alloc(st, kind)
        st.heap = st.heap.set_dict_empty(ref)
        return sv_ref(ref, kind)

    def as_val(self, st, v) -> SV:
        """coerce meta values that can be materialised into first-class values"""
        if isinstance(v, SV):
            return v
        if isinstance(v, SeqView):
            return self.new_list(st, v.n, v.arr, "list", v.elem_ty)
        if isinstance(v, PyConst):
            o = v.obj
            lit = from_python(o)
            if lit is not None:
                return lit
            if isinstance(o, (tuple, list)):
                items = [self.as_val(st, PyConst(x)) for x in o]
                return self.new_list_of(st, items, "tuple" if isinstance(o, tuple) else "list")
            import enum
            if isinstance(o, enum.IntEnum):
                return SV(VInt(z3.IntVal(int(o))), "int")
        if isinstance(v, ExcVal):
            raise Unsupported("exception used as value")
        raise Unsupported(f"cannot materialise {v!r}")

    def seq_of(self, st, v):
        """view any iterable as (SeqView, state)"""
        h = st.heap
        if isinstance(v, SeqView):
            return v
        if isinstance(v, PyConst) and isinstance(v.obj, (tuple, list)):
            arr = z3.K(smt.I, VNone)
            for k, x in enumerate(v.obj):
                arr = z3.Store(arr, k, self.as_val(st, PyConst(x)).t)
            return SeqView(z3.IntVal(len(v.obj)), arr)
        if isinstance(v, SV):
            ty = v.ty
            if ty is not None and ty.startswith("obj:"):
                k = self.reg.class_kind(ty[4:])
                if k:
                    ty = k
            if ty in ("list", "tuple"):
                return SeqView(h.llen(get_ref(v.t)), h.lelems(get_ref(v.t)))
            if ty in ("dict", "set"):
                st.assume(*h.dict_wf(get_ref(v.t)))
                return SeqView(h.dlen(get_ref(v.t)), h.dkeys(get_ref(v.t)), elem_ty=None)
            if ty == "str":
                # the characters, one by one
                i = z3.Int("chr_i")
                x = smt.get_s(v.t)
                return SeqView(z3.Length(x), z3.Lambda([i], smt.VStr(z3.SubString(x, i, 1))), elem_ty="str")
            if ty is None:
                t = self.static_ty(st, v, ["list", "tuple", "dict", "set", "str"])
                if t is not None:
                    return self.seq_of(st, self.with_ty(st, v, t))
        raise Unsupported(f"iteration over {v!r}")

    def iter_sources(self, st, v):
        """the iterable of a loop / comprehension as [(SeqView, state)]: a value whose type the path condition does not
        settle splits the path by type (str / list / tuple / dict / set; anything else is a TypeError path)"""
        if isinstance(v, SeqView):
            return [(v, st)]
        if isinstance(v, SV) and v.ty is None and not self.spec:
            t = self.static_ty(st, v, ["list", "tuple", "dict", "set", "str"])
            if t is not None:
                return [(self.seq_of(st, self.with_ty(st, v, t)), st)]
            if t is None:
                out, rest = [], st
                for c in ["list", "tuple", "dict", "set", "str"]:
                    if rest is None:
                        break
                    yes, rest = self.branch(rest, self.ty_cond(v, c))
                    if yes is not None:
                        out.append((self.seq_of(yes, self.with_ty(yes, v, c)), yes))
                if rest is not None:
                    self.raise_exc(rest, TypeError)
                return out
        return [(self.seq_of(st, v), st)]

    def field_closed(self, st, name):
        """entry-state attribute arrays only hold references allocated at entry (once per field)"""
        key = "closed_fld0_" + name
        if st.ghost.get(key) or self.entry_alloc is None:
            return
        st.ghost[key] = True
        from .heap import FieldSort
        base = z3.Const(f"fld0_{name}", FieldSort)
        r = z3.Int("cf_r")
        v = z3.Select(base, r)
        st.assume(z3.ForAll([r], z3.Implies(z3.And(r < self.entry_alloc, is_ref(v)),
                                            z3.And(get_ref(v) >= 0, get_ref(v) < self.entry_alloc)),
                            patterns=[v]))

    # ------------------------------------------------------------------------------------------
    # frames
    # ------------------------------------------------------------------------------------------
    def check_write(self, st, ref, what):
        """frame obligation: the object written is fresh in this call or in the declared frame"""
        if self.spec:
            raise Unsupported("heap write in specification")
        from .values import in_frame
        self.oblige(f"{self.qual}.frame.{what}@L{self.cur_line}", st,
                    z3.Or(ref >= self.entry_alloc, in_frame(ref, self.modifies_refs)), "frame")
        for (a0, refs, label) in self.frame_stack:
            self.oblige(f"{self.qual}.{label}.frame.{what}@L{self.cur_line}", st,
                        z3.Or(ref >= a0, in_frame(ref, refs)), "frame")
        ts = self.reg.tree_struct
        if ts is not None and what in ts.protected_kinds and ts.active(st):
            ts.base_axioms(self, st)
            self.oblige(f"{self.qual}.treestruct.{what}@L{self.cur_line}", st,
                        z3.Not(ts.pred(ref)), "frame")

    # ------------------------------------------------------------------------------------------
    # name resolution
    # ------------------------------------------------------------------------------------------
    def wrap_python(self, obj, name="?"):
        import types
        lit = from_python(obj)
        if lit is not None and not isinstance(obj, _builtins.Exception):
            import enum
            if isinstance(obj, enum.Enum):
                return PyConst(obj)
            return lit
        if isinstance(obj, types.ModuleType):
            return ModuleRef(obj)
        if isinstance(obj, type):
            return ClassRef(obj)
        if isinstance(obj, (types.FunctionType, types.BuiltinFunctionType, types.MethodType)) or callable(obj) and hasattr(obj, "__wrapped__"):
            target = getattr(obj, "__wrapped__", obj)   # lru_cache etc. are transparent (DESIGN 2.1)
            mod = getattr(target, "__module__", None) or ""
            qn = getattr(target, "__qualname__", getattr(target, "__name__", name))
            return FuncRef(f"{mod}.{qn}", obj)
        return PyConst(obj)

    def lookup_name(self, st, name):
        v, _ = st.env.lookup(name)
        if v is not None:
            return v
        if self.spec and name in self.reg.spec_funcs:
            return FuncRef("spec." + name, self.reg.spec_funcs[name])
        if name in self.module_globals:
            return self.wrap_python(self.module_globals[name], name)
        if hasattr(_builtins, name):
            return self.wrap_python(getattr(_builtins, name), name)
        raise Unsupported(f"unresolved name {name}")

    # ------------------------------------------------------------------------------------------
    # expressions
    # ------------------------------------------------------------------------------------------
    def ev(self, e, st):
        """-> list of (value, state); exceptional outcomes are appended to self.raised[-1]"""
        if hasattr(e, "lineno") and not self.spec:
            self.cur_line = e.lineno
        m = getattr(self, "ev_" + type(e).__name__, None)
        if m is None:
            raise Unsupported(f"expression {type(e).__name__}")
        return m(e, st)

    def ev_many(self, exprs, st):
        """evaluate left to right -> list of ([values], state)"""
        res = [([], st)]
        for e in exprs:
            nxt = []
            for vals, s in res:
                for v, s2 in self.ev(e, s):
                    nxt.append((vals + [v], s2))
            res = nxt
        return res

    def ev_Constant(self, e, st):
        v = from_python(e.value)
        if v is None:
            if e.value is Ellipsis:
                raise Unsupported("Ellipsis")
            v = PyConst(e.value)
        return [(v, st)]

    def ev_Name(self, e, st):
        if self.spec and e.id == "result" and "result" in st.ghost:
            return [(st.ghost["result"], st)]
        return [(self.lookup_name(st, e.id), st)]

    def ev_Lambda(self, e, st):
        return [(Closure(e, None, "<lambda>"), st)]

    def ev_IfExp(self, e, st):
        out = []
        for c, s in self.ev(e.test, st):
            cond = self.truth(s, c)
            if self.spec:
                (a, s1), = self.ev(e.body, s)
                (b, s2), = self.ev(e.orelse, s)
                out.append((self.ite(s, cond, a, b), s))
                continue
            t, f = self.branch(s, cond)
            if t is not None:
                out += self.ev(e.body, t)
            if f is not None:
                out += self.ev(e.orelse, f)
        return out

    def ite(self, st, cond, a, b):
        cs = smt.simp(cond)
        if z3.is_true(cs):
            return a
        if z3.is_false(cs):
            return b
        a = self.as_val(st, a)
        b = self.as_val(st, b)
        return SV(z3.If(cond, a.t, b.t), a.ty if a.ty == b.ty else None)

    def ev_BoolOp(self, e, st):
        is_and = isinstance(e.op, ast.And)
        res = self.ev(e.values[0], st)
        for nxt in e.values[1:]:
            new = []
            for v, s in res:
                c = self.truth(s, v)
                if self.spec:
                    (w, _), = self.ev(nxt, s)
                    if isinstance(v, SV) and isinstance(w, SV) and v.ty == "bool" and w.ty == "bool":
                        new.append((sv_bool(z3.And(get_b(v.t), get_b(w.t)) if is_and else z3.Or(get_b(v.t), get_b(w.t))), s))
                    else:
                        new.append((self.ite(s, c, w, v) if is_and else self.ite(s, c, v, w), s))
                    continue
                t, f = self.branch(s, c)
                if is_and:
                    if f is not None:
                        new.append((v, f))
                    if t is not None:
                        new += self.ev(nxt, t)
                else:
                    if t is not None:
                        new.append((v, t))
                    if f is not None:
                        new += self.ev(nxt, f)
            res = new
        return res

    def ev_UnaryOp(self, e, st):
        out = []
        for v, s in self.ev(e.operand, st):
            if isinstance(e.op, ast.Not):
                out.append((sv_bool(z3.Not(self.truth(s, v))), s))
            elif isinstance(e.op, (ast.USub, ast.UAdd)):
                v = self.as_val(s, v)
                neg = isinstance(e.op, ast.USub)
                if v.ty == "int":
                    out.append((sv_int(-get_i(v.t) if neg else get_i(v.t)), s))
                elif v.ty == "float":
                    out.append((sv_float(-get_r(v.t) if neg else get_r(v.t)), s))
                elif v.ty is None:
                    # number of unknown kind: keep the kind
                    ok, bad = (s, None) if self.spec else self.branch(s, z3.Or(is_int(v.t), is_real(v.t)))
                    if bad is not None:
                        self.raise_exc(bad, TypeError)
                    if ok is not None:
                        t = z3.If(is_int(v.t), VInt(-get_i(v.t) if neg else get_i(v.t)),
                                  VReal(-get_r(v.t) if neg else get_r(v.t)))
                        out.append((SV(t, None), ok))
                else:
                    self.raise_exc(s, TypeError)
            else:
                raise Unsupported("unary op")
        return out

    def ev_BinOp(self, e, st):
        out = []
        for (a, b), s in self.ev_many([e.left, e.right], st):
            out += self.binop(e.op, a, b, s)
        return out

    def binop(self, op, a, b, s):
        from . import models
        return models.binop(self, op, a, b, s)

    def ev_Compare(self, e, st):
        out = []
        for vals, s in self.ev_many([e.left] + list(e.comparators), st):
            conds = []
            for op, a, b in zip(e.ops, vals, vals[1:]):
                conds.append(self.compare(op, a, b, s))
            out.append((sv_bool(z3.And(conds) if len(conds) > 1 else conds[0]), s))
        return out

    def compare(self, op, a, b, s):
        from . import models
        return models.compare(self, op, a, b, s)

    def ev_Attribute(self, e, st):
        out = []
        for v, s in self.ev(e.value, st):
            out += self.getattr(v, e.attr, s)
        return out

    def getattr(self, v, name, s):
        from . import models
        return models.getattr_(self, v, name, s)

    def ev_Subscript(self, e, st):
        out = []
        if isinstance(e.slice, ast.Slice):
            parts = [e.value] + [x for x in (e.slice.lower, e.slice.upper, e.slice.step)]
            for v, s in self.ev(e.value, st):
                lo = hi = None
                ss = [(None, None, s)]
                res = []
                for lo_v, s1 in (self.ev(e.slice.lower, s) if e.slice.lower else [(None, s)]):
                    for hi_v, s2 in (self.ev(e.slice.upper, s1) if e.slice.upper else [(None, s1)]):
                        if e.slice.step is not None:
                            raise Unsupported("slice step")
                        from . import models
                        out += models.slice_(self, v, lo_v, hi_v, s2)
            return out
        for (v, k), s in self.ev_many([e.value, e.slice], st):
            from . import models
            out += models.subscript(self, v, k, s)
        return out

    def ev_List(self, e, st):
        return self._seq_literal(e, st, "list")

    def ev_Tuple(self, e, st):
        return self._seq_literal(e, st, "tuple")

    def _seq_literal(self, e, st, kind):
        out = []
        if any(isinstance(x, ast.Starred) for x in e.elts):
            raise Unsupported("starred in literal")
        for vals, s in self.ev_many(e.elts, st):
            if self.spec:
                arr = z3.K(smt.I, VNone)
                for k, it in enumerate(vals):
                    arr = z3.Store(arr, k, self.as_val(s, it).t)
                out.append((SeqView(z3.IntVal(len(vals)), arr), s))
                continue
            s = s.copy() if len(out) else s
            out.append((self.new_list_of(s, vals, kind), s))
        return out

    def ev_Dict(self, e, st):
        out = []
        if any(k is None for k in e.keys):
            raise Unsupported("** in dict literal")
        for vals, s in self.ev_many([x for kv in zip(e.keys, e.values) for x in kv], st):
            d = self.new_dict(s)
            for k, v in zip(vals[0::2], vals[1::2]):
                s.heap = s.heap.dset(d.ref, self.as_val(s, k).t, self.as_val(s, v).t)
            out.append((d, s))
        return out

    def ev_Set(self, e, st):
        out = []
        for vals, s in self.ev_many(e.elts, st):
            d = self.new_dict(s, "set")
            for k in vals:
                s.heap = s.heap.dset(d.ref, self.as_val(s, k).t, VNone)
            out.append((d, s))
        return out

    def ev_JoinedStr(self, e, st):
        parts = []
        exprs = []
        for v in e.values:
            if isinstance(v, ast.Constant):
                parts.append(v.value)
            else:
                parts.append(v)
                exprs.append(v.value)
        out = []
        for vals, s in self.ev_many(exprs, st):
            from . import models
            it = iter(vals)
            acc = z3.StringVal("")
            for p in parts:
                if isinstance(p, str):
                    acc = z3.Concat(acc, z3.StringVal(p))
                else:
                    val = next(it)
                    spec = None
                    if p.format_spec is not None:
                        if not all(isinstance(x, ast.Constant) for x in p.format_spec.values):
                            raise Unsupported("dynamic format spec")
                        spec = "".join(x.value for x in p.format_spec.values)
                    conv = {-1: None, 114: "r", 115: "s", 97: "a"}[p.conversion]
                    acc = z3.Concat(acc, models.format_value(self, s, val, spec, conv))
            out.append((sv_str(smt.simp(acc)), s))
        return out

    def ev_Call(self, e, st):
        from . import models
        return models.call(self, e, st)

    def ev_ListComp(self, e, st):
        from . import comp
        return comp.comprehension(self, e, st, "list")

    def ev_GeneratorExp(self, e, st):
        from . import comp
        return comp.comprehension(self, e, st, "gen")

    def ev_SetComp(self, e, st):
        from . import comp
        return comp.comprehension(self, e, st, "set")

    def ev_DictComp(self, e, st):
        from . import comp
        return comp.comprehension(self, e, st, "dict")

    # ------------------------------------------------------------------------------------------
    # statements
    # ------------------------------------------------------------------------------------------
    def exec_block(self, stmts, st):
        """-> list[Outcome] with kinds fall/return/break/continue ; raises go to self.raised[-1]"""
        states = [st]
        done = []
        for stmt in stmts:
            nxt = []
            for s in states:
                for o in self.exec_stmt(stmt, s):
                    if o.kind == "fall":
                        nxt.append(o.st)
                    else:
                        done.append(o)
            states = nxt
            if not states:
                break
        return done + [Outcome("fall", None, s) for s in states]

    def exec_stmt(self, stmt, st):
        self.cur_line = stmt.lineno
        m = getattr(self, "st_" + type(stmt).__name__, None)
        if m is None:
            raise Unsupported(f"statement {type(stmt).__name__}")
        return m(stmt, st)

    def st_Pass(self, stmt, st):
        return [Outcome("fall", None, st)]

    def st_Break(self, stmt, st):
        return [Outcome("break", None, st)]

    def st_Continue(self, stmt, st):
        return [Outcome("continue", None, st)]

    def st_Expr(self, stmt, st):
        if isinstance(stmt.value, ast.Constant):      # docstring
            return [Outcome("fall", None, st)]
        return [Outcome("fall", None, s) for _, s in self.ev(stmt.value, st)]

    def st_Return(self, stmt, st):
        if stmt.value is None:
            return [Outcome("return", sv_none(), st)]
        return [Outcome("return", v, s) for v, s in self.ev(stmt.value, st)]

    def st_Assign(self, stmt, st):
        out = []
        for v, s in self.ev(stmt.value, st):
            states = [s]
            for tgt in stmt.targets:
                nxt = []
                for s1 in states:
                    nxt += self.assign(tgt, v, s1)
                states = nxt
            out += [Outcome("fall", None, s2) for s2 in states]
        return out

    def st_AnnAssign(self, stmt, st):
        if stmt.value is None:
            return [Outcome("fall", None, st)]
        out = []
        for v, s in self.ev(stmt.value, st):
            out += [Outcome("fall", None, s2) for s2 in self.assign(stmt.target, v, s)]
        return out

    def st_AugAssign(self, stmt, st):
        load = ast.copy_location(ast.BinOp(left=_as_load(stmt.target), op=stmt.op, right=stmt.value), stmt)
        ast.fix_missing_locations(load)
        # in-place operators on lists (+=) mutate; handled by models.binop returning a fresh object is
        # only correct for immutable operands; lists are special-cased
        out = []
        tgt = stmt.target
        for (cur, rhs), s in self.ev_many([_as_load(tgt), stmt.value], st):
            from . import models
            for v, s2 in models.augassign(self, stmt.op, cur, rhs, s):
                out += [Outcome("fall", None, s3) for s3 in self.assign(tgt, v, s2)]
        return out

    def assign(self, tgt, v, st):
        """-> list of states"""
        if isinstance(tgt, ast.Name):
            if isinstance(v, SeqView) and not self.spec:
                pass  # generators may be bound to names lazily
            _, env = st.env.lookup(tgt.id)
            st.env.vars[tgt.id] = v
            return [st]
        if isinstance(tgt, (ast.Tuple, ast.List)):
            from . import models
            return models.unpack(self, tgt.elts, v, st)
        if isinstance(tgt, ast.Attribute):
            out = []
            for obj, s in self.ev(tgt.value, st):
                from . import models
                out += models.setattr_(self, obj, tgt.attr, v, s)
            return out
        if isinstance(tgt, ast.Subscript):
            out = []
            if isinstance(tgt.slice, ast.Slice):
                raise Unsupported("slice assignment")
            for (obj, k), s in self.ev_many([tgt.value, tgt.slice], st):
                from . import models
                out += models.setitem(self, obj, k, v, s)
            return out
        raise Unsupported(f"assignment target {type(tgt).__name__}")

    def st_If(self, stmt, st):
        out = []
        for c, s in self.ev(stmt.test, st):
            t, f = self.branch(s, self.truth(s, c))
            if t is not None:
                self.narrow(stmt.test, t, True)
                out += self.exec_block(stmt.body, t)
            if f is not None:
                self.narrow(stmt.test, f, False)
                out += self.exec_block(stmt.orelse, f) if stmt.orelse else [Outcome("fall", None, f)]
        return out

    def narrow(self, test, st, positive):
        """refine static types of local names after isinstance / is None tests"""
        if isinstance(test, ast.UnaryOp) and isinstance(test.op, ast.Not):
            return self.narrow(test.operand, st, not positive)
        if isinstance(test, ast.Call) and isinstance(test.func, ast.Name) and test.func.id == "isinstance" \
                and isinstance(test.args[0], ast.Name) and positive:
            v, _ = st.env.lookup(test.args[0].id)
            if isinstance(v, SV) and v.ty is None:
                tys = self.isinstance_types(test.args[1], st)
                if tys is not None and len(tys) == 1:
                    st.env.vars[test.args[0].id] = self.with_ty(st, v, tys[0])
        if isinstance(test, ast.Compare) and len(test.ops) == 1 and isinstance(test.left, ast.Name) \
                and isinstance(test.comparators[0], ast.Constant) and test.comparators[0].value is None:
            is_none_test = isinstance(test.ops[0], ast.Is)
            if isinstance(test.ops[0], (ast.Is, ast.IsNot)) and (is_none_test == positive):
                v, _ = st.env.lookup(test.left.id)
                if isinstance(v, SV):
                    st.env.vars[test.left.id] = sv_none()

    def isinstance_types(self, node, st):
        names = [node] if not isinstance(node, ast.Tuple) else node.elts
        tys = []
        for n in names:
            try:
                (c, _), = self.ev(n, st)
            except Exception:
                return None
            if not isinstance(c, ClassRef):
                return None
            tys.append(self.reg.ty_of_class(c.pycls))
        return tys

    def st_Assert(self, stmt, st):
        out = []
        for c, s in self.ev(stmt.test, st):
            t, f = self.branch(s, self.truth(s, c))
            if f is not None:
                self.raise_exc(f, AssertionError)
            if t is not None:
                self.narrow(stmt.test, t, True)
                out.append(Outcome("fall", None, t))
        return out

    def st_Raise(self, stmt, st):
        if stmt.exc is None:
            cur = st.ghost.get("current_exc")
            if cur is None:
                raise Unsupported("bare raise outside handler")
            self.raised[-1].append(Outcome("raise", cur, st))
            return []
        for v, s in self.ev(stmt.exc, st):
            if isinstance(v, ClassRef):
                v = ExcVal(v.pycls)
            if not isinstance(v, ExcVal):
                raise Unsupported(f"raise of {v!r}")
            self.raised[-1].append(Outcome("raise", v, s))
        return []

    def st_Try(self, stmt, st):
        if stmt.finalbody:
            raise Unsupported("try/finally")
        self.raised.append([])
        try:
            body_out = self.exec_block(stmt.body, st)
        finally:
            raised = self.raised.pop()
        out = []
        for o in body_out:
            if o.kind == "fall" and stmt.orelse:
                out += self.exec_block(stmt.orelse, o.st)
            else:
                out.append(o)
        for r in raised:
            exc = r.val
            handled = False
            for h in stmt.handlers:
                if h.type is None:
                    match = True
                else:
                    classes = self.handler_classes(h.type, r.st)
                    match = any(issubclass(exc.cls, c) for c in classes)
                if match:
                    s = r.st
                    if h.name:
                        s.env.vars[h.name] = exc
                    prev = s.ghost.get("current_exc")
                    s.ghost["current_exc"] = exc
                    res = self.exec_block(h.body, s)
                    for o in res:
                        o.st.ghost["current_exc"] = prev
                    out += res
                    handled = True
                    break
            if not handled:
                self.raised[-1].append(r)
        return out

    def handler_classes(self, node, st):
        names = node.elts if isinstance(node, ast.Tuple) else [node]
        out = []
        for n in names:
            (c, _), = self.ev(n, st)
            if not isinstance(c, ClassRef):
                raise Unsupported("except target")
            out.append(c.pycls)
        return out

    def st_FunctionDef(self, stmt, st):
        st.env.vars[stmt.name] = Closure(stmt, None, f"{self.qual}.<locals>.{stmt.name}")
        return [Outcome("fall", None, st)]

    def st_For(self, stmt, st):
        from . import loops
        return loops.for_loop(self, stmt, st)

    def st_While(self, stmt, st):
        from . import loops
        return loops.while_loop(self, stmt, st)

    def st_Delete(self, stmt, st):
        raise Unsupported("del")

    def st_With(self, stmt, st):
        raise Unsupported("with")

    # ------------------------------------------------------------------------------------------
    # inlined calls of closures / helpers
    # ------------------------------------------------------------------------------------------
    def call_closure(self, clo: Closure, args, kwargs, st, isolate=False):
        """inline a nested def / lambda / helper declared `inline`; free variables resolve in the
        caller's environment (closures are only ever called inside their defining function)"""
        node = clo.node
        self.depth += 1
        if self.depth > 8:
            self.depth -= 1
            raise Unsupported("inline depth")
        try:
            params = node.args
            names = [a.arg for a in params.posonlyargs + params.args]
            defaults = params.defaults
            if len(args) > len(names):
                raise Unsupported("too many args to inlined function")
            bound = dict(zip(names, args))
            for k, v in kwargs.items():
                if k == "**":
                    raise Unsupported("** into inlined function")
                bound[k] = v
            nd = len(defaults)
            for idx, n in enumerate(names):
                if n not in bound:
                    di = idx - (len(names) - nd)
                    if di < 0:
                        raise Unsupported(f"missing argument {n}")
                    (dv, _), = self.ev(defaults[di], st)
                    bound[n] = dv
            for a, d in zip(params.kwonlyargs, params.kw_defaults):
                if a.arg not in bound:
                    (dv, _), = self.ev(d, st)
                    bound[a.arg] = dv
            caller = st.env
            st.env = Env(bound, None if isolate else caller, caller)
            self.inlined.add(clo.qualname)
            mark = len(self.raised[-1])
            if isinstance(node, ast.Lambda):
                res = list(self.ev(node.body, st))
            else:
                res = []
                for o in self.exec_block(node.body, st):
                    if o.kind == "return":
                        res.append((o.val, o.st))
                    elif o.kind == "fall":
                        res.append((sv_none(), o.st))
                    else:
                        raise Unsupported("break/continue escaping inlined function")
            for _, s in res:
                s.env = s.env.ret
            for r in self.raised[-1][mark:]:
                r.st.env = r.st.env.ret
            return res
        finally:
            self.depth -= 1


def _dfs(node):
    yield node
    for c in ast.iter_child_nodes(node):
        yield from _dfs(c)


def _as_load(node):
    n = ast.parse(ast.unparse(node), mode="eval").body
    return ast.copy_location(n, node)
