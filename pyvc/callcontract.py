"""Modular calls: a call site sees only the callee's contract.  Also: specification expressions
(evaluated by the same interpreter in `spec` mode) and object construction."""
from __future__ import annotations

import ast
import re

import z3

from . import smt
from .engine import Env, Outcome, State, Unsupported
from .heap import ARR_KINDS, TYP, class_id
from .smt import (VBool, VInt, VNone, VReal, VRef, VStr, Val, fresh, get_b, get_i, get_r, get_ref,
                  get_s, is_bool, is_int, is_none, is_real, is_ref, is_str)
from .source import find_function
from .values import (SV, BoundMeth, ClassRef, Closure, ExcVal, FuncRef, ModuleRef, PyConst, SeqView,
                     from_python, sv_bool, sv_float, sv_int, sv_none, sv_ref, sv_str)

PRIM = ("none", "bool", "int", "float", "str")


# ---------------------------------------------------------------------------------------------------
# specification expressions
# ---------------------------------------------------------------------------------------------------
def spec_bool(eng, node, st, bindings=None, result=None):
    """evaluate a specification expression to a z3 Bool in state st (st.old = pre-state)"""
    env = Env(dict(bindings or {}), st.env)
    s = State(env, st.heap, st.pc, st.old, dict(st.ghost))
    if result is not None:
        s.ghost["result"] = result
    eng.spec += 1
    try:
        res = eng.ev(node, s)
    finally:
        eng.spec -= 1
    if len(res) != 1:
        raise Unsupported("specification with several outcomes")
    v, s2 = res[0]
    # assumptions added while evaluating the spec (definitions of fresh arrays) are kept
    for f in s2.pc[len(st.pc):]:
        st.pc.append(f)
    return eng.truth(s2, v)


def spec_value(eng, node, st, bindings=None, result=None):
    env = Env(dict(bindings or {}), st.env)
    s = State(env, st.heap, st.pc, st.old, dict(st.ghost))
    if result is not None:
        s.ghost["result"] = result
    eng.spec += 1
    try:
        res = eng.ev(node, s)
    finally:
        eng.spec -= 1
    if len(res) != 1:
        raise Unsupported("specification with several outcomes")
    v, s2 = res[0]
    for f in s2.pc[len(st.pc):]:
        st.pc.append(f)
    return v


def _quant(eng, e, st, kind):
    lam = e.args[0]
    if not isinstance(lam, ast.Lambda):
        raise Unsupported("quantifier needs a lambda")
    names = [a.arg for a in lam.args.args]
    sort = {"forall": "i", "exists": "i", "forallv": "v", "existsv": "v", "foralls": "s", "existss": "s"}[kind]
    consts = []
    binds = {}
    for n in names:
        if sort == "i":
            c = fresh("q_" + n, smt.I)
            binds[n] = sv_int(c)
        elif sort == "s":
            c = fresh("q_" + n, smt.S)
            binds[n] = sv_str(c)
        else:
            c = fresh("q_" + n, Val)
            binds[n] = SV(c, None)
        consts.append(c)
    env = Env(binds, st.env)
    n0 = len(st.pc)
    mark = next(smt._counter)
    s = State(env, st.heap, st.pc, st.old, dict(st.ghost))
    (body, s2), = eng.ev(lam.body, s)
    b = eng.truth(s2, body)
    extra = list(st.pc[n0:])
    # soundness guard: a free symbol introduced while evaluating the body (fresh array defined by an
    # assumption) would be ONE symbol for ALL values of the bound variables
    from z3.z3util import get_vars as _gv
    own = {c.get_id() for c in consts}
    for f in extra + [b]:
        for v in _gv(f):
            m = re.search(r"!(\d+)$", v.decl().name())
            if m and int(m.group(1)) > mark and v.get_id() not in own:
                raise Unsupported(f"fresh symbol {v} defined under a quantifier")
    if extra:
        # facts introduced while evaluating the body (representation invariants of the objects touched,
        # definitions of fresh arrays) hold for every value of the bound variables: they are hoisted as
        # universally quantified assumptions, whatever the polarity of the quantifier itself
        del st.pc[n0:]
        from z3.z3util import get_vars
        ids = {c.get_id() for c in consts}
        for f in extra:
            if any(v.get_id() in ids for v in get_vars(f)):
                st.pc.append(z3.ForAll(consts, f))
            else:
                st.pc.append(f)
    q = z3.ForAll if kind.startswith("forall") else z3.Exists
    return [(sv_bool(q(consts, b)), st)]


def spec_form(eng, e, st):
    """special forms of the contract language; returns None if e is not one"""
    if not isinstance(e.func, ast.Name):
        return None
    name = e.func.id
    if name in ("forall", "exists", "forallv", "existsv", "foralls", "existss"):
        return _quant(eng, e, st, name)
    if name == "old":
        if st.old is None:
            raise Unsupported("old() without pre-state")
        s = State(st.env, st.old.heap, st.pc, None, st.old.ghost)
        (v, _), = eng.ev(e.args[0], s)
        return [(v, st)]
    if name == "implies":
        (a, _), = eng.ev(e.args[0], st)
        (b, _), = eng.ev(e.args[1], st)
        return [(sv_bool(z3.Implies(eng.truth(st, a), eng.truth(st, b))), st)]
    if name == "iff":
        (a, _), = eng.ev(e.args[0], st)
        (b, _), = eng.ev(e.args[1], st)
        return [(sv_bool(eng.truth(st, a) == eng.truth(st, b)), st)]
    if name == "isfresh":
        (a, _), = eng.ev(e.args[0], st)
        base = st.old.heap.alloc if st.old is not None else eng.entry_alloc
        a = eng.as_val(st, a)
        return [(sv_bool(z3.And(is_ref(a.t), get_ref(a.t) >= base, get_ref(a.t) < st.heap.alloc)), st)]
    if name == "allocated_before":
        (a, _), = eng.ev(e.args[0], st)
        base = st.old.heap.alloc if st.old is not None else eng.entry_alloc
        a = eng.as_val(st, a)
        return [(sv_bool(z3.And(is_ref(a.t), get_ref(a.t) < base)), st)]
    if name == "typ":
        (a, _), = eng.ev(e.args[0], st)
        tys = [x.value for x in e.args[1:]]
        a = eng.as_val(st, a)
        return [(sv_bool(z3.Or([eng.ty_cond(a, t) for t in tys])), st)]
    if name == "same":
        (a, _), = eng.ev(e.args[0], st)
        (b, _), = eng.ev(e.args[1], st)
        return [(sv_bool(eng.as_val(st, a).t == eng.as_val(st, b).t), st)]
    if name == "as_ty":
        (a, _), = eng.ev(e.args[0], st)
        return [(eng.with_ty(st, eng.as_val(st, a), e.args[1].value), st)]
    return None


# ---------------------------------------------------------------------------------------------------
# argument binding
# ---------------------------------------------------------------------------------------------------
def bind_args(eng, fi, args, kwargs, s):
    """-> dict name -> value ; raises Unsupported for shapes outside the subset"""
    from .models import StarArg, expand_star
    a = fi.node.args
    args = expand_star(eng, args, s)
    names = [x.arg for x in a.posonlyargs + a.args]
    bound = {}
    if len(args) > len(names):
        if a.vararg is None:
            return None          # arity error
        extra = args[len(names):]
        args = args[:len(names)]
        bound[a.vararg.arg] = eng.new_list_of(s, [eng.as_val(s, x) for x in extra], "tuple")
    elif a.vararg is not None:
        bound[a.vararg.arg] = eng.new_list_of(s, [], "tuple")
    for n, v in zip(names, args):
        bound[n] = v
    kwargs = dict(kwargs)
    dstar = kwargs.pop("**", None)
    kwnames = [x.arg for x in a.kwonlyargs]
    extra_kw = {}
    for k, v in kwargs.items():
        if k in bound:
            return None
        if k in names or k in kwnames:
            bound[k] = v
        elif a.kwarg is not None:
            extra_kw[k] = v
        else:
            return None
    if a.kwarg is not None and dstar is None:
        d = eng.new_dict(s)
        for k, v in extra_kw.items():
            s.heap = s.heap.dset(d.ref, VStr(z3.StringVal(k)), eng.as_val(s, v).t)
        bound[a.kwarg.arg] = d
    elif extra_kw:
        raise Unsupported("**kwargs parameter with explicit keywords and **d")
    if dstar is not None:
        d = eng.as_val(s, dstar)
        h = s.heap
        s.assume(*h.dict_wf(d.ref))
        missing = [n for n in names + kwnames if n not in bound]
        if a.kwarg is not None:
            # f(x, **d) where f takes **kw: keys of d that are parameter names are not supported; d is passed on whole
            if missing:
                # f(**d) where f has parameters p (with constant defaults) AND **kw: p takes d[p] when d has the key, its
                # default otherwise; kw receives the other entries of d, in d's order
                defaults0 = dict(zip(names[len(names) - len(a.defaults):], a.defaults))
                defaults0.update({x.arg: dv for x, dv in zip(a.kwonlyargs, a.kw_defaults) if dv is not None})
                taken_now = []
                for n in missing:
                    node = defaults0.get(n)
                    if not isinstance(node, ast.Constant):
                        raise Unsupported("**d into a function with **kwargs and a parameter without constant default")
                    dv = from_python(node.value) or eng.as_val(s, PyConst(node.value))
                    key = VStr(z3.StringVal(n))
                    bound[n] = SV(z3.If(h.dhas(d.ref, key), h.dget(d.ref, key), eng.as_val(s, dv).t), None)
                    taken_now.append(key)
                from .heap import DictComps
                old_c = DictComps(h.dlen(d.ref), h.dkeys(d.ref), h._get("dhas", d.ref), h._get("didx", d.ref), h._get("dval", d.ref))
                ref = eng.alloc(s, "dict")
                hh, new_c = s.heap.fresh_dict_at(ref, "kw")
                s.heap = hh
                x, x2 = z3.Const("kw_k", Val), z3.Const("kw_k2", Val)
                rest = lambda t: z3.And([t != k for k in taken_now])
                s.assume(*new_c.wf())
                s.assume(new_c.n >= 0, new_c.n <= old_c.n,
                         z3.ForAll([x], new_c.has(x) == z3.And(old_c.has(x), rest(x)), patterns=[new_c.has(x)]),
                         z3.ForAll([x], z3.Implies(rest(x), new_c.val(x) == old_c.val(x)), patterns=[new_c.val(x)]),
                         z3.ForAll([x, x2], z3.Implies(z3.And(new_c.has(x), new_c.has(x2)), (new_c.idx(x) < new_c.idx(x2)) == (old_c.idx(x) < old_c.idx(x2))),
                                   patterns=[z3.MultiPattern(new_c.idx(x), new_c.idx(x2))]))
                taken = [VStr(z3.StringVal(n)) for n in names + kwnames if VStr(z3.StringVal(n)) not in taken_now and n not in missing]
                eng.oblige(f"{eng.qual}.call.{fi.qualname.rsplit('.', 1)[-1]}.kwargs_no_collision@L{eng.cur_line}", s,
                           z3.And([z3.Not(h.dhas(d.ref, t)) for t in taken]) if taken else z3.BoolVal(True), "call")
                bound[a.kwarg.arg] = sv_ref(ref, "dict")
                dstar = None
        if dstar is not None and a.kwarg is not None:
            # Python builds a NEW dict for the callee's **kwargs: same entries, same order
            ref = eng.alloc(s, "dict")
            hh = s.heap.copy()
            for kind in ("dlen", "dkeys", "dhas", "didx", "dval"):
                hh._put(kind, ref, s.heap._get(kind, d.ref))
            s.heap = hh
            # no key of d may collide with a parameter that was bound positionally
            i = z3.Int("ks_i")
            taken = [VStr(z3.StringVal(n)) for n in names + kwnames]
            eng.oblige(f"{eng.qual}.call.{fi.qualname.rsplit('.', 1)[-1]}.kwargs_no_collision@L{eng.cur_line}", s,
                       z3.And([z3.Not(h.dhas(d.ref, t)) for t in taken]) if taken else z3.BoolVal(True), "call")
            bound[a.kwarg.arg] = sv_ref(ref, "dict")
            dstar = None
    if dstar is not None:
        d = eng.as_val(s, dstar)
        h = s.heap
        missing = [n for n in names + kwnames if n not in bound]
        # every key of d must be one of the still-unbound parameters, and cover the required ones
        i = z3.Int("ks_i")
        keyvals = [VStr(z3.StringVal(n)) for n in missing]
        all_known = z3.ForAll([i], z3.Implies(z3.And(0 <= i, i < h.dlen(d.ref)),
                                              z3.Or([z3.Select(h.dkeys(d.ref), i) == kv for kv in keyvals])))
        eng.oblige(f"{eng.qual}.call.{fi.qualname.rsplit('.', 1)[-1]}.kwargs_known@L{eng.cur_line}", s, all_known, "call")
        defaults = dict(zip(names[len(names) - len(a.defaults):], a.defaults))
        for n in missing:
            has = h.dhas(d.ref, VStr(z3.StringVal(n)))
            if n not in defaults:
                eng.oblige(f"{eng.qual}.call.{fi.qualname.rsplit('.', 1)[-1]}.kwargs_has_{n}@L{eng.cur_line}", s, has, "call")
                bound[n] = SV(h.dget(d.ref, VStr(z3.StringVal(n))), None)
            else:
                raise Unsupported("**d over defaulted parameter")
    defaults = dict(zip(names[len(names) - len(a.defaults):], a.defaults))
    for n in names:
        if n not in bound:
            if n not in defaults:
                return None
            bound[n] = ("default", defaults[n])
    for x, d in zip(a.kwonlyargs, a.kw_defaults):
        if x.arg not in bound:
            if d is None:
                return None
            bound[x.arg] = ("default", d)
    # defaults are constants in all functions of interest
    for n, v in list(bound.items()):
        if isinstance(v, tuple) and v and v[0] == "default":
            node = v[1]
            if isinstance(node, ast.Constant):
                bound[n] = from_python(node.value) or PyConst(node.value)
            elif isinstance(node, ast.Tuple) and not node.elts:
                bound[n] = eng.new_list_of(s, [], "tuple")
            elif isinstance(node, (ast.UnaryOp,)) and isinstance(node.operand, ast.Constant):
                bound[n] = from_python(-node.operand.value)
            else:
                raise Unsupported(f"default of {n}")
    return bound


def type_conds(eng, v, tyspec):
    """'str|none' -> (z3 condition, static type or None)"""
    alts = [t.strip() for t in tyspec.split("|")]
    if "any" in alts:
        return z3.BoolVal(True), None
    conds = [eng.ty_cond(v, t) for t in alts]
    return (conds[0], alts[0]) if len(alts) == 1 else (z3.Or(conds), None)


# ---------------------------------------------------------------------------------------------------
# calls
# ---------------------------------------------------------------------------------------------------
def call_function(eng, fref, args, kwargs, s, bound=False):
    reg = eng.reg
    qn = fref.qualname
    if qn in reg.externals:
        eng.externals_used.add(qn)
        return reg.externals[qn](eng, s, args, kwargs)
    c = reg.contracts.get(qn)
    fi = find_function(qn)
    if c is None:
        if qn in reg.inline and fi is not None:
            return inline_call(eng, fi, args, kwargs, s)
        raise Unsupported(f"call to {qn} (no contract)")
    if fi is None:
        raise Unsupported(f"contract for {qn} but no source")
    if fi.kind == "classmethod" and not bound:
        raise Unsupported("unbound classmethod call")
    b = bind_args(eng, fi, args, kwargs, s)
    short = qn.rsplit(".", 1)[-1]
    if b is None:
        # definite static obligation: the call does not match the callee's signature
        eng.oblige(f"{eng.qual}.call.{short}.arity@L{eng.cur_line}", s, z3.BoolVal(False), "call")
        eng.raise_exc(s, TypeError)
        return []
    return apply_contract(eng, c, fi, b, s, f"{eng.qual}.call.{short}@L{eng.cur_line}")


def apply_contract(eng, c, fi, b, s, label):
    """use contract c at a call site with parameter binding b in state s"""
    pre = s
    if c.opts.get("entry_defined") and not (eng.contract is not None and eng.contract.opts.get("entry_defined")):
        # has_table / first_table are defined over the heap at function entry: the callee's reading and the caller's agree
        # only if the caller cannot have changed a stored table, i.e. has an empty frame itself
        raise Unsupported(f"{c.qualname}: contract over entry-defined predicates used from a function without that discipline")
    # materialise arguments
    for n, v in list(b.items()):
        if isinstance(v, (SeqView, PyConst)):
            b[n] = eng.as_val(s, v)
    # parameter types: obligations, then static types for the spec evaluation
    for n, tyspec in c.types.items():
        if n not in b or not isinstance(b[n], SV):
            continue
        if isinstance(b[n], ClassRef):
            continue
        cond, sty = type_conds(eng, b[n], tyspec)
        eng.oblige(f"{label}.type.{n}", s, cond, "call-pre")
        if sty is not None and b[n].ty is None:
            b[n] = eng.with_ty(s, b[n], sty)
    pre_state = State(s.env, s.heap, s.pc, None, dict(s.ghost))
    spec_st = State(s.env, s.heap, s.pc, pre_state, s.ghost)
    for k, r in enumerate(c.requires):
        eng.oblige(f"{label}.pre.{k}", s, spec_bool(eng, r, spec_st, b), "call-pre")
    out = []
    # exceptional behaviour
    normal = s
    for exc_name, cond in c.raises.items():
        cls = resolve_exc(eng, fi, exc_name)
        if cond is None:
            flag = fresh(f"may_raise_{exc_name}", smt.B)
        else:
            flag = spec_bool(eng, cond, spec_st, b)
        if normal is None:
            break
        bad, normal = eng.branch(normal, flag)
        if bad is not None:
            if c.modifies:
                old_b = State(bad.env, bad.heap, bad.pc, None, dict(bad.ghost))
                havoc_for_call(eng, c, b, bad, spec_st, label)
                post_b = State(bad.env, bad.heap, bad.pc, old_b, bad.ghost)
                for e in c.opts.get("ensures_on_raise", []):
                    bad.assume(spec_bool(eng, ast.parse(e.strip(), mode="eval").body, post_b, b))
            eng.raise_exc(bad, cls)
    if normal is None:
        return []
    s = normal
    old = State(s.env, s.heap, s.pc, None, dict(s.ghost))
    havoc_for_call(eng, c, b, s, spec_st, label)
    # result
    rty = c.returns
    if rty == "none":
        res = sv_none()
    else:
        rt = fresh("res_" + fi.qualname.rsplit(".", 1)[-1], Val)
        res = SV(rt, None)
        if rty:
            cond, sty = type_conds(eng, res, rty)
            s.assume(cond)
            if sty:
                res = eng.with_ty(s, res, sty)
        if not (rty in PRIM):
            s.assume(z3.Implies(is_ref(res.t), get_ref(res.t) < s.heap.alloc))
    for gname, gexpr in c.ghost_on_return.items():
        gv = eng.as_val(s, spec_value(eng, gexpr, spec_st, b))
        s.heap = s.heap.set_field(get_ref(res.t), "$" + gname, gv.t)
    post_st = State(s.env, s.heap, s.pc, old, s.ghost)
    for e in c.ensures:
        s.assume(spec_bool(eng, e, post_st, b, result=res))
    if c.fresh and isinstance(res, SV) and res.ty not in PRIM:
        s.assume(get_ref(res.t) >= old.heap.alloc)
    if "result_view" in c.opts:
        res = spec_value(eng, ast.parse(c.opts["result_view"].strip(), mode="eval").body, post_st, b)
    return [(res, s)]


def is_pure_contract(c):
    if c.pure is not None:
        return c.pure
    return not c.modifies and (c.returns in PRIM or c.returns == "none")


def havoc_for_call(eng, c, b, s, spec_st, label):
    """after the call: everything the callee may have written is unknown, the rest is framed"""
    if is_pure_contract(c):
        return
    old_heap = s.heap
    from .values import RefSet, in_frame
    refs = []
    for m in c.modifies:
        v = spec_value(eng, m, spec_st, b)
        if isinstance(v, RefSet):
            refs.append(v)
            continue
        v = eng.as_val(s, v)
        refs.append(get_ref(v.t))
    for r in refs:
        if isinstance(r, RefSet):
            # the callee's frame must lie within the caller's: for every reference of the set
            q = z3.Int("fs_r")
            eng.oblige(f"{label}.frame.set", s,
                       z3.ForAll([q], z3.Implies(r.pred(q), z3.Or(q >= eng.entry_alloc, in_frame(q, eng.modifies_refs)))), "frame")
            for (a0, lrefs, llabel) in eng.frame_stack:
                eng.oblige(f"{label}.{llabel}.frame.set", s,
                           z3.ForAll([q], z3.Implies(r.pred(q), z3.Or(q >= a0, in_frame(q, lrefs)))), "frame")
        else:
            eng.check_write(s, r, "callee")
    if not refs:
        # the callee writes nothing that existed before the call (its own frame obligations): the heap
        # arrays are kept; its fresh objects live in [alloc, alloc') whose cells nothing has constrained yet
        h = old_heap.copy()
        h.alloc = fresh("call_alloc", smt.I)
        s.heap = h
        s.assume(h.alloc >= old_heap.alloc)
        return
    fields = c.modifies_fields
    if all(not isinstance(r, RefSet) for r in refs):
        # a finite frame: only these objects get unknown contents (stores of fresh components); every other
        # object stays syntactically what it was — no frame quantifiers needed
        if fields is None:
            fields = sorted({f for k in eng.reg.classes.values() for f in k.fields} | set(old_heap.fld.keys()))
        h = old_heap.copy()
        h.alloc = fresh("call_alloc", smt.I)
        s.assume(h.alloc >= old_heap.alloc)
        i = z3.Int("hv_i")
        k = z3.Const("hv_k", Val)

        def live(v):
            return z3.Implies(is_ref(v), z3.And(get_ref(v) >= 0, get_ref(v) < h.alloc))
        for r in refs:
            for kind, sort in ARR_KINDS.items():
                comp = fresh("hv_" + kind, sort.range())
                h._put(kind, r, comp)
                if kind in ("lelem", "dkeys"):
                    s.assume(z3.ForAll([i], live(z3.Select(comp, i)), patterns=[z3.Select(comp, i)]))
                elif kind == "dval":
                    s.assume(z3.ForAll([k], live(z3.Select(comp, k)), patterns=[z3.Select(comp, k)]))
            for f in fields:
                v = fresh("hv_fld_" + f, Val)
                h._put("fld:" + f, r, v)
                s.assume(live(v))
        s.heap = h
        if "stdout" in c.opts.get("ghost_modifies", ()):
            s.ghost["stdout"] = (fresh("out_n", smt.I), fresh("out_arr", smt.ArrIV))
        return
    if fields is None:
        fields = list(old_heap.fld.keys()) if refs else []
    kinds = list(ARR_KINDS) if (refs or True) else []
    new = old_heap.havoc(kinds, fields, "call")
    may = (lambda r: in_frame(r, refs))
    s.heap = new
    s.assume(*new.frame_facts(old_heap, kinds, fields, may))
    s.assume(*new.closed_facts())
    if "stdout" in c.opts.get("ghost_modifies", ()):
        s.ghost["stdout"] = (fresh("out_n", smt.I), fresh("out_arr", smt.ArrIV))


def resolve_exc(eng, fi, name):
    import builtins
    if name in fi.module_globals and isinstance(fi.module_globals[name], type):
        return fi.module_globals[name]
    if hasattr(builtins, name):
        return getattr(builtins, name)
    for mod in ("particle", "particle.exceptions", "lark.exceptions", "decaylanguage.utils.errors",
                "decaylanguage.dec.dec"):
        try:
            m = __import__(mod, fromlist=[name])
            if hasattr(m, name):
                return getattr(m, name)
        except ImportError:
            pass
    raise Unsupported(f"exception class {name}")


def inline_call(eng, fi, args, kwargs, s):
    clo = Closure(fi.node, None, fi.qualname)
    saved = eng.module_globals
    eng.module_globals = fi.module_globals
    try:
        from .models import expand_star
        return eng.call_closure(clo, expand_star(eng, args, s), kwargs, s, isolate=True)
    finally:
        eng.module_globals = saved


# ---------------------------------------------------------------------------------------------------
# construction
# ---------------------------------------------------------------------------------------------------
def construct(eng, pycls, args, kwargs, s):
    reg = eng.reg
    if isinstance(pycls, type) and issubclass(pycls, BaseException):
        return [(ExcVal(pycls), s)]
    name = pycls.__name__
    if name in reg.constructors:
        return reg.constructors[name](eng, s, args, kwargs)
    schema = reg.classes.get(name)
    if schema is None:
        raise Unsupported(f"construction of {name}")
    init = reg.method(name, "__init__")
    ref = eng.alloc(s, name)
    obj = sv_ref(ref, "obj:" + name)
    if schema.kind == "dict":
        s.heap = s.heap.set_dict_empty(ref)
    if init is None:
        if args or kwargs:
            raise Unsupported(f"{name}() with arguments but no __init__ contract")
        return [(obj, s)]
    from .models import call_value
    return [(obj, s2) for _, s2 in call_function(eng, init, [obj] + list(args), kwargs, s)]
