"""./check <PROPERTY> [--tier quick|thorough]   decide one property
   ./check replay <file>                        re-run the recorded failing call on the current tree
   ./check lock                                 (maintenance) rewrite obligations.lock.json from the current tree
   ./check func <qualname>...                   (debug) verify single functions and print obligations

Exit codes: 0 held / 1 VIOLATION (line printed) / 2 undecided / 3 checker error.
"""
from __future__ import annotations

import argparse
import hashlib
import importlib
import json
import multiprocessing as mp
import os
import re
import sys
import time
import traceback

ROOT = os.path.dirname(os.path.dirname(os.path.abspath(__file__)))
# (the two overrides are for runs against a scratch copy of the repository: tools/eval_seeded.py --scratch)
EVIDENCE_DIR = os.environ.get("DLVERIF_EVIDENCE_DIR") or os.path.join(ROOT, "evidence")
REPLAY_DIR = os.environ.get("DLVERIF_REPLAY_DIR") or os.path.join(ROOT, "replays")
LOCK = os.path.join(ROOT, "obligations.lock.json")
KNOWN = os.path.join(ROOT, "known_findings.json")


def base_name(name: str) -> str:
    return re.sub(r"@L\d+", "", re.sub(r"#p\d+$", "", name))


def _verify_one(q):
    from .contracts import load_all
    from .verify import verify_function
    reg = load_all()
    try:
        rep = verify_function(reg, q, {"timeout_ms": int(os.environ.get("PYVC_TIMEOUT_MS", "10000")),
                                       "make_hints": bool(os.environ.get("PYVC_MAKE_HINTS"))})
        d = rep.to_json()
        if getattr(rep, "trace", None):
            d["trace"] = rep.trace
        return d
    except Exception as ex:
        return dict(qualname=q, status="error", detail=repr(ex), trace=traceback.format_exc(), obligations=[],
                    inlined=[], externals=[], seconds=0.0, sha=None, properties=[])


def verify_many(qualnames, jobs=None):
    """The verification conditions are generated in a child interpreter with PYTHONHASHSEED=0: the text of a condition
    (argument order of conjunctions built from sets) must not vary from run to run, proof hints are keyed by it.  The
    bounded stand-ins keep the hash seed of the calling process."""
    if os.environ.get("PYTHONHASHSEED") == "0" or not qualnames:
        return _verify_many(qualnames, jobs)
    import subprocess
    import tempfile
    with tempfile.NamedTemporaryFile("r", suffix=".json", dir=os.environ.get("PYVC_TMP") or "/var/tmp") as f:
        p = subprocess.run([sys.executable, "-m", "pyvc.cli", "_verify", f.name] + list(qualnames),
                           env=dict(os.environ, PYTHONHASHSEED="0"), cwd=ROOT)
        try:
            return json.load(f)
        except ValueError:
            return [dict(qualname=q, status="error", detail=f"verification worker failed (exit {p.returncode})", trace="",
                         obligations=[], inlined=[], externals=[], seconds=0.0, sha=None, properties=[]) for q in qualnames]


def _verify_many(qualnames, jobs=None):
    jobs = jobs or min(16, max(1, len(qualnames)))
    if len(qualnames) <= 1 or jobs == 1:
        return [_verify_one(q) for q in qualnames]
    ctx = mp.get_context("fork")
    # every function may have 16 queries in flight, but at most PYVC_SOLVERS solver processes exist at a time overall
    from . import verify
    verify.SOLVER_SLOTS = ctx.BoundedSemaphore(int(os.environ.get("PYVC_SOLVERS", "16")))
    with ctx.Pool(jobs) as pool:
        return pool.map(_verify_one, qualnames, chunksize=1)


def functions_of(reg, pid):
    return sorted(q for q, c in reg.contracts.items() if pid in c.properties)


def load_known():
    if not os.path.exists(KNOWN):
        return []
    with open(KNOWN) as f:
        return json.load(f).get("findings", [])


def write_replay(pid, kind, payload):
    os.makedirs(REPLAY_DIR, exist_ok=True)
    h = hashlib.sha256(json.dumps(payload, sort_keys=True, default=str).encode()).hexdigest()[:10]
    path = os.path.join(REPLAY_DIR, f"{pid}-{kind}-{h}.json")
    with open(path, "w") as f:
        json.dump(payload, f, indent=1, default=str)
    return os.path.relpath(path, ROOT)


def run_property(pid, tier, seed):
    from .contracts import load_all
    t0 = time.time()
    reg = load_all()
    try:
        mod = importlib.import_module(f"checks.{pid}")
    except ModuleNotFoundError as ex:
        if ex.name != f"checks.{pid}":
            raise
        mod = None
    funcs = functions_of(reg, pid)
    reports = verify_many(funcs) if funcs else []
    known = [k for k in load_known() if k.get("property") == pid and k.get("status") == "known"]
    lock = json.load(open(LOCK)) if os.path.exists(LOCK) else {}

    lines = []
    violations = []          # dicts(function, obligation, status, reason, input)
    undecided = []
    errors = []
    known_hits = []
    n_obl = n_dis = 0
    per_function = []
    solver_s = 0.0
    for rep in reports:
        obs = rep["obligations"]
        n_obl += len(obs)
        dis = [o for o in obs if o["status"] == "unsat"]
        n_dis += len(dis)
        solver_s += sum(o["seconds"] for o in obs)
        backends = sorted({o["backend"] for o in obs})
        per_function.append(dict(function=rep["qualname"], source_sha=rep["sha"], status=rep["status"],
                                 obligations=len(obs), discharged=len(dis), backends=backends,
                                 solver_s=round(sum(o["seconds"] for o in obs), 3), inlined=rep["inlined"],
                                 externals=rep["externals"], detail=rep["detail"]))
        if rep["status"] in ("error", "missing"):
            errors.append(f"{rep['qualname']}: {rep['status']} {rep['detail']}")
            if rep.get("trace"):
                sys.stderr.write(rep["trace"])
            continue
        if rep["status"] == "unsupported":
            undecided.append(dict(function=rep["qualname"], obligation="<engine>", reason="unsupported: " + rep["detail"]))
        for o in obs:
            if o["status"] == "vacuous":
                errors.append(f"{rep['qualname']}: contradictory precondition (vacuous proof)")
            elif o["status"] != "unsat":
                violations.append(dict(function=rep["qualname"], obligation=base_name(o["name"]), instance=o["name"],
                                       status=o["status"], reason=o.get("reason", ""), line=o.get("line"),
                                       source_sha=rep["sha"]))
        locked = lock.get(rep["qualname"], {}).get("obligations")
        if locked is not None and rep["status"] == "ok":
            have = {base_name(o["name"]) for o in obs}
            missing = sorted(set(locked) - have)
            if len(obs) == 0 or (missing and len(have) < len(locked) // 2):
                errors.append(f"{rep['qualname']}: obligations vanished (have {len(have)}, locked {len(locked)})")
    if funcs and n_obl == 0:
        errors.append("zero obligations generated")

    # bounded stand-ins / lexical obligations / monitors of the property
    bounded = []
    extra_obl = []
    if mod is not None:
        try:
            res = mod.run(tier=tier, seed=seed)
        except Exception:
            errors.append("bounded/lexical part crashed: " + traceback.format_exc(limit=6))
            res = {}
        bounded = res.get("bounded", [])
        extra_obl = res.get("obligations", [])      # e.g. lexical obligations decided by z3's regex theory
    if pid in ("C01", "C02", "C06"):
        try:
            from checks import lexical
            extra_obl = list(extra_obl) + lexical.for_property(pid)
        except Exception:
            errors.append("lexical obligations crashed: " + traceback.format_exc(limit=6))
    if True:
        for o in extra_obl:
            n_obl += 1
            solver_s += o.get("seconds", 0.0)
            if o["status"] == "unsat":
                n_dis += 1
            elif o["status"] == "error":
                errors.append(f"{o['name']}: {o.get('reason', '')}")
            else:
                violations.append(dict(function=o.get("function", "<grammar>"), obligation=o["name"], instance=o["name"],
                                       status=o["status"], reason=o.get("reason", ""), input=o.get("witness"),
                                       replayed=o.get("replayed")))
        for b in bounded:
            for f in b.get("failures", []):
                violations.append(dict(function=f.get("function", b["name"]), obligation=f.get("clause", b["name"]),
                                       instance=b["name"], status="bounded-counterexample", reason=f.get("what", ""),
                                       input=f.get("input"), replayed=True, replay=f.get("replay")))
            for e in b.get("errors", []):
                errors.append(f"{b['name']}: {e}")

    # attach concrete inputs to failed proof obligations where a bounded failure names the same function
    by_func = {}
    for v in violations:
        if v.get("input") is not None:
            by_func.setdefault(v["function"], v)
    final = []
    seen = set()
    for v in violations:
        if v.get("input") is None and v["function"] in by_func:
            w = by_func[v["function"]]
            v["input"] = w["input"]
            v["replay"] = w.get("replay")
            v["witness_from"] = w["instance"]
        key = (v["function"], v["obligation"], json.dumps(v.get("input"), sort_keys=True, default=str))
        if key in seen:
            continue
        seen.add(key)
        final.append(v)

    # known findings
    reported = []
    for v in final:
        hit = None
        for k in known:
            if k.get("function") == v["function"] and (k.get("obligation") in (None, v["obligation"])) and \
               (k.get("input") is None or v.get("input") is None or k["input"] == v["input"]):
                hit = k
                break
        if hit:
            known_hits.append((hit, v))
        else:
            reported.append(v)
    for k, v in known_hits:
        lines.append(f"KNOWN-FINDING: property={pid} {k.get('what', v['obligation'])}")

    exit_code = 0
    viol_lines = []
    grouped = {}
    for v in reported:
        grouped.setdefault(v["function"], []).append(v)
    for fn, vs in grouped.items():
        withinput = [v for v in vs if v.get("input") is not None]
        payload = dict(property=pid, function=fn, tier=tier,
                       failed_obligations=[dict(obligation=v["obligation"], instance=v["instance"], status=v["status"],
                                                solver_reason=v["reason"], line=v.get("line")) for v in vs],
                       input=(withinput[0]["input"] if withinput else None),
                       replay=(withinput[0].get("replay") if withinput else None),
                       note=("concrete failing input found by the bounded monitor / solver model and replayed on the real code"
                             if withinput else
                             "no concrete failing input was found; the named obligations were discharged on the unchanged tree and "
                             "are no longer provable for the current source"))
        path = write_replay(pid, fn.rsplit(".", 1)[-1], payload)
        tail = "" if withinput else " no-failing-input-found"
        viol_lines.append(f"VIOLATION property={pid} replay={path}{tail}")
        exit_code = 1
    if errors:
        for e in errors:
            lines.append(f"CHECKER-ERROR property={pid} {e}")
        if exit_code == 0:
            exit_code = 3
    if undecided and exit_code == 0:
        for u in undecided:
            lines.append(f"UNDECIDED property={pid} function={u['function']} {u['reason']}")
        exit_code = 2

    wall = time.time() - t0
    meta = getattr(mod, "META", {}) if mod else {}
    claimed = None
    try:
        for c in json.load(open(os.path.join(ROOT, "MANIFEST.json")))["checks"]:
            if c["property_id"] == pid:
                claimed = c["level_claimed"]["category"]
    except Exception:
        pass
    proof_only = (claimed == "proof") if claimed is not None else bool(meta.get("level") == "proof")
    level = "proof" if proof_only and n_obl > 0 and n_dis == n_obl else "other"
    samples = []
    for rep in reports[:6]:
        for o in rep["obligations"][:3]:
            samples.append(dict(obligation=o["name"], status=o["status"], backend=o["backend"], seconds=o["seconds"]))
    for o in extra_obl[:6]:
        samples.append(dict(obligation=o["name"], status=o["status"], backend=o.get("backend", "z3"), seconds=o.get("seconds", 0)))
    for b in bounded:
        for s in b.get("samples", [])[:2]:
            samples.append(dict(bounded=b["name"], case=s))
    assumptions = sorted(set(list(meta.get("assumptions", [])) +
                             [f"{q}: {t}" for q, t in reg.assumptions.items()
                              if any(q in r["externals"] for r in reports) or q.startswith("new ")] +
                             ["A-REAL floats are reals", "A-INT ints are unbounded", "A-DICT dicts keep insertion order",
                              "A-NOCONC single-threaded", "A-NOMONKEY names resolve as the source says",
                              "A-EXC externals raise only the exceptions named in their assumed contracts",
                              "soundness of z3 / cvc5 and of the PyVC encoding (pyvc/*.py)"]))
    ev = dict(
        property_id=pid, tier=tier, seed=seed, level=level,
        coverage=dict(
            obligations=n_obl, discharged=n_dis,
            checker_cmd=f"./check {pid} --tier {tier}",
            trusted_base=sorted(set(["pyvc (this VC generator)", "z3 4.x/5.x", "cvc5 (second opinion on unknown)"] + meta.get("trusted_base", []))),
            explanation=meta.get("explanation", "") + f" Functions under contract: {len(reports)}; obligations {n_obl}, discharged {n_dis}; "
                        f"bounded stand-ins: {len(bounded)} (never counted in `discharged`).",
            functions=per_function,
            bounded=[{k: v for k, v in b.items() if k not in ("failures",)} for b in bounded],
            samples=samples or [dict(note="no obligations")],
            solver_seconds=round(solver_s, 3),
            evaluations=sum(b.get("evaluations", 0) for b in bounded) + n_obl,
            distinct_nontrivial=sum(b.get("distinct_nontrivial", 0) for b in bounded) + n_dis,
            rule="obligations: one SMT query per postcondition/path, loop-invariant entry/preservation, callee precondition, "
                 "frame and no-unexpected-exception condition generated from the current source; bounded: see each entry's rule",
            undecided=undecided, not_applicable_clauses=meta.get("not_applicable_clauses", []),
            known_findings=[k.get("what") for k, _ in known_hits],
        ),
        assumptions=assumptions, wall_s=round(wall, 2), violations=len(viol_lines))
    os.makedirs(EVIDENCE_DIR, exist_ok=True)
    with open(os.path.join(EVIDENCE_DIR, f"{pid}.json"), "w") as f:
        json.dump(ev, f, indent=1, default=str)
    try:
        import jsonschema
        jsonschema.validate(ev, json.load(open("/root/.vp/EVIDENCE.schema.json")))
    except FileNotFoundError:
        pass
    except Exception as ex:
        lines.append(f"CHECKER-ERROR property={pid} evidence does not validate: {ex}")
        exit_code = exit_code or 3
    print(f"{pid} [{tier}] functions={len(reports)} obligations={n_obl} discharged={n_dis} "
          f"bounded={len(bounded)} wall={wall:.1f}s")
    for pf in per_function:
        flag = "ok " if pf["status"] == "ok" and pf["obligations"] == pf["discharged"] else "!! "
        print(f"  {flag}{pf['function']}: {pf['discharged']}/{pf['obligations']} {pf['status']} {pf['detail']}")
    for b in bounded:
        print(f"  bounded {b['name']}: evaluations={b.get('evaluations')} failures={len(b.get('failures', []))} bound={b.get('bound')}")
    for l in lines:
        print(l)
    for l in viol_lines:
        print(l)
    return exit_code


def cmd_lock():
    from .contracts import load_all
    reg = load_all()
    reps = verify_many(sorted(reg.contracts))
    lock = {}
    for r in reps:
        lock[r["qualname"]] = dict(sha=r["sha"], status=r["status"],
                                   obligations=sorted({base_name(o["name"]) for o in r["obligations"] if o["status"] == "unsat"}))
    with open(LOCK, "w") as f:
        json.dump(lock, f, indent=1, sort_keys=True)
    print(f"locked {sum(len(v['obligations']) for v in lock.values())} obligation names of {len(lock)} functions")
    return 0


def cmd_func(names):
    from .contracts import load_all
    reg = load_all()
    if names == ["all"]:
        names = sorted(reg.contracts)
    rc = 0
    for d in verify_many(names):
        print(d["qualname"], d["status"], d["detail"], d["seconds"])
        if d.get("trace"):
            print(d["trace"])
        for o in d["obligations"]:
            if o["status"] != "unsat" or os.environ.get("PYVC_VERBOSE"):
                print("   ", o["status"], o["name"], o["seconds"], o.get("reason", ""))
        bad = [o for o in d["obligations"] if o["status"] != "unsat"]
        print(f"   {len(d['obligations']) - len(bad)}/{len(d['obligations'])} discharged")
        if bad or d["status"] != "ok":
            rc = 1
    return rc


def cmd_replay(path):
    with open(path) as f:
        payload = json.load(f)
    rp = payload.get("replay")
    print(json.dumps({k: payload[k] for k in ("property", "function", "failed_obligations", "input", "note") if k in payload}, indent=1))
    if not rp:
        print("no concrete input recorded (no-failing-input-found): re-running the proof obligations of the function")
        return cmd_func([payload["function"]])
    mod = importlib.import_module(rp["module"])
    ok, msg = getattr(mod, rp["function"])(payload["input"])
    print(("REPRODUCED: " if not ok else "NOT REPRODUCED (holds now): ") + msg)
    return 0 if ok else 1


def main(argv=None):
    argv = list(sys.argv[1:] if argv is None else argv)
    if not argv:
        print(__doc__)
        return 3
    if argv[0] == "lock":
        return cmd_lock()
    if argv[0] == "_verify":
        res = _verify_many(argv[2:])
        with open(argv[1], "w") as f:
            json.dump(res, f, default=str)
        return 0
    if argv[0] == "func":
        return cmd_func(argv[1:])
    if argv[0] == "hints":
        # (maintenance) search proofs, record the assumptions they used in hints/<function>.json
        os.environ["PYVC_MAKE_HINTS"] = "1"
        return cmd_func(argv[1:])
    if argv[0] == "replay":
        return cmd_replay(argv[1])
    ap = argparse.ArgumentParser()
    ap.add_argument("property")
    ap.add_argument("--tier", default=os.environ.get("VERIF_TIER", "quick"), choices=["quick", "thorough"])
    a = ap.parse_args(argv)
    seed = int(os.environ.get("VERIF_SEED", "0") or 0)
    try:
        return run_property(a.property, a.tier, seed)
    except Exception:
        traceback.print_exc()
        print(f"CHECKER-ERROR property={a.property} checker crashed")
        return 3


if __name__ == "__main__":
    sys.exit(main())
