"""SMT layer of PyVC: the universal value sort, heap arrays, and the solver front end.

Encoding (see DESIGN.md 2.3):
  Val = VNone | VBool(b) | VInt(i) | VReal(r) | VStr(s) | VRef(ref)
  Python int -> mathematical Int, float -> Real (assumption A-REAL), str -> z3 String.
Heap objects are integers (references); their contents live in SSA-versioned arrays held by
pyvc.heap.Heap.
"""
from __future__ import annotations

import itertools
import time

import z3

z3.set_param("smt.random_seed", 7)

Val = z3.Datatype("Val")
Val.declare("VNone")
Val.declare("VBool", ("b", z3.BoolSort()))
Val.declare("VInt", ("i", z3.IntSort()))
Val.declare("VReal", ("r", z3.RealSort()))
Val.declare("VStr", ("s", z3.StringSort()))
Val.declare("VRef", ("ref", z3.IntSort()))
Val = Val.create()

VNone = Val.VNone
VBool, VInt, VReal, VStr, VRef = Val.VBool, Val.VInt, Val.VReal, Val.VStr, Val.VRef
is_none, is_bool, is_int, is_real, is_str, is_ref = (
    Val.is_VNone, Val.is_VBool, Val.is_VInt, Val.is_VReal, Val.is_VStr, Val.is_VRef)
get_b, get_i, get_r, get_s, get_ref = Val.b, Val.i, Val.r, Val.s, Val.ref

I = z3.IntSort()
B = z3.BoolSort()
R = z3.RealSort()
S = z3.StringSort()
ArrIV = z3.ArraySort(I, Val)            # index -> Val          (list contents, dict key order)
ArrVB = z3.ArraySort(Val, B)            # Val -> Bool           (dict membership)
ArrVV = z3.ArraySort(Val, Val)          # Val -> Val            (dict values)
ArrVI = z3.ArraySort(Val, I)            # Val -> Int            (dict key index)

_counter = itertools.count()


def fresh(prefix: str, sort):
    return z3.Const(f"{prefix}!{next(_counter)}", sort)


def fresh_name(prefix: str) -> str:
    return f"{prefix}!{next(_counter)}"


def simp(e):
    return z3.simplify(e)


def is_true(e) -> bool:
    return z3.is_true(z3.simplify(e))


def is_false(e) -> bool:
    return z3.is_false(z3.simplify(e))


# ---- uninterpreted functions shared by the models of externals ---------------------------------
# float(str): acceptance predicate and value (CPython's float() is trusted, see DESIGN 8 X-STD)
float_ok = z3.Function("float_ok", S, B)
# text of a lark.Token (a str subclass; immutable): a function of the object
def TOKTEXT(ref):
    # (declared on first use: a declaration made at import time shifts z3's term numbering for every function verified,
    # and borderline in-line feasibility checks of functions that never see a Token then come out differently)
    return z3.Function("tok_text", I, S)(ref)
float_of = z3.Function("float_of", S, R)
int_ok = z3.Function("int_ok", S, B)
int_of = z3.Function("int_of", S, I)
# str(x) / format(x, spec) of non-string values: deterministic, uninterpreted
str_of = z3.Function("str_of", Val, S)
fmt_of = z3.Function("fmt_of", Val, S, S)
real_of_int = z3.ToReal


class Result:
    __slots__ = ("status", "seconds", "backend", "model", "reason")

    def __init__(self, status, seconds, backend, model=None, reason=""):
        self.status = status      # 'unsat' (valid) | 'sat' | 'unknown'
        self.seconds = seconds
        self.backend = backend
        self.model = model
        self.reason = reason


EMATCH = {"smt.mbqi": False, "auto_config": False}   # pure E-matching: measured 10x faster on these VCs


def export_query(assumptions, goal):
    """the query as one AstVector-free list translated into a FRESH z3 context: the verdict of a query then does not
    depend on which other queries the process has built or solved before (measured: the same obligation 0.0 s `unsat`
    alone, `unknown` after 115 s when a dozen others had been discharged in the same context).  Must be called from the
    thread that owns the main context; the result may be solved in any thread."""
    ctx = z3.Context()
    return ctx, [a.translate(ctx) for a in assumptions] + [z3.Not(goal).translate(ctx)]


def check_exported(query, timeout_ms=10000, config=EMATCH) -> Result:
    ctx, forms = query
    s = z3.Solver(ctx=ctx)
    for k, v in (config or {}).items():
        s.set(k, v)
    s.set("rlimit", int(timeout_ms * 2000))
    s.set("timeout", int(timeout_ms * 4))
    for a in forms:
        s.add(a)
    t0 = time.time()
    r = s.check()
    dt = time.time() - t0
    if r == z3.unsat:
        return Result("unsat", dt, "z3")
    if r == z3.sat:
        return Result("sat", dt, "z3")
    return Result("unknown", dt, "z3", reason=s.reason_unknown())


def export_tracked(assumptions, goal):
    """like export_query, every distinct assumption under its own tracking literal (for unsat cores)"""
    ctx = z3.Context()
    seen = set()
    items = []
    for i, a in enumerate(assumptions):
        if a.get_id() in seen:
            continue
        seen.add(a.get_id())
        items.append((i, a.translate(ctx)))
    return ctx, items, z3.Not(goal).translate(ctx)


def core_exported(tracked, timeout_ms=10000, config=EMATCH, seed=0):
    """indices (into the assumption list given to export_tracked) of an unsat core, or None"""
    ctx, items, neg = tracked
    s = z3.Solver(ctx=ctx)
    for k, v in (config or {}).items():
        s.set(k, v)
    if seed:
        s.set("random_seed", seed)
    s.set("rlimit", int(timeout_ms * 2000))
    s.set("timeout", int(timeout_ms * 4))
    lits = {}
    for i, a in items:
        p = z3.Bool(f"trk!{i}", ctx)
        lits[str(p)] = i
        s.assert_and_track(a, p)
    s.add(neg)
    if s.check() != z3.unsat:
        return None
    return sorted(lits[str(c)] for c in s.unsat_core())


def check_valid(assumptions, goal, timeout_ms=10000, want_model=False, config=EMATCH) -> Result:
    """Is  /\\ assumptions => goal  valid?  unsat = valid."""
    s = z3.Solver()
    for k, v in (config or {}).items():
        s.set(k, v)
    # budgets are z3 resource units (deterministic, independent of machine load: about 2M units per
    # second on this machine); the wall-clock timeout is only a backstop
    s.set("rlimit", int(timeout_ms * 2000))
    s.set("timeout", int(timeout_ms * 4))
    for a in assumptions:
        s.add(a)
    s.add(z3.Not(goal))
    t0 = time.time()
    r = s.check()
    dt = time.time() - t0
    if r == z3.unsat:
        return Result("unsat", dt, "z3")
    if r == z3.sat:
        return Result("sat", dt, "z3", model=s.model() if want_model else None)
    return Result("unknown", dt, "z3", reason=s.reason_unknown())


def check_sat(assumptions, timeout_ms=300, config=EMATCH) -> str:
    s = z3.Solver()
    for k, v in (config or {}).items():
        s.set(k, v)
    s.set("rlimit", int(timeout_ms * 2000))
    s.set("timeout", int(timeout_ms * 8))
    for a in assumptions:
        s.add(a)
    r = s.check()
    return "unsat" if r == z3.unsat else ("sat" if r == z3.sat else "unknown")


def to_smt2(assumptions, goal) -> str:
    s = z3.Solver()
    for a in assumptions:
        s.add(a)
    s.add(z3.Not(goal))
    return s.to_smt2()
