"""Python regular expressions (as Lark compiles them for its terminals) -> z3 regular expressions, and
language obligations decided by z3's sequence/regex theory for ALL strings (DESIGN.md 2.5).

Supported: literals, character classes (incl. negated, ranges, \\d \\s \\w categories over ASCII), `.`
(no newline), ? * + {m,n}, groups, alternation.  Anything else (look-around, back-references, anchors)
is reported as unsupported — the caller treats that obligation as undecided, never as passed.
Python's leftmost-first alternation is NOT a regular-language notion: these conversions are used for
language (full-match) statements only.
"""
from __future__ import annotations

import re
import time

try:
    import re._parser as sre_parse
    import re._constants as sre_c
except ImportError:      # Python < 3.11
    import sre_parse
    import sre_constants as sre_c

import z3


class UnsupportedRegex(Exception):
    pass


def _ch(c):
    return z3.Re(z3.StringVal(chr(c)))


def _range(lo, hi):
    return z3.Range(z3.StringVal(chr(lo)), z3.StringVal(chr(hi)))


MAXC = 0x2FFFF           # z3's character range
ALLCHAR = None


def allchar():
    return z3.AllChar(z3.ReSort(z3.StringSort()))


def _category(cat):
    name = str(cat)
    if name.endswith("CATEGORY_DIGIT"):
        return _range(48, 57)
    if name.endswith("CATEGORY_NOT_DIGIT"):
        return z3.Intersect(allchar(), z3.Complement(_range(48, 57)))
    if name.endswith("CATEGORY_SPACE"):
        return z3.Union(*[_ch(c) for c in (32, 9, 10, 13, 11, 12)])
    if name.endswith("CATEGORY_WORD"):
        return z3.Union(_range(48, 57), _range(65, 90), _range(97, 122), _ch(95))
    raise UnsupportedRegex(f"category {name}")


def _in(items):
    negate = False
    parts = []
    for op, av in items:
        if op is sre_c.NEGATE:
            negate = True
        elif op is sre_c.LITERAL:
            parts.append(_ch(av))
        elif op is sre_c.RANGE:
            parts.append(_range(av[0], av[1]))
        elif op is sre_c.CATEGORY:
            parts.append(_category(av))
        else:
            raise UnsupportedRegex(f"class item {op}")
    u = parts[0] if len(parts) == 1 else z3.Union(*parts)
    if negate:
        return z3.Intersect(allchar(), z3.Complement(u))
    return u


def char_class_members(items):
    """explicit set of characters of an IN item list (only for positive ASCII classes)"""
    out = set()
    for op, av in items:
        if op is sre_c.LITERAL:
            out.add(chr(av))
        elif op is sre_c.RANGE:
            out |= {chr(c) for c in range(av[0], av[1] + 1)}
        elif op is sre_c.CATEGORY and str(av).endswith("CATEGORY_DIGIT"):
            out |= set("0123456789")
        else:
            raise UnsupportedRegex(f"class item {op}")
    return out


def _seq(parsed):
    parts = [_node(op, av) for op, av in parsed]
    if not parts:
        return z3.Re(z3.StringVal(""))
    return parts[0] if len(parts) == 1 else z3.Concat(*parts)


def _node(op, av):
    if op is sre_c.LITERAL:
        return _ch(av)
    if op is sre_c.NOT_LITERAL:
        return z3.Intersect(allchar(), z3.Complement(_ch(av)))
    if op is sre_c.ANY:
        return z3.Intersect(allchar(), z3.Complement(_ch(10)))
    if op is sre_c.IN:
        return _in(av)
    if op is sre_c.BRANCH:
        alts = [_seq(a) for a in av[1]]
        return alts[0] if len(alts) == 1 else z3.Union(*alts)
    if op is sre_c.SUBPATTERN:
        if av[1] or av[2]:
            raise UnsupportedRegex("inline flags")
        return _seq(av[3])
    if op in (sre_c.MAX_REPEAT, sre_c.MIN_REPEAT):
        lo, hi, sub = av
        r = _seq(sub)
        if hi is sre_c.MAXREPEAT:
            if lo == 0:
                return z3.Star(r)
            if lo == 1:
                return z3.Plus(r)
            return z3.Concat(z3.Loop(r, lo, lo), z3.Star(r))
        if lo == 0 and hi == 1:
            return z3.Option(r)
        return z3.Loop(r, lo, hi)
    raise UnsupportedRegex(f"regex construct {op}")


def to_z3(pattern: str, flags: int = 0):
    if flags & ~(re.UNICODE):
        raise UnsupportedRegex(f"flags {flags}")
    return _seq(sre_parse.parse(pattern, flags))


def lang_included(a, b, timeout_ms=20000):
    """L(a) subseteq L(b)?  -> (status, witness) with status unsat = included"""
    s = z3.Solver()
    s.set("timeout", timeout_ms)
    x = z3.String("x")
    s.add(z3.InRe(x, a), z3.Not(z3.InRe(x, b)))
    t0 = time.time()
    r = s.check()
    dt = time.time() - t0
    if r == z3.unsat:
        return "unsat", None, dt
    if r == z3.sat:
        return "sat", s.model()[x].as_string(), dt
    return "unknown", s.reason_unknown(), dt


def lang_equal(a, b, timeout_ms=20000):
    st1, w1, t1 = lang_included(a, b, timeout_ms)
    if st1 != "unsat":
        return st1, w1, t1
    st2, w2, t2 = lang_included(b, a, timeout_ms)
    return st2, w2, t1 + t2


def lang_disjoint(a, b, timeout_ms=20000):
    s = z3.Solver()
    s.set("timeout", timeout_ms)
    x = z3.String("x")
    s.add(z3.InRe(x, a), z3.InRe(x, b))
    t0 = time.time()
    r = s.check()
    dt = time.time() - t0
    if r == z3.unsat:
        return "unsat", None, dt
    if r == z3.sat:
        return "sat", s.model()[x].as_string(), dt
    return "unknown", s.reason_unknown(), dt


def py_escape_free(s: str) -> str:
    """witness strings come back with z3 escapes (\\u{..})"""
    return re.sub(r"\\u\{([0-9a-fA-F]+)\}", lambda m: chr(int(m.group(1), 16)), s)
