"""Loops: invariant on entry, havoc of what the body may change (framed), invariant preserved on every
back edge, invariant + negated guard after the loop (DESIGN.md 2.3).  Short loops of concrete length
are unrolled."""
from __future__ import annotations

import ast

import z3

from . import smt
from .builtins_model import View, elem_at, materialise
from .callcontract import spec_bool, spec_value, type_conds
from .engine import MUTATING_METHODS, Outcome, State, Unsupported
from .heap import ARR_KINDS
from .models import PairVal
from .smt import Val, fresh, get_ref, is_ref
from .values import SV, SeqView, sv_int


def assigned_names(nodes):
    out = set()
    for node in nodes:
        for n in ast.walk(node):
            if isinstance(n, ast.Name) and isinstance(n.ctx, (ast.Store, ast.Del)):
                out.add(n.id)
            elif isinstance(n, (ast.FunctionDef,)):
                out.add(n.name)
            elif isinstance(n, ast.ExceptHandler) and n.name:
                out.add(n.name)
    return out


ALLOC_ONLY_CALLS = {"deepcopy", "list", "tuple", "set", "dict", "sorted", "str", "float", "int", "len", "isinstance",
                    "enumerate", "reversed", "range", "zip", "max", "min", "sum", "any", "all", "repr", "format", "join",
                    "get", "items", "keys", "values", "find_data", "startswith", "split", "lstrip", "strip", "warn", "print",
                    "index", "count", "iter", "next", "bool", "abs"}
LIST_MUTATORS = {"append", "extend", "insert", "remove", "pop", "sort", "reverse", "clear"}
DICT_MUTATORS = {"update", "setdefault", "popitem", "add", "discard", "pop", "clear"}


def kinds_written(nodes, eng):
    """heap array kinds the statements may write into EXISTING objects — syntactic, conservative; None = all"""
    kinds = set()
    for node in nodes:
        for n in ast.walk(node):
            if isinstance(n, (ast.Assign, ast.AugAssign, ast.AnnAssign)):
                tgts = n.targets if isinstance(n, ast.Assign) else [n.target]
                for t in tgts:
                    for tt in ([t] if not isinstance(t, (ast.Tuple, ast.List)) else t.elts):
                        if isinstance(tt, ast.Subscript):
                            kinds |= {"llen", "lelem", "dlen", "dkeys", "dhas", "didx", "dval"}
                        elif isinstance(tt, ast.Name) and isinstance(n, ast.AugAssign):
                            kinds |= {"llen", "lelem", "dlen", "dkeys", "dhas", "didx", "dval"}
            elif isinstance(n, ast.Call):
                f = n.func
                name = f.attr if isinstance(f, ast.Attribute) else (f.id if isinstance(f, ast.Name) else None)
                if name is None:
                    return None
                if name in LIST_MUTATORS:
                    kinds |= {"llen", "lelem"}
                if name in DICT_MUTATORS:
                    kinds |= {"dlen", "dkeys", "dhas", "didx", "dval"}
                if name in LIST_MUTATORS or name in DICT_MUTATORS or name in ALLOC_ONLY_CALLS:
                    continue
                # a call of something under contract: its frame decides
                c = None
                for q, cc in eng.reg.contracts.items():
                    if q.rsplit(".", 1)[-1] == name:
                        c = cc if c is None else False
                if c is None or c is False:
                    if name[:1].isupper():       # constructors of exceptions / plain classes allocate only
                        continue
                    return None
                if c.modifies:
                    return None
    return kinds


def heap_written(nodes, eng):
    """(may write heap?, receiver names, fields written) — syntactic, conservative"""
    writes = False
    receivers = set()
    fields = set()
    for node in nodes:
        for n in ast.walk(node):
            if isinstance(n, (ast.Assign, ast.AugAssign, ast.AnnAssign)):
                tgts = n.targets if isinstance(n, ast.Assign) else [n.target]
                for t in tgts:
                    for tt in ([t] if not isinstance(t, (ast.Tuple, ast.List)) else t.elts):
                        if isinstance(tt, ast.Subscript):
                            writes = True
                            if isinstance(tt.value, ast.Name):
                                receivers.add(tt.value.id)
                        elif isinstance(tt, ast.Attribute):
                            writes = True
                            fields.add(tt.attr)
                            if isinstance(tt.value, ast.Name):
                                receivers.add(tt.value.id)
                        elif isinstance(tt, ast.Name) and isinstance(n, ast.AugAssign):
                            writes = True            # x += [...] mutates lists in place
                            receivers.add(tt.id)
            elif isinstance(n, ast.Call):
                writes = True                        # any call may allocate / write through its contract
                if isinstance(n.func, ast.Attribute) and n.func.attr in MUTATING_METHODS \
                        and isinstance(n.func.value, ast.Name):
                    receivers.add(n.func.value.id)
            elif isinstance(n, (ast.List, ast.Dict, ast.Set, ast.ListComp, ast.DictComp, ast.SetComp, ast.Tuple)):
                writes = True                        # allocation
    return writes, receivers, fields


def loop_label(eng, stmt):
    return eng.loop_ids.get(id(stmt), f"loop@L{stmt.lineno}")


def bind_target(eng, tgt, val, s):
    if isinstance(val, PairVal) and not isinstance(tgt, (ast.Tuple, ast.List)):
        val = materialise(eng, s, val)
    return eng.assign(tgt, val, s)


def for_loop(eng, stmt, st):
    out = []
    label = loop_label(eng, stmt)
    spec = eng.contract.loops.get(label, {}) if eng.contract else {}
    for itv, s0 in eng.ev(stmt.iter, st):
      for view, s in eng.iter_sources(s0, itv):
        n = smt.simp(view.n)
        s.assume(view.n >= 0)
        if z3.is_int_value(n) and n.as_long() <= spec.get("unroll", 8):
            out += unrolled(eng, stmt, view, n.as_long(), s)
            continue
        out += invariant_loop(eng, stmt, label, spec, view, s, iter_val=itv)
    return out


def unrolled(eng, stmt, view, n, s):
    states = [s]
    done = []
    for j in range(n):
        nxt = []
        for s1 in states:
            for s2 in bind_target(eng, stmt.target, elem_at(eng, s1, view, z3.IntVal(j)), s1):
                for o in eng.exec_block(stmt.body, s2):
                    if o.kind in ("fall", "continue"):
                        nxt.append(o.st)
                    elif o.kind == "break":
                        done.append(Outcome("fall", None, o.st))
                    else:
                        done.append(o)
        states = nxt
    for s1 in states:
        if stmt.orelse:
            done += eng.exec_block(stmt.orelse, s1)
        else:
            done.append(Outcome("fall", None, s1))
    return done


def invariant_loop(eng, stmt, label, spec, view, s, iter_val=None, guard=None):
    """shared by for (view given) and while (guard given)"""
    qual = eng.qual
    invs = [ast.parse(x.strip(), mode="eval").body for x in spec.get("invariant", [])]
    idx = spec.get("index", "_i")
    is_for = view is not None
    body_nodes = stmt.body + ([stmt.test] if not is_for else [])
    assigned = assigned_names(stmt.body) | (assigned_names([stmt.target]) if is_for else set())
    writes, receivers, fields = heap_written(body_nodes, eng)
    pre = State(s.env.copy(), s.heap, list(s.pc), s.old, dict(s.ghost))      # state at loop entry

    def inv_bindings(i_term):
        b = {idx: sv_int(i_term)}
        if is_for:
            b["_n"] = sv_int(view.n)
            b["_seq"] = view
        b["_loop_alloc"] = sv_int(pre.heap.alloc)          # allocation counter when the loop was entered
        return b

    def spec_state(state):
        # old() inside loop invariants refers to the function's pre-state
        return state

    # 1. invariant holds on entry
    for j, inv in enumerate(invs):
        eng.oblige(f"{qual}.{label}.inv{j}.entry", s, spec_bool(eng, inv, spec_state(s), inv_bindings(z3.IntVal(0))), "loop-entry")

    # 2. havoc
    hs = s.copy()
    mod_refs = []
    from .values import RefSet, in_frame
    for m in spec.get("modifies", []):
        v = spec_value(eng, ast.parse(m.strip(), mode="eval").body, hs, {})
        if isinstance(v, RefSet):
            mod_refs.append(v)
        else:
            mod_refs.append(get_ref(eng.as_val(hs, v).t))
    for name in receivers:
        if name in assigned:
            continue
        v, _ = hs.env.lookup(name)
        if isinstance(v, SV) and (v.ty is None or v.ty not in ("none", "bool", "int", "float", "str")):
            mod_refs.append(get_ref(v.t))
    if is_for and isinstance(iter_val, SV):
        for r in mod_refs:
            if not isinstance(r, RefSet) and smt.is_true(r == get_ref(iter_val.t)):
                raise Unsupported("loop body mutates the sequence it iterates")
    loop_alloc = hs.heap.alloc
    if writes:
        kw = kinds_written(body_nodes, eng)
        kinds = list(ARR_KINDS) if kw is None else sorted(kw)
        flds = sorted(set(fields) | set(spec.get("modifies_fields", hs.heap.fld.keys() if kw is None else ())))
        new = hs.heap.havoc(kinds, flds, label.replace("#", ""))
        may = (lambda r: in_frame(r, mod_refs))
        hs.assume(*new.frame_facts(hs.heap, kinds, flds, may))
        hs.heap = new
        hs.assume(*new.closed_facts())
    if "stdout" in hs.ghost and writes:
        n0, a0 = hs.ghost["stdout"]
        hs.ghost["stdout"] = (fresh("out_n", smt.I), fresh("out_arr", smt.ArrIV))
    types = spec.get("types", {})
    for name in assigned:
        v, env = hs.env.lookup(name)
        if v is None:
            continue
        if not isinstance(v, SV):
            if name in types or True:
                # meta values (closures, views) reassigned in loops are outside the subset
                if isinstance(v, SeqView):
                    raise Unsupported(f"lazy sequence {name} reassigned in loop")
                continue
        nv = SV(fresh(f"{name}_{label.replace('#', '')}", Val), None)
        if name in types:
            cond, sty = type_conds(eng, nv, types[name])
            # the type is an invariant: checked on entry and on every back edge
            eng.oblige(f"{qual}.{label}.type.{name}.entry", s, type_conds(eng, v, types[name])[0], "loop-entry")
            hs.assume(cond)
            if sty:
                nv = eng.with_ty(hs, nv, sty)
        hs.assume(z3.Implies(is_ref(nv.t), get_ref(nv.t) < hs.heap.alloc))
        env.vars[name] = nv
    i = fresh("i_" + label.replace("#", ""), smt.I)

    # 3. an arbitrary iteration
    it = hs.copy()
    it.assume(i >= 0)
    if is_for:
        it.assume(i < view.n)
    for inv in invs:
        it.assume(spec_bool(eng, inv, spec_state(it), inv_bindings(i)))
    out = []
    # what the loop itself has allocated (in this or an earlier iteration) may be written without being in the loop's
    # frame: the havoc above says nothing about objects at or above the allocation counter of the loop entry, so whatever is
    # to be known about them at the next iteration has to come from the invariant anyway
    eng.frame_stack.append((loop_alloc, mod_refs, label))
    try:
        if is_for:
            starts = bind_target(eng, stmt.target, elem_at(eng, it, view, i), it)
        else:
            starts = []
            for c, s1 in eng.ev(stmt.test, it):
                t, f = eng.branch(s1, eng.truth(s1, c))
                if t is not None:
                    starts.append(t)
                # the exit from an arbitrary iteration is covered by the exit state below
        later = []      # vacuity probe: can the end of a LATER iteration (index >= 1) be refuted outright?
        for s2 in starts:
            for o in eng.exec_block(stmt.body, s2):
                if len(later) < 6 and "sat" not in later and "unknown" not in later:
                    later.append(smt.check_sat(o.st.pc + [i >= 1], 1500, config={}))
                    if later[-1] == "unsat":
                        later[-1] = smt.check_sat(o.st.pc + [i >= 1], 1500)
                if o.kind in ("fall", "continue"):
                    for j, inv in enumerate(invs):
                        eng.oblige(f"{qual}.{label}.inv{j}.preserved", o.st,
                                   spec_bool(eng, inv, spec_state(o.st), inv_bindings(i + 1)), "loop-step")
                    for name, ty in types.items():
                        v, _ = o.st.env.lookup(name)
                        if isinstance(v, SV):
                            eng.oblige(f"{qual}.{label}.type.{name}.preserved", o.st, type_conds(eng, v, ty)[0], "loop-step")
                elif o.kind == "break":
                    out.append(Outcome("fall", None, o.st))
                else:
                    out.append(o)
    finally:
        eng.frame_stack.pop()
    if later and all(x == "unsat" for x in later) and not (is_for and z3.is_int_value(smt.simp(view.n)) and smt.simp(view.n).as_long() <= 1):
        # every way through the body is contradictory once the invariant is assumed for a later iteration: whatever was
        # "proved" about the body holds for the first iteration only (this is how an unscoped axiom of the deepcopy
        # model showed up)
        from .engine import Obligation
        ob = Obligation(f"{qual}.{label}.smoke.later_iteration_consistent", [], z3.BoolVal(True), "smoke")
        ob.smoke_status = "unsat"
        eng.obligations.append(ob)

    # 4. after the loop
    ex = hs.copy()
    if is_for:
        for inv in invs:
            ex.assume(spec_bool(eng, inv, spec_state(ex), inv_bindings(view.n)))
        exits = [ex]
    else:
        ex.assume(i >= 0)
        for inv in invs:
            ex.assume(spec_bool(eng, inv, spec_state(ex), inv_bindings(i)))
        exits = []
        for c, s1 in eng.ev(stmt.test, ex):
            t, f = eng.branch(s1, eng.truth(s1, c))
            if f is not None:
                exits.append(f)
    for e in exits:
        if stmt.orelse:
            out += eng.exec_block(stmt.orelse, e)
        else:
            out.append(Outcome("fall", None, e))
    return out


def while_loop(eng, stmt, st):
    label = loop_label(eng, stmt)
    spec = eng.contract.loops.get(label, {}) if eng.contract else {}
    return invariant_loop(eng, stmt, label, spec, None, st)
