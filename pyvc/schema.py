"""Tree schema = datatype invariant extracted mechanically, on every run, from the rules Lark compiles
from the *current* grammar file (DESIGN.md 2.6).

For every tree label the schema lists the alternative child shapes; a shape is a sequence of items
(kinds, rep) with rep in {'1', '*', '+'}; kinds are tree labels (lower case) or terminal names.
Filtered terminals are dropped, helper rules `__x_star_n` / `__x_plus_n` are folded back into
repetitions, `?rule` (expand1) rules with a single child are inlined, aliases name the tree.
"""
from __future__ import annotations

import functools
import itertools


class Shape:
    def __init__(self, items):
        self.items = items          # list of (frozenset kinds, rep)

    def __repr__(self):
        return " ".join(("|".join(sorted(k)) if len(k) > 1 else next(iter(k))) + ("" if r == "1" else r)
                        for k, r in self.items) or "<empty>"

    def key(self):
        return tuple((tuple(sorted(k)), r) for k, r in self.items)


def extract(lark) -> dict[str, list[Shape]]:
    rules = {}
    for r in lark.rules:
        rules.setdefault(r.origin.name, []).append(r)
    names = {n if isinstance(n, str) else n.value for n in rules}
    rules = {(n if isinstance(n, str) else n.value): rs for n, rs in rules.items()}

    def is_helper(n):
        return n.startswith("__")

    @functools.lru_cache(None)
    def helper_info(n):
        """(kinds yielded, can yield nothing kept) for a left-recursive repetition helper"""
        kinds = set()
        can_empty = False
        for r in rules[n]:
            syms = [s for s in r.expansion if s.name != n]
            kept = []
            for s in syms:
                if s.is_term:
                    if not s.filter_out:
                        kept.append({s.name})
                else:
                    kept.append(kinds_of_nonterm(s.name))
            if len(syms) == len(r.expansion):       # base alternative
                if all(not k for k in kept):
                    can_empty = True
            for k in kept:
                kinds |= k
        return frozenset(kinds), can_empty

    def expand1_targets(n):
        """labels a ?rule can stand for when it has exactly one child; None if not expand1"""
        rs = rules[n]
        if not all(r.options.expand1 for r in rs):
            return None
        out = set()
        for r in rs:
            kept = [s for s in r.expansion if not (s.is_term and s.filter_out)]
            if len(kept) != 1:
                return None
            s = kept[0]
            out |= ({s.name} if s.is_term else kinds_of_nonterm(s.name))
        return out

    @functools.lru_cache(None)
    def kinds_of_nonterm(n):
        if is_helper(n):
            return helper_info(n)[0]
        t = expand1_targets(n)
        if t is not None:
            return frozenset(t)
        labels = {r.alias or n for r in rules[n]}
        return frozenset(labels)

    schema: dict[str, list[Shape]] = {}
    for n, rs in rules.items():
        if is_helper(n) or expand1_targets(n) is not None:
            continue
        for r in rs:
            label = r.alias or n
            items = []
            for s in r.expansion:
                if s.is_term:
                    if s.filter_out:
                        continue
                    items.append((frozenset({s.name}), "1"))
                elif is_helper(s.name):
                    kinds, can_empty = helper_info(s.name)
                    if not kinds:
                        continue
                    items.append((kinds, "*" if can_empty else "+"))
                else:
                    items.append((kinds_of_nonterm(s.name), "1"))
            sh = Shape(items)
            lst = schema.setdefault(label, [])
            if sh.key() not in [x.key() for x in lst]:
                lst.append(sh)
    # merge alternatives that differ only by a missing '+' item into '*'
    for label, shapes in schema.items():
        schema[label] = _merge_optional_repeats(shapes)
    return schema


def _merge_optional_repeats(shapes):
    out = list(shapes)
    changed = True
    while changed:
        changed = False
        for a, b in itertools.permutations(out, 2):
            # b == a with one '+' item removed  ->  a with that item as '*'
            for idx, (k, r) in enumerate(a.items):
                if r == "+" and a.items[:idx] + a.items[idx + 1:] == b.items:
                    new = Shape(a.items[:idx] + [(k, "*")] + a.items[idx + 1:])
                    out = [x for x in out if x is not a and x is not b]
                    if new.key() not in [x.key() for x in out]:
                        out.append(new)
                    changed = True
                    break
            if changed:
                break
    return out


def depth_facts(schema, root="start"):
    """for every label: the set of depths (distance from root) at which it can occur, or None if
    unbounded — used to justify that Tree.find_data(label) is in file order (single depth)."""
    depths = {root: {0}}
    frontier = [(root, 0)]
    seen = set()
    while frontier:
        lab, d = frontier.pop()
        if (lab, d) in seen or d > 12:
            continue
        seen.add((lab, d))
        for sh in schema.get(lab, []):
            for kinds, _ in sh.items:
                for k in kinds:
                    if k in schema:
                        depths.setdefault(k, set()).add(d + 1)
                        frontier.append((k, d + 1))
    return depths


def parents(schema):
    par = {}
    for lab, shapes in schema.items():
        for sh in shapes:
            for kinds, _ in sh.items:
                for k in kinds:
                    par.setdefault(k, set()).add(lab)
    return par
