"""Boogie-style heap: references are Ints, contents are SSA-versioned z3 arrays.

  typ[ref]                      class id of the object (never changes after allocation)
  fld[name][ref]                attribute `name` of object ref (Val)
  llen[ref], lelem[ref][i]      list / tuple contents
  dlen[ref], dkeys[ref][i]      dict / set: insertion-ordered keys
  dhas[ref][k], didx[ref][k]    membership and position of key k
  dval[ref][k]                  value stored under k
  alloc                         references < alloc are allocated

Heap objects are immutable Python objects: every update returns a new Heap that shares the
unchanged arrays.
"""
from __future__ import annotations

import z3

from .smt import (ArrIV, ArrVB, ArrVI, ArrVV, B, I, Val, VRef, fresh)

# class ids ---------------------------------------------------------------------------------------
CLASS_IDS: dict[str, int] = {}


def class_id(name: str) -> int:
    if name not in CLASS_IDS:
        CLASS_IDS[name] = len(CLASS_IDS) + 1
    return CLASS_IDS[name]


for _n in ("list", "tuple", "dict", "set"):
    class_id(_n)

ARR_KINDS = {
    "llen": z3.ArraySort(I, I),
    "lelem": z3.ArraySort(I, ArrIV),
    "dlen": z3.ArraySort(I, I),
    "dkeys": z3.ArraySort(I, ArrIV),
    "dhas": z3.ArraySort(I, ArrVB),
    "didx": z3.ArraySort(I, ArrVI),
    "dval": z3.ArraySort(I, ArrVV),
}
FieldSort = z3.ArraySort(I, Val)
TYP = z3.Function("typ", I, I)   # class id of a reference: a function, not an array (immutable)


def forall_pat(vs, body, pat):
    """ForAll with an explicit trigger when z3 accepts it (terms containing `if` are refused)"""
    try:
        return z3.ForAll(vs, body, patterns=[pat])
    except z3.Z3Exception:
        return z3.ForAll(vs, body)


class DictComps:
    """the five components of one dict/set as stand-alone terms (usable in quantifier triggers)"""
    def __init__(self, n, keys, has_arr, idx_arr, val_arr):
        self.n, self.keys, self.has_arr, self.idx_arr, self.val_arr = n, keys, has_arr, idx_arr, val_arr

    def has(self, k):
        return z3.Select(self.has_arr, k)

    def idx(self, k):
        return z3.Select(self.idx_arr, k)

    def val(self, k):
        return z3.Select(self.val_arr, k)

    def key(self, i):
        return z3.Select(self.keys, i)

    def wf(self):
        i = z3.Int("wf_i")
        k = z3.Const("wf_k", Val)
        return [self.n >= 0,
                z3.ForAll([i], z3.Implies(z3.And(0 <= i, i < self.n),
                                          z3.And(self.has(self.key(i)), self.idx(self.key(i)) == i)),
                          patterns=[self.key(i)]),
                z3.ForAll([k], z3.Implies(self.has(k), z3.And(0 <= self.idx(k), self.idx(k) < self.n,
                                                              self.key(self.idx(k)) == k)),
                          patterns=[self.has(k)])]


def fresh_key(ref):
    """(epoch constant name, offset) for references of the syntactic form  <x>_alloc!n + c ; else None.
    Two such references are distinct when they differ in the constant or in the offset: within one
    allocation epoch offsets number the objects; a later epoch starts at or above everything allocated
    before (havoc always comes with  new.alloc >= old.alloc)."""
    s = z3.simplify(ref)
    if z3.is_const(s) and s.decl().kind() == z3.Z3_OP_UNINTERPRETED and "alloc" in s.decl().name():
        return (s.decl().name(), 0)
    if z3.is_add(s) and s.num_args() == 2:
        a, b = s.arg(0), s.arg(1)
        if z3.is_int_value(b):
            a, b = b, a
        if z3.is_int_value(a) and z3.is_const(b) and b.decl().kind() == z3.Z3_OP_UNINTERPRETED \
                and "alloc" in b.decl().name():
            return (b.decl().name(), a.as_long())
    return None


class Frozen:
    """Entry heap of a function whose container frame is EMPTY, and the syntactic test "this reference term denotes an
    object that existed at entry": the reference of a parameter, or of a value read out of the ENTRY heap (entry
    container arrays, `fld0_*` attribute arrays) at such a reference.  A container read at such a reference is served
    from the entry arrays whatever has been stored or havocked since.

    Soundness: the frame obligations of the function (checked) forbid writes to containers that existed at entry, so for
    every reference r < alloc-at-entry the current and the entry contents agree; references stored in the entry heap
    are below alloc-at-entry (closedness).  Ill-typed access paths (`ref` of a non-reference, a dead list cell) denote
    values no real state determines, so they may be chosen to satisfy the same equations."""

    def __init__(self, entry, base_refs, freeze=True):
        self.entry = entry
        self.base = set(base_refs)
        self.freeze = freeze            # False: the function has a frame; only the store-skipping below applies
        self.ids = {a.get_id(): k for k, a in entry.items() if k in ("lelem", "dkeys", "dval")}     # entry keeps them alive
        self.memo = {}

    def is_old(self, ref):
        key = ref.get_id()
        hit = self.memo.get(key)
        if hit is None:
            # the term is kept with the verdict: z3 reuses the ids of freed terms
            hit = self.memo[key] = (ref, self._is_old(z3.simplify(ref)))
        return hit[1]

    def _is_old(self, ref):
        if z3.is_const(ref):
            return str(ref) in self.base
        if not (z3.is_app(ref) and ref.decl().name() == "ref" and ref.num_args() == 1):
            return False
        v = ref.arg(0)
        if z3.is_const(v):
            return str(ref) in self.base or str(z3.simplify(ref)) in self.base
        if not z3.is_select(v):
            return False
        a, idx = v.arg(0), v.arg(1)
        if z3.is_const(a) and a.decl().name().startswith("fld0_") and not a.decl().name().startswith("fld0_$"):
            return idx.sort() == I and self.is_old(idx)
        if z3.is_select(a) and a.arg(0).get_id() in self.ids:
            return self.is_old(a.arg(1))
        return False


class Heap:
    """`known` is a purely syntactic overlay: (kind, fresh_key(ref)) -> the term Select(arr[kind], ref)
    denotes.  It keeps freshly built objects concrete although z3's simplifier cannot decide
    alloc+1 != alloc inside nested stores."""
    __slots__ = ("alloc", "arr", "fld", "known", "frozen")

    def __init__(self, alloc, arr, fld, known=None, frozen=None):
        self.alloc = alloc
        self.arr = arr          # dict kind -> z3 array
        self.fld = fld          # dict field name -> z3 array
        self.known = known if known is not None else {}
        # (entry arrays, {printed reference terms}) — container parameters of a function whose frame is EMPTY: their
        # contents are read from the entry heap whatever was stored elsewhere since (sound: the frame obligations of the
        # function forbid any write to an object that existed at entry)
        self.frozen = frozen

    @staticmethod
    def symbolic(tag="h") -> "Heap":
        return Heap(fresh(f"{tag}_alloc", I),
                    {k: fresh(f"{tag}_{k}", s) for k, s in ARR_KINDS.items()}, {})

    def copy(self) -> "Heap":
        return Heap(self.alloc, dict(self.arr), dict(self.fld), dict(self.known), self.frozen)

    def _get(self, kind, ref):
        if self.frozen is not None and not kind.startswith("fld:") and self.frozen.is_old(ref):
            if self.frozen.freeze:
                return z3.Select(self.frozen.entry[kind], ref)
            # an object that existed at entry lies below every allocation made since: stores at fresh keys (allocation
            # counter + offset) cannot have hit it and are skipped when reading
            arr = self.arr[kind]
            while z3.is_store(arr) and fresh_key(arr.arg(1)) is not None:
                arr = arr.arg(0)
            return z3.Select(arr, ref)
        k = fresh_key(ref)
        if k is not None and (kind, k) in self.known:
            return self.known[(kind, k)]
        arr = self.arr[kind] if not kind.startswith("fld:") else self.field_arr(kind[4:])
        if k is not None:
            # two fresh keys (allocation counter constant + offset) denote different objects unless they are the same
            # term: under one constant the offsets differ; a later constant is at least the counter value at which the
            # earlier one was abandoned.  Stores at other fresh keys are skipped when reading at this one.
            while z3.is_store(arr):
                k2 = fresh_key(arr.arg(1))
                if k2 is None:
                    break
                if k2 == k:
                    return arr.arg(2)
                arr = arr.arg(0)
        return z3.Select(arr, ref)

    def _put(self, kind, ref, val):
        """in place on a fresh copy"""
        if kind.startswith("fld:"):
            self.fld[kind[4:]] = z3.Store(self.field_arr(kind[4:]), ref, val)
        else:
            self.arr[kind] = z3.Store(self.arr[kind], ref, val)
        k = fresh_key(ref)
        if k is None:
            for key in [x for x in self.known if x[0] == kind]:
                del self.known[key]
        else:
            self.known[(kind, k)] = val

    # fields ----------------------------------------------------------------------------------
    def field_arr(self, name: str):
        if name not in self.fld:
            # first use of a field in this heap lineage: one shared base constant per field name,
            # so that two heaps derived from the same initial heap agree on untouched fields
            self.fld[name] = z3.Const(f"fld0_{name}", FieldSort)
        return self.fld[name]

    def get_field(self, ref, name: str):
        return self._get("fld:" + name, ref)

    def set_field(self, ref, name: str, val) -> "Heap":
        h = self.copy()
        h._put("fld:" + name, ref, val)
        return h

    # allocation ------------------------------------------------------------------------------
    def allocate(self, cls: str):
        """returns (heap', ref, facts) — facts: typ[ref] == class id"""
        ref = z3.simplify(self.alloc)
        h = self.copy()
        h.alloc = z3.simplify(self.alloc + 1)
        return h, ref, [TYP(ref) == class_id(cls)]

    # lists -----------------------------------------------------------------------------------
    def llen(self, ref):
        return self._get("llen", ref)

    def lelems(self, ref):
        return self._get("lelem", ref)

    def lget(self, ref, i):
        return z3.Select(self.lelems(ref), i)

    def set_list(self, ref, n, elems) -> "Heap":
        h = self.copy()
        h._put("llen", ref, n)
        h._put("lelem", ref, elems)
        return h

    def lset(self, ref, i, v) -> "Heap":
        h = self.copy()
        h._put("lelem", ref, z3.Store(self.lelems(ref), i, v))
        return h

    # dicts -----------------------------------------------------------------------------------
    def dlen(self, ref):
        return self._get("dlen", ref)

    def dkeys(self, ref):
        return self._get("dkeys", ref)

    def dhas(self, ref, k):
        return z3.Select(self._get("dhas", ref), k)

    def didx(self, ref, k):
        return z3.Select(self._get("didx", ref), k)

    def dget(self, ref, k):
        return z3.Select(self._get("dval", ref), k)

    def set_dict_empty(self, ref) -> "Heap":
        h = self.copy()
        h._put("dlen", ref, z3.IntVal(0))
        h._put("dhas", ref, z3.K(Val, z3.BoolVal(False)))
        return h

    def dict_wf(self, ref):
        """representation invariant of the ordered dict at ref (instantiated on demand)"""
        i = z3.Int("wf_i")
        k = z3.Const("wf_k", Val)
        n = self.dlen(ref)
        keys = self.dkeys(ref)
        b1 = z3.Implies(z3.And(0 <= i, i < n),
                        z3.And(self.dhas(ref, z3.Select(keys, i)), self.didx(ref, z3.Select(keys, i)) == i))
        b2 = z3.Implies(self.dhas(ref, k),
                        z3.And(0 <= self.didx(ref, k), self.didx(ref, k) < n,
                               z3.Select(keys, self.didx(ref, k)) == k))
        return [n >= 0, forall_pat([i], b1, z3.Select(keys, i)), forall_pat([k], b2, self.dhas(ref, k))]

    def dset(self, ref, k, v) -> "Heap":
        """d[k] = v  (insertion keeps order; existing key keeps its position)"""
        h = self.copy()
        has = z3.simplify(self.dhas(ref, k))
        n = z3.simplify(self.dlen(ref))
        h._put("dlen", ref, z3.simplify(z3.If(has, n, n + 1)))
        h._put("dkeys", ref, z3.simplify(z3.If(has, self.dkeys(ref), z3.Store(self.dkeys(ref), n, k))))
        h._put("dhas", ref, z3.Store(self._get("dhas", ref), k, z3.BoolVal(True)))
        h._put("didx", ref, z3.simplify(z3.If(has, self._get("didx", ref), z3.Store(self._get("didx", ref), k, n))))
        h._put("dval", ref, z3.Store(self._get("dval", ref), k, v))
        return h

    def fresh_dict_at(self, ref, tag="fd"):
        """heap in which the dict/set at ref has unknown contents; every other object is untouched"""
        h = self.copy()
        comps = DictComps(fresh(f"{tag}_dlen", I), fresh(f"{tag}_dkeys", ArrIV), fresh(f"{tag}_dhas", ArrVB),
                          fresh(f"{tag}_didx", ArrVI), fresh(f"{tag}_dval", ArrVV))
        h._put("dlen", ref, comps.n)
        h._put("dkeys", ref, comps.keys)
        h._put("dhas", ref, comps.has_arr)
        h._put("didx", ref, comps.idx_arr)
        h._put("dval", ref, comps.val_arr)
        return h, comps

    # havoc -----------------------------------------------------------------------------------
    def havoc(self, kinds, fields, tag="hv") -> "Heap":
        h = self.copy()
        for k in kinds:
            h.arr[k] = fresh(f"{tag}_{k}", ARR_KINDS[k])
        for f in fields:
            h.fld[f] = fresh(f"{tag}_fld_{f}", FieldSort)
        gone = set(kinds) | {"fld:" + f for f in fields}
        h.known = {key: v for key, v in self.known.items() if key[0] not in gone}
        h.frozen = self.frozen
        h.alloc = fresh(f"{tag}_alloc", I)
        return h

    def closed_facts(self):
        """every reference stored in a container or attribute is allocated (invariant of all states)"""
        from .smt import get_ref, is_ref
        r, i = z3.Ints("cl_r cl_i")
        k = z3.Const("cl_k", Val)
        out = []

        def ok(v):
            return z3.Implies(is_ref(v), z3.And(get_ref(v) >= 0, get_ref(v) < self.alloc))
        # only cells of allocated objects: what lies above `alloc` is never read before it is written
        live = r < self.alloc
        v = z3.Select(z3.Select(self.arr["lelem"], r), i)
        out.append(z3.ForAll([r, i], z3.Implies(live, ok(v)), patterns=[v]))
        v = z3.Select(z3.Select(self.arr["dkeys"], r), i)
        out.append(z3.ForAll([r, i], z3.Implies(live, ok(v)), patterns=[v]))
        v = z3.Select(z3.Select(self.arr["dval"], r), k)
        out.append(z3.ForAll([r, k], z3.Implies(live, ok(v)), patterns=[v]))
        for f, a in self.fld.items():
            v = z3.Select(a, r)
            out.append(z3.ForAll([r], z3.Implies(live, ok(v)), patterns=[v]))
        return out

    def frame_facts(self, old: "Heap", kinds, fields, may_modify):
        """facts: every reference allocated in `old` for which may_modify(r) is false keeps its
        contents in the havocked arrays of self."""
        r = z3.Int("fr_r")
        facts = [self.alloc >= old.alloc]
        guard = z3.And(r < old.alloc, z3.Not(may_modify(r)))
        for k in kinds:
            facts.append(z3.ForAll([r], z3.Implies(guard, z3.Select(self.arr[k], r) == z3.Select(old.arr[k], r)),
                                   patterns=[z3.Select(self.arr[k], r)]))
        for f in fields:
            facts.append(z3.ForAll([r], z3.Implies(guard, z3.Select(self.fld[f], r) == z3.Select(old.field_arr(f), r)),
                                   patterns=[z3.Select(self.fld[f], r)]))
        return facts
