"""Boogie-style heap: references are Ints, contents are SSA-versioned z3 arrays.

  typ[ref]                      class id of the object (never changes after allocation)
  fld[name][ref]                attribute `name` of object ref (Val)
  llen[ref], lelem[ref][i]      list / tuple contents
  dlen[ref], dkeys[ref][i]      dict / set: insertion-ordered keys
  dhas[ref][k], didx[ref][k]    membership and position of key k
  dval[ref][k]                  value stored under k
  alloc                         references < alloc are allocated

Heap objects are immutable Python objects: every update returns a new Heap that shares the
unchanged arrays.
"""
from __future__ import annotations

import z3

from .smt import (ArrIV, ArrVB, ArrVI, ArrVV, B, I, Val, VRef, fresh)

# class ids ---------------------------------------------------------------------------------------
CLASS_IDS: dict[str, int] = {}


def class_id(name: str) -> int:
    if name not in CLASS_IDS:
        CLASS_IDS[name] = len(CLASS_IDS) + 1
    return CLASS_IDS[name]


for _n in ("list", "tuple", "dict", "set"):
    class_id(_n)

ARR_KINDS = {
    "llen": z3.ArraySort(I, I),
    "lelem": z3.ArraySort(I, ArrIV),
    "dlen": z3.ArraySort(I, I),
    "dkeys": z3.ArraySort(I, ArrIV),
    "dhas": z3.ArraySort(I, ArrVB),
    "didx": z3.ArraySort(I, ArrVI),
    "dval": z3.ArraySort(I, ArrVV),
}
FieldSort = z3.ArraySort(I, Val)
TYP = z3.Function("typ", I, I)   # class id of a reference: a function, not an array (immutable)


class Heap:
    __slots__ = ("alloc", "arr", "fld")

    def __init__(self, alloc, arr, fld):
        self.alloc = alloc
        self.arr = arr          # dict kind -> z3 array
        self.fld = fld          # dict field name -> z3 array

    @staticmethod
    def symbolic(tag="h") -> "Heap":
        return Heap(fresh(f"{tag}_alloc", I),
                    {k: fresh(f"{tag}_{k}", s) for k, s in ARR_KINDS.items()}, {})

    def copy(self) -> "Heap":
        return Heap(self.alloc, dict(self.arr), dict(self.fld))

    # fields ----------------------------------------------------------------------------------
    def field_arr(self, name: str):
        if name not in self.fld:
            # first use of a field in this heap lineage: one shared base constant per field name,
            # so that two heaps derived from the same initial heap agree on untouched fields
            self.fld[name] = z3.Const(f"fld0_{name}", FieldSort)
        return self.fld[name]

    def get_field(self, ref, name: str):
        return z3.Select(self.field_arr(name), ref)

    def set_field(self, ref, name: str, val) -> "Heap":
        h = self.copy()
        h.fld[name] = z3.Store(self.field_arr(name), ref, val)
        return h

    # allocation ------------------------------------------------------------------------------
    def allocate(self, cls: str):
        """returns (heap', ref, facts) — facts: typ[ref] == class id"""
        ref = self.alloc
        h = self.copy()
        h.alloc = self.alloc + 1
        return h, ref, [TYP(ref) == class_id(cls)]

    # lists -----------------------------------------------------------------------------------
    def llen(self, ref):
        return z3.Select(self.arr["llen"], ref)

    def lelems(self, ref):
        return z3.Select(self.arr["lelem"], ref)

    def lget(self, ref, i):
        return z3.Select(self.lelems(ref), i)

    def set_list(self, ref, n, elems) -> "Heap":
        h = self.copy()
        h.arr["llen"] = z3.Store(self.arr["llen"], ref, n)
        h.arr["lelem"] = z3.Store(self.arr["lelem"], ref, elems)
        return h

    def lset(self, ref, i, v) -> "Heap":
        h = self.copy()
        h.arr["lelem"] = z3.Store(self.arr["lelem"], ref, z3.Store(self.lelems(ref), i, v))
        return h

    # dicts -----------------------------------------------------------------------------------
    def dlen(self, ref):
        return z3.Select(self.arr["dlen"], ref)

    def dkeys(self, ref):
        return z3.Select(self.arr["dkeys"], ref)

    def dhas(self, ref, k):
        return z3.Select(z3.Select(self.arr["dhas"], ref), k)

    def didx(self, ref, k):
        return z3.Select(z3.Select(self.arr["didx"], ref), k)

    def dget(self, ref, k):
        return z3.Select(z3.Select(self.arr["dval"], ref), k)

    def set_dict_empty(self, ref) -> "Heap":
        h = self.copy()
        h.arr["dlen"] = z3.Store(self.arr["dlen"], ref, z3.IntVal(0))
        h.arr["dhas"] = z3.Store(self.arr["dhas"], ref, z3.K(Val, z3.BoolVal(False)))
        return h

    def dict_wf(self, ref):
        """representation invariant of the ordered dict at ref (instantiated on demand)"""
        i = z3.Int("wf_i")
        k = z3.Const("wf_k", Val)
        n = self.dlen(ref)
        keys = self.dkeys(ref)
        return [
            n >= 0,
            z3.ForAll([i], z3.Implies(z3.And(0 <= i, i < n),
                                      z3.And(self.dhas(ref, z3.Select(keys, i)),
                                             self.didx(ref, z3.Select(keys, i)) == i)),
                      patterns=[z3.Select(keys, i)]),
            z3.ForAll([k], z3.Implies(self.dhas(ref, k),
                                      z3.And(0 <= self.didx(ref, k), self.didx(ref, k) < n,
                                             z3.Select(keys, self.didx(ref, k)) == k)),
                      patterns=[self.dhas(ref, k)]),
        ]

    def dset(self, ref, k, v) -> "Heap":
        """d[k] = v  (insertion keeps order; existing key keeps its position)"""
        h = self.copy()
        has = self.dhas(ref, k)
        n = self.dlen(ref)
        h.arr["dlen"] = z3.Store(self.arr["dlen"], ref, z3.If(has, n, n + 1))
        h.arr["dkeys"] = z3.Store(self.arr["dkeys"], ref,
                                  z3.If(has, self.dkeys(ref), z3.Store(self.dkeys(ref), n, k)))
        h.arr["dhas"] = z3.Store(self.arr["dhas"], ref,
                                 z3.Store(z3.Select(self.arr["dhas"], ref), k, z3.BoolVal(True)))
        h.arr["didx"] = z3.Store(self.arr["didx"], ref,
                                 z3.If(has, z3.Select(self.arr["didx"], ref),
                                       z3.Store(z3.Select(self.arr["didx"], ref), k, n)))
        h.arr["dval"] = z3.Store(self.arr["dval"], ref,
                                 z3.Store(z3.Select(self.arr["dval"], ref), k, v))
        return h

    # havoc -----------------------------------------------------------------------------------
    def havoc(self, kinds, fields, tag="hv") -> "Heap":
        h = self.copy()
        for k in kinds:
            h.arr[k] = fresh(f"{tag}_{k}", ARR_KINDS[k])
        for f in fields:
            h.fld[f] = fresh(f"{tag}_fld_{f}", FieldSort)
        h.alloc = fresh(f"{tag}_alloc", I)
        return h

    def closed_facts(self):
        """every reference stored in a container or attribute is allocated (invariant of all states)"""
        from .smt import get_ref, is_ref
        r, i = z3.Ints("cl_r cl_i")
        k = z3.Const("cl_k", Val)
        out = []

        def ok(v):
            return z3.Implies(is_ref(v), z3.And(get_ref(v) >= 0, get_ref(v) < self.alloc))
        v = z3.Select(z3.Select(self.arr["lelem"], r), i)
        out.append(z3.ForAll([r, i], ok(v), patterns=[v]))
        v = z3.Select(z3.Select(self.arr["dkeys"], r), i)
        out.append(z3.ForAll([r, i], ok(v), patterns=[v]))
        v = z3.Select(z3.Select(self.arr["dval"], r), k)
        out.append(z3.ForAll([r, k], ok(v), patterns=[v]))
        for f, a in self.fld.items():
            v = z3.Select(a, r)
            out.append(z3.ForAll([r], z3.Implies(r >= 0, ok(v)), patterns=[v]))
        return out

    def frame_facts(self, old: "Heap", kinds, fields, may_modify):
        """facts: every reference allocated in `old` for which may_modify(r) is false keeps its
        contents in the havocked arrays of self."""
        r = z3.Int("fr_r")
        facts = [self.alloc >= old.alloc]
        guard = z3.And(r < old.alloc, z3.Not(may_modify(r)))
        for k in kinds:
            facts.append(z3.ForAll([r], z3.Implies(guard, z3.Select(self.arr[k], r) == z3.Select(old.arr[k], r)),
                                   patterns=[z3.Select(self.arr[k], r)]))
        for f in fields:
            facts.append(z3.ForAll([r], z3.Implies(guard, z3.Select(self.fld[f], r) == z3.Select(old.field_arr(f), r)),
                                   patterns=[z3.Select(self.fld[f], r)]))
        return facts
