"""Sidecar contract registry.  Contract files under /verif/contracts call contract(), klass(),
external(), spec_function() at import time; nothing here is imported by /repo."""
from __future__ import annotations

import ast
import importlib
import pkgutil

from .heap import class_id


class Contract:
    def __init__(self, qualname, *, types=None, requires=(), ensures=(), raises=None, modifies=(),
                 returns=None, loops=None, properties=(), pure=None, fresh=False, decreases=None,
                 ghost_in=(), notes="", modifies_fields=None, opts=None, lemmas=(), defs=(), ghost_on_return=None):
        self.qualname = qualname
        self.types = types or {}
        self.requires = [_parse(x) for x in requires]
        self.ensures = [_parse(x) for x in ensures]
        self.requires_src = list(requires)
        self.ensures_src = list(ensures)
        # raises: {ExcName: condition over the pre-state under which it MUST be raised} (iff),
        #         condition None = may be raised (no completeness claim)
        self.raises = {k: (None if v is None else _parse(v)) for k, v in (raises or {}).items()}
        self.raises_src = dict(raises or {})
        self.modifies = [_parse(x) for x in modifies]
        self.modifies_src = list(modifies)
        self.modifies_fields = modifies_fields
        self.returns = returns
        self.loops = loops or {}
        self.properties = list(properties)
        self.pure = pure
        self.fresh = fresh
        self.decreases = decreases
        self.notes = notes
        self.opts = opts or {}
        if "result_view" in self.opts:
            # the caller is handed the logical sequence E instead of the (immutable) tuple the function builds; what
            # makes this sound is proved on the body like every other postcondition: the result IS a tuple and equals E
            # element by element
            e = self.opts["result_view"]
            extra = ["typ(result, 'tuple')", f"len(result) == len({e})",
                     f"forall(lambda j: implies(0 <= j < len(result), same(result[j], ({e})[j])))"]
            self.ensures += [_parse(x) for x in extra]
            self.ensures_src += extra
        if self.opts.get("entry_defined") and (modifies or modifies_fields):
            raise ValueError(f"{qualname}: contracts over entry-defined predicates (has_table, first_table) need an empty frame")
        self.lemmas = list(lemmas)
        # ghost attributes written on the (fresh) result when the function returns: name -> expression over the parameters
        self.ghost_on_return = {k: _parse(v) for k, v in (ghost_on_return or {}).items()}
        # definitions of spec-level notions in terms of externals: assumed when verifying the body only
        self.defs = [_parse(x) for x in defs]


def _parse(src):
    if isinstance(src, ast.AST):
        return src
    return ast.parse(src.strip(), mode="eval").body


class ClassSchema:
    def __init__(self, name, pycls=None, fields=None, class_vars=None, kind=None, custom_eq=False,
                 slots=False, bases=(), dict_default=None, invariant=()):
        self.name = name
        self.pycls = pycls
        self.fields = fields or {}           # name -> static type or None
        self.class_vars = class_vars or {}
        self.kind = kind                     # 'dict' / 'list' for subclasses of built-in containers
        self.custom_eq = custom_eq
        self.slots = slots
        self.bases = list(bases)
        self.dict_default = dict_default
        self.invariant = [_parse(x) for x in invariant]


class Registry:
    def __init__(self):
        self.contracts: dict[str, Contract] = {}
        self.classes: dict[str, ClassSchema] = {}
        self.externals = {}        # qualname -> model(eng, s, args, kwargs) -> [(val, state)]
        self.constructors = {}     # class name -> model
        self.spec_funcs = {}       # name -> python callable(eng, st, *args) -> value
        self.inline = set()        # qualnames of repo helpers that are inlined rather than contracted
        self.const_getitems = []   # (predicate(obj), model)
        self.const_methods = []    # (predicate(obj, name), model)
        self.tree_struct = None
        self.elem_hints = []
        self.assumptions: dict[str, str] = {}    # id -> text of assumed external contracts
        self.lemmas = {}

    # ---- classes -------------------------------------------------------------------------------
    def knows_class(self, cls):
        return cls in self.classes

    def pyclass(self, cls):
        c = self.classes.get(cls)
        return c.pycls if c else None

    def mro(self, cls):
        out = [cls]
        c = self.classes.get(cls)
        if c:
            for b in c.bases:
                for x in self.mro(b):
                    if x not in out:
                        out.append(x)
            if c.kind and c.kind not in out:
                out.append(c.kind)          # subclass of the built-in container
        return out

    def is_subclass(self, a, b):
        return b in self.mro(a)

    def subclasses_of(self, cls):
        out = [c for c in self.classes if self.is_subclass(c, cls)]
        if cls not in out:
            out.append(cls)
        return out

    def class_kind(self, cls):
        for c in self.mro(cls):
            k = self.classes.get(c)
            if k and k.kind:
                return k.kind
        return None

    def dict_default(self, cls):
        for c in self.mro(cls):
            k = self.classes.get(c)
            if k and k.dict_default is not None:
                return k.dict_default
        return None

    def has_custom_eq(self, cls):
        return any(self.classes[c].custom_eq for c in self.mro(cls) if c in self.classes)

    def has_slots(self, cls):
        return any(self.classes[c].slots for c in self.mro(cls) if c in self.classes)

    def has_field(self, cls, name):
        return any(name in self.classes[c].fields for c in self.mro(cls) if c in self.classes)

    def field_ty(self, cls, name):
        for c in self.mro(cls):
            k = self.classes.get(c)
            if k and name in k.fields:
                return k.fields[name]
            if k and name in k.class_vars:
                return k.class_vars[name]
        return None

    def is_class_var(self, cls, name):
        return any(name in self.classes[c].class_vars for c in self.mro(cls) if c in self.classes)

    def class_var_owner(self, cls, name):
        for c in self.mro(cls):
            if c in self.classes and name in self.classes[c].class_vars:
                return c
        return cls

    def classes_with_field(self, name):
        return [c for c, k in self.classes.items() if name in k.fields]

    def ty_of_class(self, pycls):
        prim = {str: "str", int: "int", float: "float", bool: "bool", list: "list", tuple: "tuple",
                dict: "dict", set: "set", type(None): "none"}
        if pycls in prim:
            return prim[pycls]
        for name, k in self.classes.items():
            if k.pycls is pycls:
                return "obj:" + name
        return "obj:" + pycls.__name__

    def method(self, cls, name):
        """FuncRef of a method of a repo class that is under contract or inlined"""
        from .values import FuncRef
        for c in self.mro(cls):
            k = self.classes.get(c)
            if k is None or k.pycls is None:
                continue
            # walk the real Python MRO: inherited methods of library base classes (lark.Visitor.visit ...) count
            for pc in k.pycls.__mro__:
                raw = pc.__dict__.get(name)
                if raw is None:
                    continue
                if isinstance(raw, property):
                    return None
                f = raw.__func__ if isinstance(raw, (staticmethod, classmethod)) else raw
                if not callable(f):
                    return None
                qn = f"{pc.__module__}.{pc.__qualname__}.{name}"
                if qn in self.contracts or qn in self.inline or qn in self.externals:
                    return FuncRef(qn, f)
                return None
        return None

    def property_of(self, cls, name):
        from .values import FuncRef
        for c in self.mro(cls):
            k = self.classes.get(c)
            if k is None or k.pycls is None:
                continue
            raw = k.pycls.__dict__.get(name)
            if isinstance(raw, property):
                qn = f"{k.pycls.__module__}.{k.pycls.__qualname__}.{name}"
                return FuncRef(qn, raw.fget)
        return None

    def elem_ty_hint(self, s, v):
        return None

    def const_getitem(self, obj):
        for pred, model in self.const_getitems:
            if pred(obj):
                return model
        return None

    def const_method(self, obj, name):
        for pred, model in self.const_methods:
            if pred(obj, name):
                return model
        return None


REG = Registry()


def contract(qualname, **kw):
    REG.contracts[qualname] = Contract(qualname, **kw)
    return REG.contracts[qualname]


def klass(name, **kw):
    REG.classes[name] = ClassSchema(name, **kw)
    class_id(name)
    return REG.classes[name]


def external(qualname, assumption=None):
    def deco(f):
        REG.externals[qualname] = f
        if assumption:
            REG.assumptions[qualname] = assumption
        return f
    return deco


def constructor(clsname, assumption=None):
    def deco(f):
        REG.constructors[clsname] = f
        if assumption:
            REG.assumptions["new " + clsname] = assumption
        return f
    return deco


def spec_function(name=None):
    def deco(f):
        REG.spec_funcs[name or f.__name__] = f
        return f
    return deco


def inline(*qualnames):
    REG.inline.update(qualnames)


def load_all():
    import contracts as pkg
    for m in pkgutil.iter_modules(pkg.__path__):
        importlib.import_module("contracts." + m.name)
    return REG
