"""One solver query in its own process:  python -m pyvc.solve  < job.json  > result.json

job = {"file": <SMT-LIB 2 file: the assumptions, then (assert (not goal)) as LAST assertion>,
       "stages": [[name, config, budget_ms, seed], ...],     tried in order, stops at the first decided one
       "core": bool}                                          also report an unsat core (indices of assertions)

Why a process per query: the verdict of a z3 query depends on the history of the context it is built in (term numbering
decides instantiation order), so every query gets a fresh context; several contexts in threads of one Python process
crashed (segmentation fault) and a crash here must be an `unknown`, never take the checker down.  Budgets are z3 resource
units (`rlimit`), the wall-clock timeout is a backstop only."""
import json
import sys
import time


def main():
    import z3
    job = json.load(sys.stdin)
    out = dict(status="unknown", stage=None, seconds=0.0, reason="", core=None, tried=[])
    t_all = time.time()
    for name, cfg, budget, seed in job["stages"]:
        ctx = z3.Context()
        forms = z3.parse_smt2_file(job["file"], ctx=ctx)
        s = z3.Solver(ctx=ctx)
        for k, v in (cfg or {}).items():
            s.set(k, v)
        if seed:
            s.set("random_seed", seed)
        s.set("rlimit", int(budget * 2000))
        s.set("timeout", int(budget * 4))
        n = len(forms)
        if job.get("core"):
            lits = {}
            for i in range(n - 1):
                p = z3.Bool(f"trk!{i}", ctx)
                lits[str(p)] = i
                s.assert_and_track(forms[i], p)
            s.add(forms[n - 1])
        else:
            for i in range(n):
                s.add(forms[i])
        t0 = time.time()
        r = s.check()
        dt = time.time() - t0
        out["tried"].append([name, str(r), round(dt, 3)])
        if r == z3.unsat:
            out.update(status="unsat", stage=name)
            if job.get("core"):
                out["core"] = sorted(lits[str(c)] for c in s.unsat_core())
            break
        if r == z3.sat:
            out.update(status="sat", stage=name)
            break
        out.update(stage=name, reason=s.reason_unknown())
    out["seconds"] = round(time.time() - t_all, 4)
    json.dump(out, sys.stdout)


if __name__ == "__main__":
    main()
