"""cvc5 as second opinion on z3's `unknown` (DESIGN.md 2.7): the query is exported as SMT-LIB 2 and
run through /usr/bin/cvc5 (or the cvc5 on PATH)."""
from __future__ import annotations

import os
import shutil
import subprocess
import tempfile
import time

from . import smt

CVC5 = shutil.which("cvc5") or "/usr/bin/cvc5"


def check(assumptions, goal, timeout_ms=20000) -> smt.Result:
    with tempfile.NamedTemporaryFile("w", suffix=".smt2", delete=False, dir=os.environ.get("PYVC_TMP") or "/var/tmp") as f:
        f.write("(set-logic ALL)\n" + smt.to_smt2(assumptions, goal))
        path = f.name
    try:
        return check_file(path, timeout_ms)
    finally:
        try:
            os.unlink(path)
        except OSError:
            pass


def check_file(path, timeout_ms=20000) -> smt.Result:
    t0 = time.time()
    try:
        p = subprocess.run([CVC5, "--strings-exp", f"--tlimit={timeout_ms}", path],
                           capture_output=True, text=True, timeout=timeout_ms / 1000 + 10)
        out = p.stdout.strip().splitlines()
        ans = out[0].strip() if out else "unknown"
    except Exception as ex:          # timeouts, parse errors: undecided, never a verdict
        ans = "unknown"
        out = [str(ex)]
    dt = time.time() - t0
    if ans == "unsat":
        return smt.Result("unsat", dt, "cvc5")
    if ans == "sat":
        return smt.Result("sat", dt, "cvc5")
    return smt.Result("unknown", dt, "cvc5", reason=" ".join(out)[:200])


def core_file(path, n_assumptions, timeout_ms=60000):
    """indices (assertion order in the file) of an unsat core found by cvc5, or None.  z3 prints one (assert ...) per
    assertion, in order: they are named; the last one is the negated goal and stays unnamed."""
    import re
    text = open(path).read()
    out, pos, n = [], 0, 0
    while True:
        k = text.find("(assert", pos)
        if k < 0:
            out.append(text[pos:])
            break
        out.append(text[pos:k])
        depth, j = 0, k
        while True:
            c = text[j]
            if c == "(":
                depth += 1
            elif c == ")":
                depth -= 1
                if depth == 0:
                    break
            elif c == '"':
                j = text.index('"', j + 1)
                while text[j + 1:j + 2] == '"':      # escaped quote in SMT-LIB strings
                    j = text.index('"', j + 2)
            elif c == "|":
                j = text.index("|", j + 1)
            j += 1
        body = text[k + len("(assert"):j].strip()
        out.append(f"(assert (! {body} :named hint_a{n}))" if n < n_assumptions else text[k:j + 1])
        n += 1
        pos = j + 1
    text = "(set-option :produce-unsat-cores true)\n" + "".join(out).replace("(check-sat)", "(check-sat)\n(get-unsat-core)")
    named = path + ".named.smt2"
    with open(named, "w") as f:
        f.write(text)
    try:
        p = subprocess.run([CVC5, "--strings-exp", f"--tlimit={timeout_ms}", named], capture_output=True, text=True,
                           timeout=timeout_ms / 1000 + 10)
        lines = p.stdout.strip().splitlines()
        if not lines or lines[0].strip() != "unsat":
            return None
        return sorted(int(m) for m in re.findall(r"hint_a(\d+)", " ".join(lines[1:])))
    except Exception:
        return None
    finally:
        try:
            os.unlink(named)
        except OSError:
            pass
