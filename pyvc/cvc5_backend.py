"""cvc5 as second opinion on z3's `unknown` (DESIGN.md 2.7): the query is exported as SMT-LIB 2 and
run through /usr/bin/cvc5 (or the cvc5 on PATH)."""
from __future__ import annotations

import os
import shutil
import subprocess
import tempfile
import time

from . import smt

CVC5 = shutil.which("cvc5") or "/usr/bin/cvc5"


def check(assumptions, goal, timeout_ms=20000) -> smt.Result:
    text = smt.to_smt2(assumptions, goal)
    text = "(set-logic ALL)\n" + text
    t0 = time.time()
    with tempfile.NamedTemporaryFile("w", suffix=".smt2", delete=False, dir=os.environ.get("XDG_RUNTIME_DIR") or "/var/tmp") as f:
        f.write(text)
        path = f.name
    try:
        p = subprocess.run([CVC5, "--strings-exp", f"--tlimit={timeout_ms}", path],
                           capture_output=True, text=True, timeout=timeout_ms / 1000 + 10)
        out = p.stdout.strip().splitlines()
        ans = out[0].strip() if out else "unknown"
    except Exception as ex:          # timeouts, parse errors: undecided, never a verdict
        ans = "unknown"
        out = [str(ex)]
    finally:
        try:
            os.unlink(path)
        except OSError:
            pass
    dt = time.time() - t0
    if ans == "unsat":
        return smt.Result("unsat", dt, "cvc5")
    if ans == "sat":
        return smt.Result("sat", dt, "cvc5")
    return smt.Result("unknown", dt, "cvc5", reason=" ".join(out)[:200])
