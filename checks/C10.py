"""C10 - expanding decay modes enumerates every complete decay path exactly once (bounded stand-in).

Real code executed: DecFileParser.from_string(text).parse(), DecFileParser.expand_decay_modes (hence build_decay_chains,
_expand_decay_modes, DaughtersDict.to_string, DescriptorFormat.format_descriptor) from /repo.
Oracle: specs.chainspec.count / paths on the table map T and alias map A read from the parser (per-table queries and
dict_aliases()).

Verdict rule. The property text fixes (a) the number of descriptors (sum over lines of the product over daughters of the
daughters' own counts) and (b) the multiset of descriptors, each descriptor being one choice spelled out with its nesting,
names and multiplicities. The list order (lines in order, itertools.product order over the daughters in fs order) and the
sorted() order of the daughters inside a descriptor are what DESIGN.md's contract states, but the property text does not:
the check therefore first compares the two lists literally (equal => holds) and otherwise decides on the multiset of
order-insensitive readings of the descriptors; list-order-only deviations are counted in `order_only_deviations` and do
not fail the check.
"""
from __future__ import annotations

import itertools
import json
import random
import time

from specs import chainspec as cs

FUNC = "decaylanguage.dec.dec.DecFileParser.expand_decay_modes"
LHCB = "/repo/src/decaylanguage/data/DECAY_LHCB.DEC"

META = {
    "level": "other",
    "explanation": (
        "Bounded stand-in for C10: expand_decay_modes(M) is executed on generated acyclic decay-table sets and compared with "
        "spec paths(T,A,M) (one descriptor per choice of one decay line for M and recursively for every daughter that has "
        "decay lines; daughters without lines, including empty Decay blocks, stay bare; decaying aliases shown under the "
        "particle they alias at every depth; default patterns '{mother} -> {daughters}' / '({mother} -> {daughters})') and "
        "its length with the independently computed count(T,M) = sum over lines of the product over daughters. Literal list "
        "equality is tried first; the verdict is on the multiset of descriptors read up to daughter order (see module "
        "docstring). (1) exhaustive over the union of small scopes x every alias pattern (each particle plain or an alias of a "
        "fresh name), every mother; (2) a deterministic family of larger sets (3-5 daughters, up to 6 lines, depth 4, repeated "
        "daughters, empty blocks, aliases of fresh names / leaves / other decaying particles, two aliases of one particle) with "
        "path counts <= 4000; thorough tier adds the scopes (2,3,2), (3,3,1), (4,1,2), (4,2,1) with all alias patterns and (3,2,2) without / with every particle an alias, a VERIF_SEED random supplement "
        "and every mother of the shipped DECAY_LHCB.DEC whose independently computed path count is < 20000. Not a proof."),
    "assumptions": [
        "the text generated for a table set is parsed into exactly that table set and alias map (cross-checked on every "
        "generated set; a mismatch is a checker error)",
        "particle names contain no blanks and only balanced parentheses (needed only by the order-insensitive fallback reading)",
    ],
    "trusted_base": ["specs/chainspec.py (oracle count/paths, descriptor reader, generator)", "itertools.product, sorted"],
    "not_applicable_clauses": [],
}

# (K, L, W, alias patterns): 'all' = every one of the 2^K patterns, 'ends' = no alias / every particle an alias
QUICK_SCOPES = [(1, 2, 4, "all"), (2, 4, 1, "all"), (2, 1, 4, "all"), (2, 2, 3, "all"), (3, 1, 3, "all"), (3, 2, 1, "all"),
                (4, 1, 1, "all"), (5, 1, 1, "all"), (2, 3, 2, "ends"), (4, 1, 2, "ends")]
THOROUGH_SCOPES = QUICK_SCOPES[:-2] + [(2, 3, 2, "all"), (3, 3, 1, "all"), (4, 1, 2, "all"), (4, 2, 1, "all"), (3, 2, 2, "ends")]
BATCH = 32
MAX_FAIL = 8
FAMILY_CAP = 4000


def evaluate(parser, T, A, mother, cap=None):
    """-> (ok, clause, what, info)   info: 'skipped' | 'order_only' | ''"""
    n = cs.count(T, mother)
    if cap is not None and n > cap:
        return True, "paths", "", "skipped"
    want = cs.paths(T, A, mother)
    others = [m for m in T if m != mother]
    try:
        if others and (len(mother) + len(others)) % 2 == 0:
            # history first (for half of the cases): the chain of this mother is asked for once with every other table cut
            # off (stable set) BEFORE the expansion — a pure query must not influence the expansion that follows
            parser.build_decay_chains(mother, stable_particles=others)
        got = parser.expand_decay_modes(mother)
    except Exception as ex:
        return False, "paths", f"expected {n} descriptors, raised {ex!r}", ""
    if not isinstance(got, list):
        return False, "paths", f"expected a list, got {type(got).__name__}", ""
    if len(got) != n:
        return False, "length", (f"expected {n} descriptors (sum over lines of product over daughters), got {len(got)}: "
                                 f"missing {_short(_diff(want, got))} extra {_short(_diff(got, want))}"), ""
    if got == want or cs.same_paths_as_multiset(got, want):
        # the answer must not depend on what the instance was asked before: cut the chain at every other table
        # (stable set) once, then ask again
        if others:
            try:
                parser.build_decay_chains(mother, stable_particles=others)
                again = parser.expand_decay_modes(mother)
            except Exception as ex:
                return False, "paths.after_history", f"after build_decay_chains({mother!r}, stable_particles={others}) raised {ex!r}", ""
            if again != got:
                return False, "paths.after_history", (f"after build_decay_chains({mother!r}, stable_particles={others}) the expansion changed: "
                                                      f"missing {_short(_diff(got, again))} extra {_short(_diff(again, got))}"), ""
        return True, "paths", "", ("" if got == want else "order_only")
    return False, "paths", f"missing {_short(_diff(want, got))} extra {_short(_diff(got, want))}", ""


def _diff(a, b):
    from collections import Counter
    c = Counter(x if isinstance(x, str) else repr(x) for x in a)
    c.subtract(Counter(x if isinstance(x, str) else repr(x) for x in b))
    return sorted(x for x, k in c.items() for _ in range(max(k, 0)))[:6]


def _short(v, n=500):
    s = json.dumps(v, default=str)
    return s if len(s) <= n else s[:n] + "...(%d chars)" % len(s)


def _alias_patterns(blocks):
    names = [m for m, _ in blocks]
    for r in range(len(names) + 1):
        for c in itertools.combinations(names, r):
            yield {p: (f"My{p}", f"Q{p[1:]}") for p in c}


def _gen_task(task):
    from decaylanguage import DecFileParser

    mode, items = task
    res = dict(evals=0, keys=set(), failures=[], errors=[], samples=[], order_only=0, skipped=0, maxcount=0, maxdepth=0)
    tss = [cs.with_prefix(cs.decorate(blocks, aliases, salt=idx), f"s{k}_") for k, (idx, blocks, aliases) in enumerate(items)]
    text = cs.render(tss)
    try:
        parser = DecFileParser.from_string(text)
        parser.parse()
        T = cs.read_tables(parser)
        A = dict(parser.dict_aliases())
    except Exception as ex:
        res["errors"].append(f"generated text not parsed: {ex!r}: {text[:300]}")
        return res
    for k, (idx, blocks, aliases) in enumerate(items):
        pre = f"s{k}_"
        ts = tss[k]
        Tg = cs.tables_of_model(ts)
        if {m: T.get(m) for m in Tg} != Tg or any(A.get(a) != t for a, t in ts["aliases"]):
            res["errors"].append(f"assumed external contract violated: parser tables/aliases differ from the generated set #{idx}")
            continue
        Tu = {m: [{"fs": fs} for fs in fss] for m, fss in blocks}
        Au = {a: t for a, t in aliases}
        for m, _lines in ts["blocks"]:
            mu = m[len(pre):]
            ok, clause, what, info = evaluate(parser, T, A, m, cap=FAMILY_CAP if mode == "family" else None)
            if info == "skipped":
                res["skipped"] += 1
                continue
            res["evals"] += 1
            res["order_only"] += info == "order_only"
            if not ok:
                res["failures"].append(dict(idx=idx, mother=mu, clause=clause, what=what))
            n = cs.count(Tu, mu)
            res["maxcount"] = max(res["maxcount"], n)
            if n >= 2 or any(cs.decays(Tu, x) for fs in Tu[mu] for x in fs["fs"]):
                reach = sorted(cs.reachable(Tu, mu))
                res["keys"].add(cs.digest(({x: [ln["fs"] for ln in Tu[x]] for x in reach}, mu,
                                           {a: t for a, t in Au.items() if a in reach})))
        if not res["samples"] and len(blocks) >= 2 and aliases:
            un = cs.decorate(blocks, aliases, salt=idx)
            res["samples"].append(dict(dec_text=cs.render(un), mother=un["blocks"][0][0]))
    return res


# -------------------------------------------------------------------------------------------------- replay


def replay(inp):
    """re-run one comparison: input = {dec_text | file, mother}"""
    from decaylanguage import DecFileParser

    parser = DecFileParser(inp["file"]) if "file" in inp else DecFileParser.from_string(inp["dec_text"])
    parser.parse()
    T = cs.read_tables(parser)
    A = dict(parser.dict_aliases())
    ok, clause, what, info = evaluate(parser, T, A, inp["mother"])
    return ok, (f"{clause}: holds" + (" (as a multiset; list order differs)" if info else "") if ok else f"{clause}: {what}")


def _plain(ts, still_fails):
    """the shrunk set with the default decoration (bf / model by position), if it fails as well: equal shapes then give equal inputs"""
    cand = cs.decorate([[m, [ln["fs"] for ln in lines]] for m, lines in ts["blocks"]], ts["aliases"], salt=0)
    try:
        return cand if still_fails(cand) else ts
    except Exception:
        return ts


def _minimise(blocks, aliases, idx, f):
    ts = cs.decorate(blocks, aliases, salt=idx)
    mk = lambda t: dict(dec_text=cs.render(t), mother=f["mother"])  # noqa: E731
    try:
        ok, _ = replay(mk(ts))
    except Exception:
        ok = True
    if ok:
        return None
    small = cs.shrink_ts(ts, lambda t: not replay(mk(t))[0], keep_mothers=(f["mother"],), budget=150)
    return mk(_plain(small, lambda t: not replay(mk(t))[0]))


def _collect(results, lookup, name, bound, rule, exhaustive, t0):
    keys = set()
    errors, fails, samples = [], [], []
    for r in results:
        keys |= r["keys"]
        errors.extend(r["errors"])
        fails.extend(r["failures"])
        samples.extend(r["samples"])
    fails.sort(key=lambda f: len(json.dumps(lookup(f["idx"]))))
    failures = []
    for f in fails[:MAX_FAIL]:
        blocks, aliases = lookup(f["idx"])
        inp = _minimise(blocks, aliases, f["idx"], f) if len(failures) < 3 else None
        if inp is None:
            inp = dict(dec_text=cs.render(cs.decorate(blocks, aliases, salt=f["idx"])), mother=f["mother"])
        if any(cs.freeze(x["input"]) == cs.freeze(inp) for x in failures):
            continue
        ok, msg = replay(inp)
        failures.append(dict(function=FUNC, clause=f["clause"], what=(msg if not ok else f["what"] + " (seen in a batch of sets)"),
                             input=inp, replay={"module": "checks.C10", "function": "replay"}))
    if failures and len(fails) > len(failures):
        failures[-1]["what"] += f"  [{len(fails)} failing comparisons in total, {len(failures)} distinct inputs recorded]"
    return dict(name=name, function=FUNC, bound=bound, evaluations=sum(r["evals"] for r in results),
                distinct_nontrivial=len(keys), rule=rule, exhaustive=exhaustive, samples=samples[:3], failures=failures,
                errors=sorted(set(errors))[:5], order_only_deviations=sum(r["order_only"] for r in results),
                skipped_over_cap=sum(r["skipped"] for r in results), largest_path_count=max([r["maxcount"] for r in results] or [0]),
                seconds=round(time.time() - t0, 1))


RULE = ("one evaluation = one call expand_decay_modes(M) on the real parser compared with paths(T,A,M) and count(T,M); "
        "distinct_nontrivial = number of distinct (sub-table-set reachable from M, M, aliases among it) triples, batch prefix "
        "removed, where M has >= 2 paths or at least one daughter with decay lines (so there is nesting or a product); "
        "mothers over the path-count cap are skipped and reported in skipped_over_cap, not evaluated")

# -------------------------------------------------------------------------------------------------- shipped file

_LH = {}


def _lhcb_task(mothers):
    parser, T, A = _LH["parser"], _LH["T"], _LH["A"]
    res = dict(evals=0, keys=set(), failures=[], order_only=0)
    for m in mothers:
        ok, clause, what, info = evaluate(parser, T, A, m)
        res["evals"] += 1
        res["order_only"] += info == "order_only"
        n = cs.count(T, m)
        if n >= 2 or any(cs.decays(T, x) for ln in T[m] for x in ln["fs"]):
            res["keys"].add(m)
        if not ok:
            res["failures"].append(dict(mother=m, clause=clause, what=what, n=n))
    return res


def _run_lhcb(count_bound, t0):
    from decaylanguage import DecFileParser

    parser = DecFileParser(LHCB)
    parser.parse()
    T = cs.read_tables(parser)
    A = dict(parser.dict_aliases())
    smemo = {}
    for m in T:
        cs.chain_size(T, (), m, smemo)       # raises ValueError on a cycle (count() would not terminate)
    memo = {}
    counts = {m: cs.count(T, m, memo) for m in T}
    mothers = sorted((m for m in T if counts[m] < count_bound), key=lambda m: -counts[m])
    _LH.update(parser=parser, T=T, A=A)
    n = cs.nprocs() * 4
    results = cs.pmap(_lhcb_task, [mothers[i::n] for i in range(n) if mothers[i::n]])
    _LH.clear()
    fails = sorted((f for r in results for f in r["failures"]), key=lambda f: f["n"])
    keys = set().union(*[r["keys"] for r in results])
    aliased = sum(1 for m in mothers if any(x in A for x in cs.reachable(T, m)))
    return dict(name="C10.paths.shipped_file", function=FUNC,
                bound=(f"DECAY_LHCB.DEC: every mother whose independently computed path count is < {count_bound} "
                       f"({len(mothers)} of {len(T)} mothers, largest {max(counts[m] for m in mothers)} paths; {aliased} of them "
                       f"reach a decaying alias; {len(A)} Alias statements in the file)"),
                evaluations=sum(r["evals"] for r in results), distinct_nontrivial=len(keys),
                rule="one evaluation = one call compared with paths/count; distinct_nontrivial = mothers with >= 2 paths or a "
                     "daughter that has decay lines",
                exhaustive=False, samples=[dict(file=LHCB, mother=mothers[0]), dict(file=LHCB, mother=mothers[len(mothers) // 2])],
                failures=[dict(function=FUNC, clause=f["clause"], what=f["what"], input=dict(file=LHCB, mother=f["mother"]),
                               replay={"module": "checks.C10", "function": "replay"}) for f in fails[:MAX_FAIL]],
                errors=[], order_only_deviations=sum(r["order_only"] for r in results), seconds=round(time.time() - t0, 1))


# -------------------------------------------------------------------------------------------------- run


def _family_items(tier, seed):
    items = [(i, b, a) for i, (b, a) in enumerate(cs.wide_family())]
    rng = cs.rng_for(0, "C10.family")
    n_fixed = 400 if tier == "quick" else 3000
    for _ in range(n_fixed):
        b, a = cs.random_blocks(rng, max_count=FAMILY_CAP, max_size=10 ** 9)
        items.append((len(items), b, a))
    n_seeded = 0
    if tier == "thorough":
        rng = cs.rng_for(seed, "C10.supplement")
        for _ in range(5000):
            b, a = cs.random_blocks(rng, max_count=FAMILY_CAP, max_size=10 ** 9)
            items.append((len(items), b, a))
            n_seeded += 1
    return items, n_fixed, n_seeded


def run(tier="quick", seed=0):
    out = []
    t0 = time.time()
    scopes = QUICK_SCOPES if tier == "quick" else THOROUGH_SCOPES
    items = []
    nsets = 0
    seen = set()
    for K, L, W, mode in sorted(scopes, key=lambda sc: sc[3] != "all"):      # 'all' scopes first: a set keeps its richest mode
        for blocks in cs.enum_scope(K, L, W):
            key = cs.freeze(blocks)
            if key in seen:
                continue
            seen.add(key)
            nsets += 1
            pats = list(_alias_patterns(blocks))
            for pat in (pats if mode == "all" else [pats[0], pats[-1]]):
                b, a = cs.apply_alias_pattern(blocks, pat)
                items.append((len(items), b, a))
    del seen
    if tier == "thorough" and seed:
        random.Random(f"C10.order:{seed}").shuffle(items)
    by_idx = {i: (b, a) for i, b, a in items}
    results = cs.pmap(_gen_task, [("scope", c) for c in cs.chunks(items, BATCH)])
    out.append(_collect(
        results, lambda i: by_idx[i], "C10.paths.small_scopes",
        f"all {nsets} table sets of the scopes {' u '.join(f'(K={k},L<={l},W<={w};aliases:{m})' for k, l, w, m in scopes)} (K ranked particles P0<..<P(K-1) each with a Decay block "
        "of 0..L lines - 0 = empty block -, a line = sequence of 1..W daughters drawn with repetition from the lower-ranked "
        f"particles and the table-less leaf x, every particle reachable from the top one) x alias patterns (each particle either plain "
        f"or declared 'Alias MyPr Qr' and used under the alias name; 'all' = all 2^K patterns, 'ends' = none / every particle) "
        f"= {len(items)} (set, pattern) pairs; every "
        "particle with a block as mother",
        RULE, True, t0))
    t0 = time.time()
    items, n_fixed, n_seeded = _family_items(tier, seed)
    by_idx2 = {i: (b, a) for i, b, a in items}
    results = cs.pmap(_gen_task, [("family", c) for c in cs.chunks(items, 8)])
    out.append(_collect(
        results, lambda i: by_idx2[i], "C10.paths.larger_family",
        f"{len(cs.wide_family())} hand-shaped sets (depth-4 ladder with 2067 paths, 3-5 daughters, 4-6 lines, repeated daughters, "
        f"empty blocks at several depths, aliases incl. two aliases of one particle) + {n_fixed} fixed-seed random sets" +
        (f" + {n_seeded} sets from VERIF_SEED={seed}" if n_seeded else "") +
        f" (2..7 decaying particles of rank 0..4, 0..5 lines, 1..5 daughters, leaf with empty Decay block, aliases to fresh names / "
        f"leaves / other particles, shuffled block order, every path count <= {FAMILY_CAP}); every mother",
        RULE, False, t0))
    if tier == "thorough":
        out.append(_run_lhcb(20000, time.time()))
    return {"bounded": out}
