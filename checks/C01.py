"""C01 - decay tables read from a .dec file are exactly what the file states: bounded stand-in for the
text -> tree step (Lark applied to the grammar), which no function contract reaches.

Every generated text is parsed by the real DecFileParser; list_decay_mother_names(), number_of_decays,
list_decay_modes(m), _find_decay_modes(m) + _decay_mode_details(mode, True/False) and
build_decay_chains(m, stable_particles=all daughters) are compared with specs.decfile_reader.tables(read(text)).
"""
from __future__ import annotations

import random

from checks import _dec_harness as H
from specs import decgen as G

FUNCTION = "decaylanguage.dec.dec.DecFileParser.parse"
RULE = ("evaluations = texts (after removing textual duplicates) that the reference reader accepted, that the real "
        "parser parsed and whose complete set of table answers was compared; distinct_nontrivial = those of them that "
        "contain at least one decay line (texts are distinct by construction: duplicates are removed by SHA-1 before "
        "the run); decay_lines_compared = decay lines of those texts (as written, before first-block selection)")

META = {
    "level": "other",
    "explanation": (
        "Tree -> answers is the business of the function contracts (contracts/dec_getters.py). The step text -> tree "
        "(Lark's LALR engine applied to decfile.lark) is not reachable by a contract and is covered here by a bounded "
        "stand-in: the real parser is run on an exhaustive small-scope family of texts and every table answer is compared "
        "with an independent hand-written reader (specs/decfile_reader.py, written from the property statement). Bounds: "
        "every equal/different-mother pattern over 0..6 Decay blocks (a mother up to 3 times; blocks different / identical / "
        "alternating; 0..6 lines per block); four blocks (one empty, one repeated) interleaved with each of 17 other statement "
        "kinds in every non-empty subset of the 5 gaps; every daughter tuple of length 0..2 over a 48-name pool covering every "
        "character of the label alphabet in leading, inner and trailing position, lengths 3-4 by a cyclic covering; every one "
        "of 17 numeric literal spellings as branching fraction x as parameter (first/middle/last); every one of the 135 "
        "published model names x PHOTOS x 6 parameter shapes (numeric, word, Define'd, negated); parameter lists of 0..6 "
        "entries x 8 separators (blank, comma, line break) x 8 terminators. Thorough tier adds 0..7 blocks (mother up to 4 "
        "times), a seeded random supplement and the shipped files tests/data/*.dec, DECAY_LHCB.DEC, DECAY_BELLE2.DEC. "
        "Out of reach: texts beyond these sizes; texts outside the preconditions listed under not_applicable_clauses."),
    "assumptions": [
        "X-LARK Lark(...).parse(text) returns the tree the grammar denotes (this is what the bounded stand-in samples; never proved)",
        "X-STD float() accepts every numeric literal of the statement language and is deterministic",
        "specs/decfile_reader.py states what C01 says (hand-written from the property statement; agrees with the real parser on "
        "both shipped master files, about 16500 decay lines)",
    ],
    "trusted_base": ["specs/decfile_reader.py (oracle)", "specs/decgen.py (enumerators)", "checks/_dec_harness.py (comparison)"],
    "not_applicable_clauses": [
        "P-NL text given to from_string ends with a newline", "P-KW names are not statement keywords or published model names",
        "P-MARK no word of the form ChargeConj(...)",
        "P-NUMWORD parameter words do not merely start like a number ('2pi' is read by the grammar as 2 and 'pi')",
        "P-NUM absent and empty parameter list are the same 'empty' ('' == [])",
        "content of tables created by CopyDecay / CDecay (C08 / C03): only their names are accounted for here",
    ],
}


def items_for(tier, seed):
    pairs = G.c01_all(tier)
    if tier == "thorough":
        pairs += G.random_supplement(6000, seed, "C01")
    pairs = H.dedupe(pairs)
    if tier == "thorough":
        random.Random(seed).shuffle(pairs)
    items = [(fam, text, None) for fam, text in pairs]
    if tier == "thorough":
        items += [("shipped", None, p) for p in H.shipped_files()]
    return items


def run(tier: str = "quick", seed: int = 0) -> dict:
    items = items_for(tier, seed)
    results = H.run_items("C01", items)
    bound = ("0..6 Decay blocks (mother repeated <= 3x) x 0..6 lines x 0..4 daughters over a 48-name pool; 17 literal forms; "
             "135 models x PHOTOS x 6 parameter shapes; 0..6 parameters x 8 separators x 8 terminators; 17 other statement "
             "kinds in every subset of 5 gaps" + ("; + 0..7 blocks (<= 4x), 6000 seeded random texts, shipped files" if tier == "thorough" else ""))
    entry = H.summarise("C01", "C01.parse.tables_equal_reader", FUNCTION, bound, RULE, results, exhaustive=True)
    entry["samples"] = H.samples_of(items)
    return {"bounded": [entry], "obligations": []}


def replay(input):  # noqa: A002 - name fixed by checks/README.md
    return H.replay("C01", input)
