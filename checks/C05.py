"""C05 - Define'd parameters and ModelAlias'd models mean exactly their expansion: bounded stand-in.

For every generated text t the real DecFileParser is run on t and on expand(t) - the text in which every use of
a Define'd name in a parameter list of a decay line is replaced by the literal of its last definition (sign
flipped when written -name) and every use of a ModelAlias name by the model and parameters it stands for - and the
complete snapshots (every table incl. copied and conjugated ones, every global query) must be equal.  The tables of
t are also compared with the reference reader's resolution (last definition wins, position-independent), and
dict_definitions() / dict_model_aliases() with the reader's dictionaries.
"""
from __future__ import annotations

import random

from checks import _dec_harness as H
from specs import decgen as G

FUNCTION = "decaylanguage.dec.dec.DecFileParser.parse"
RULE = ("evaluations = texts (textual duplicates removed) for which parse(t), parse(expand(t)) and the reader-based tables "
        "were all computed and compared (two real parse() calls each); distinct_nontrivial = those in which at least one decay "
        "line uses a ModelAlias name or a Define'd name (plain or negated), i.e. expand(t) != t")

META = {
    "level": "other",
    "explanation": (
        "The replacement visitors/transformers are under contract (tree level). End-to-end expansion equivalence is bounded: "
        "0..3 Define statements over two names (redefinitions) and 0..3 ModelAlias statements over two names (bodies without "
        "parameters / numeric / word / Define'd / negated Define'd parameters / multi-line) in EVERY assignment to the 4 gaps "
        "before, between and after 3 Decay blocks (585 placements each), each with usage vectors (name used 0..3 times in each "
        "block) walked cyclically through all 64 (1 per placement in the quick tier, 8 in the thorough tier); 81 texts with "
        "CopyDecay'd and CDecay'd tables (definitions before / between / after, redefinitions, 1..3 uses); 24 large texts "
        "(6 blocks x 6 lines, 6 Define'd names, 4 aliases, 3 redefinitions, definitions rotating through 7 gaps). Thorough adds a "
        "seeded random supplement and the shipped files (reader comparison only). Out of reach: larger files; ModelAlias of a "
        "ModelAlias (P-ALIAS); Define'd names that start with '-'."),
    "assumptions": [
        "X-LARK Lark(...).parse(text) returns the tree the grammar denotes",
        "X-COPY copy.deepcopy gives every alias use its own tokens",
        "specs/decfile_reader.py states what C05 says (expand_text is a textual substitution on the token spans of the original text)",
    ],
    "trusted_base": ["specs/decfile_reader.py (oracle, expand_text)", "specs/decgen.py (enumerators)", "checks/_dec_harness.py (comparison)"],
    "not_applicable_clauses": [
        "P-ALIAS a ModelAlias stands for a model name, not for another alias", "P-NL", "P-KW", "P-NUMWORD",
        "P-CC / P-CD1 / P-SELF / P-COPY1 / P-COPY2 in the texts with derived tables; daughters of conjugated tables are C03's",
        "a Define'd name that itself starts with '-' (ambiguous with negation)",
    ],
}


def items_for(tier, seed):
    pairs = G.c05_all(tier)
    if tier == "thorough":
        pairs += G.random_supplement(2000, seed, "C05")
    pairs = H.dedupe(pairs)
    if tier == "thorough":
        random.Random(seed).shuffle(pairs)
    items = [(fam, text, None) for fam, text in pairs]
    if tier == "thorough":
        items += [("shipped", None, p) for p in H.shipped_files()]
    return items


def run(tier: str = "quick", seed: int = 0) -> dict:
    items = items_for(tier, seed)
    results = H.run_items("C05", items)
    reps = 1 if tier == "quick" else 8
    bound = (f"0..3 Define / 0..3 ModelAlias statements over 2 names in every assignment to the 4 gaps around 3 blocks x {reps} of the 64 "
             "usage vectors (0..3 uses per block); 81 texts with copied + conjugated tables; large texts 6 blocks x 6 lines x 6 names"
             + ("; + 96 large texts, 2000 seeded random texts, shipped files (reader comparison only)" if tier == "thorough" else ""))
    entry = H.summarise("C05", "C05.parse.expansion_equivalence", FUNCTION, bound, RULE, results, exhaustive=True)
    entry["samples"] = H.samples_of(items)
    return {"bounded": [entry], "obligations": []}


def replay(input):  # noqa: A002
    return H.replay("C05", input)
