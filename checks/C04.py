"""C04 — charge conjugation is a PDG-consistent involution at every layer.

The name function is a lookup in finite tables of the installed `particle` package: its contract is evaluated
on EVERY name of those tables (exhaustive for the installed data) — this establishes axiom A-CC used by the
proofs of C03/C04.  The class-level statements are proof obligations of the sidecar contracts (when present);
here they are also evaluated on an enumeration of final states as a bounded stand-in.
"""
from __future__ import annotations

import itertools
import random
import warnings

META = {
    "level": "other",
    "explanation": "charge_conjugate_name: contract evaluated exhaustively on every EvtGen name and every PDG name of the installed "
                   "tables (finite domain, exhaustive: true). DaughtersDict/DecayMode.charge_conjugate and agreement with the "
                   "CDecay table: bounded enumeration of final states (sizes stated). ",
    "assumptions": ["X-PART: contents of the particle tables are what the installed `particle` package ships"],
    "trusted_base": ["particle (tables)"],
}


def _tables():
    from particle.converters import EvtGenName2PDGIDBiMap, PDG2EvtGenNameMap
    evt = sorted(EvtGenName2PDGIDBiMap._to_map.keys())          # EvtGen names
    pdg = sorted(PDG2EvtGenNameMap._map.keys())                 # PDG names
    return evt, pdg


def _known_conjugate(name):
    """from the property: a name has a known antiparticle if the particle data base inverts it or the negated
    PDG ID has an EvtGen name"""
    from particle import Particle
    from particle.converters import EvtGenName2PDGIDBiMap
    try:
        return Particle.from_evtgen_name(name).invert().evtgen_name
    except Exception:
        pass
    try:
        return EvtGenName2PDGIDBiMap[-EvtGenName2PDGIDBiMap[name]]
    except Exception:
        return None


def check_name(name, pdg=False):
    """-> list of violated clauses for one name"""
    from decaylanguage.utils.particleutils import charge_conjugate_name
    from particle.converters import EvtGenName2PDGIDBiMap, PDG2EvtGenNameMap, EvtGen2PDGNameMap
    bad = []
    cc = charge_conjugate_name(name, pdg_name=pdg)
    if pdg:
        try:
            evt = PDG2EvtGenNameMap[name]
        except Exception:
            evt = None
        ref = _known_conjugate(evt) if evt is not None else None
        if ref is not None:
            try:
                want = EvtGen2PDGNameMap[ref]
            except Exception:
                want = None
            if want is not None:
                if cc != want:
                    bad.append(f"pdg-name conjugate of {name!r} is {cc!r}, expected {want!r}")
                back = charge_conjugate_name(cc, pdg_name=True)
                # PDG names are not unique per ID (several spellings): the round trip must return a name of the same ID
                try:
                    same = PDG2EvtGenNameMap[back] == evt
                except Exception:
                    same = False
                if not same:
                    bad.append(f"conjugating {name!r} twice gives {back!r} (different particle)")
        return bad
    ref = _known_conjugate(name)
    if ref is None:
        if cc != f"ChargeConj({name})":
            bad.append(f"{name!r} has no known conjugate but is returned as {cc!r} instead of being wrapped")
        return bad
    try:
        i0 = int(EvtGenName2PDGIDBiMap[name])
        i1 = int(EvtGenName2PDGIDBiMap[cc])
    except Exception:
        i0 = i1 = None
    if i0 is not None:
        if cc == name:
            # self-conjugate: the negated ID must not name another particle
            try:
                other = EvtGenName2PDGIDBiMap[-EvtGenName2PDGIDBiMap[name]]
            except Exception:
                other = name
            if other != name:
                bad.append(f"{name!r} returned unchanged although PDG ID {-i0} is {other!r}")
        elif i1 != -i0:
            bad.append(f"conjugate of {name!r} (ID {i0}) is {cc!r} (ID {i1}), expected ID {-i0}")
    if charge_conjugate_name(cc) != name:
        bad.append(f"conjugating {name!r} twice gives {charge_conjugate_name(cc)!r}")
    return bad


def check_final_state(names_counts, meta):
    from decaylanguage.decay.decay import DaughtersDict, DecayMode
    from decaylanguage.utils.particleutils import charge_conjugate_name
    bad = []
    dd = DaughtersDict(dict(names_counts))
    cc = dd.charge_conjugate()
    want = {}
    for n, c in names_counts:
        if c > 0:
            want[charge_conjugate_name(n)] = want.get(charge_conjugate_name(n), 0) + c
    if dict(cc) != want:
        bad.append(f"DaughtersDict({dict(names_counts)}).charge_conjugate() == {dict(cc)}, expected {want}")
    if len(cc) != len(dd):
        bad.append(f"number of particles changed: {len(dd)} -> {len(cc)}")
    dm = DecayMode(0.123, dd, **meta)
    dmc = dm.charge_conjugate()
    if dmc.bf != dm.bf or dict(dmc.daughters) != want or dmc.metadata != dm.metadata:
        bad.append(f"DecayMode.charge_conjugate changed bf/metadata or daughters: {dmc.bf} {dict(dmc.daughters)} {dmc.metadata}")
    if dm.metadata != dict({"model": "", "model_params": ""}, **meta) or dict(dm.daughters) != dict(dd):
        bad.append("DecayMode.charge_conjugate modified the original")
    return bad


def check_cdecay_agreement(names):
    """the table CDecay produces for a line agrees with DaughtersDict(...).charge_conjugate()"""
    from decaylanguage.dec.dec import DecFileParser
    from decaylanguage.decay.decay import DaughtersDict
    text = "Decay D0\n1.0 " + " ".join(names) + " PHSP;\nEnddecay\nCDecay anti-D0\n"
    p = DecFileParser.from_string(text)
    with warnings.catch_warnings():
        warnings.simplefilter("ignore")
        p.parse()
    got = p.list_decay_modes("anti-D0")
    want = DaughtersDict(list(names)).charge_conjugate()
    if len(got) != 1 or dict(DaughtersDict(got[0])) != dict(want):
        return [f"CDecay table {got} disagrees with DaughtersDict({list(names)}).charge_conjugate() = {dict(want)}"]
    return []


def replay(inp):
    kind = inp["kind"]
    if kind == "name":
        bad = check_name(inp["name"], inp.get("pdg", False))
    elif kind == "final_state":
        bad = check_final_state([tuple(x) for x in inp["names_counts"]], inp.get("meta", {}))
    else:
        bad = check_cdecay_agreement(inp["names"])
    return (not bad, "; ".join(bad) or "holds")


def run(tier="quick", seed=0):
    evt, pdg = _tables()
    fails = []
    n_eval = 0
    nontrivial = 0
    for n in evt:
        n_eval += 1
        b = check_name(n)
        nontrivial += 1 if _known_conjugate(n) not in (None, n) else 0
        for m in b:
            fails.append(dict(function="decaylanguage.utils.particleutils.charge_conjugate_name", clause="A-CC.evtgen", what=m,
                              input=dict(kind="name", name=n), replay=dict(module="checks.C04", function="replay")))
    unknown_labels = ["Unknown", "X(3872)bar", "my-particle", "K+K-", "anti-", "0", "pi+'", "~chi_10", "D0sig", "B0~", "a.b", "p/n"]
    for n in unknown_labels:
        n_eval += 1
        for m in check_name(n):
            fails.append(dict(function="decaylanguage.utils.particleutils.charge_conjugate_name", clause="A-CC.unknown", what=m,
                              input=dict(kind="name", name=n), replay=dict(module="checks.C04", function="replay")))
    for n in pdg:
        n_eval += 1
        for m in check_name(n, pdg=True):
            fails.append(dict(function="decaylanguage.utils.particleutils.charge_conjugate_name", clause="A-CC.pdg", what=m,
                              input=dict(kind="name", name=n, pdg=True), replay=dict(module="checks.C04", function="replay")))
    b1 = dict(name="C04.names.exhaustive", function="decaylanguage.utils.particleutils.charge_conjugate_name",
              bound=f"every EvtGen name ({len(evt)}) and every PDG name ({len(pdg)}) of the installed tables + {len(unknown_labels)} unknown labels",
              evaluations=n_eval, distinct_nontrivial=nontrivial,
              rule="one evaluation per table name; non-trivial = EvtGen names whose conjugate is a different, known name",
              exhaustive=True, samples=[evt[0], evt[len(evt) // 2], pdg[3]], failures=fails, errors=[])

    # final states: all multisets of <= 3 distinct names from a pool x multiplicities up to 6 (above the small literals)
    rnd = random.Random(seed)
    pool = ["K+", "pi-", "pi0", "K_S0", "anti-D0", "Unknown", "e-", "anti-nu_e", "D*+", "Upsilon(4S)"]
    if tier == "thorough":
        pool = pool + rnd.sample(evt, 60)
    fs_fail = []
    n2 = 0
    metas = [{}, {"model": "PHSP", "model_params": [1.0, "x"]}, {"study": "toy", "year": 2019, "zfit": {"B0": "gauss"}}]
    combos = list(itertools.combinations(pool[:10], 1)) + list(itertools.combinations(pool[:10], 2)) + \
        list(itertools.combinations(pool[:7], 3))
    if tier == "thorough":
        combos += [tuple(rnd.sample(pool, k)) for k in (2, 3, 4, 5) for _ in range(300)]
    for names in combos:
        for mult in ((1,) * len(names), (2, 1, 3, 1, 1)[:len(names)], (6, 4, 5, 1, 2)[:len(names)]):
            meta = metas[n2 % len(metas)]
            n2 += 1
            nc = list(zip(names, mult))
            for m in check_final_state(nc, meta):
                fs_fail.append(dict(function="decaylanguage.decay.decay.DaughtersDict.charge_conjugate", clause="multiset", what=m,
                                    input=dict(kind="final_state", names_counts=nc, meta=meta),
                                    replay=dict(module="checks.C04", function="replay")))
    b2 = dict(name="C04.final_states", function="decaylanguage.decay.decay.DaughtersDict.charge_conjugate",
              bound="all 1-, 2-subsets of 10 names and 3-subsets of 7 names x 3 multiplicity patterns (up to 6) x 3 metadata shapes"
                    + ("; + 1200 random states over 70 names" if tier == "thorough" else ""),
              evaluations=n2, distinct_nontrivial=n2, rule="one DaughtersDict + one DecayMode conjugation per state; all distinct",
              exhaustive=(tier != "thorough"), samples=[list(zip(combos[5], (1,) * len(combos[5])))], failures=fs_fail, errors=[])

    ag_fail = []
    n3 = 0
    lines = [c for c in combos if 1 <= len(c) <= 4][:120 if tier == "quick" else 600]
    for names in lines:
        for rep in (1, 2):
            n3 += 1
            ns = list(names) * rep
            for m in check_cdecay_agreement(ns):
                ag_fail.append(dict(function="decaylanguage.dec.dec.ChargeConjugateReplacement.particle", clause="agrees_with_classes", what=m,
                                    input=dict(kind="cdecay", names=ns), replay=dict(module="checks.C04", function="replay")))
    b3 = dict(name="C04.cdecay_agreement", function="decaylanguage.dec.dec.ChargeConjugateReplacement.particle",
              bound=f"{len(lines)} daughter lists x 2 repetitions, parsed with CDecay and compared with DaughtersDict.charge_conjugate",
              evaluations=n3, distinct_nontrivial=n3, rule="one parse per line", exhaustive=False,
              samples=[list(lines[3])], failures=ag_fail, errors=[])
    return {"bounded": [b1, b2, b3], "obligations": []}
