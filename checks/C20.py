"""C20 - conversion output depends only on the input file (bounded stand-in).

Real code executed: AmplitudeChain.read_ampgen(file), ampgen2goofit(file, ret_output=True),
ampgen2goofitpy(file, ret_output=True), in every order up to a length bound in one process, and the same
calls as FIRST call of a fresh interpreter (subprocess ``.venv/bin/python -c``), also under several
PYTHONHASHSEED values (thorough).
"""
from __future__ import annotations

import itertools
import json
import multiprocessing as mp
import os
import subprocess
import sys
import time
from concurrent.futures import ThreadPoolExecutor

from specs import ampgen_gen as G

ROOT = os.path.dirname(os.path.dirname(os.path.abspath(__file__)))
Q_READ = "decaylanguage.modeling.amplitudechain.AmplitudeChain.read_ampgen"
Q_CPP = "decaylanguage.modeling.ampgen2goofit.ampgen2goofit"
Q_PY = "decaylanguage.modeling.ampgen2goofit.ampgen2goofitpy"
OPS = ("AC", "GF", "PY")
OP_FUNCTION = {"AC": Q_READ, "GF": Q_CPP, "PY": Q_PY}
SEQ_FILES = ("vv-polar", "cascade-spline-cartesian", "swave-kmatrix-focus-opt0", "same-lines-permuted-eventtype-cartesian")

META = {
    "level": "other",
    "explanation": (
        "Bounded: over a pool of option files with different resonance content (two vectors / polar; axial cascades with "
        "splines / cartesian on; S-wave K-matrix + FOCUS / option 0; four-pion tensor and pseudoscalar cascades; a one-line "
        "conjugate file with cartesian on) every sequence of calls from {AmplitudeChain.read_ampgen, ampgen2goofit, "
        "ampgen2goofitpy} x {4 files} up to length 3 (quick) / 4 (thorough) is executed in one process (fork tree: each "
        "prefix state is forked for its 12 continuations, so every sequence runs on exactly the state its history leaves) and "
        "the result of every call - amplitudes (text, coupling, error, fix), parameter and constant rows, event type; output "
        "text without the timestamp line and with header groups, mass constants, resonance variables and array blocks as "
        "sets - must equal the result of the same call made first in a fresh interpreter. One (quick) / three (thorough) "
        "sequences are run twice in fresh interpreters with equal PYTHONHASHSEED and must reproduce the texts exactly apart "
        "from the timestamp; thorough: every call also in fresh interpreters with PYTHONHASHSEED 0,1,2,3,4."),
    "assumptions": [
        "particle_from_string_name memoised per (name, particle-table size) inside the fork tree only; the memo is warmed by real "
        "lookups before and after the special-particle table is loaded, the parent process never reads a file, the reference "
        "interpreters run without memo",
        "fork() preserves the interpreter state (class attributes, particle table) of the prefix exactly",
    ],
    "trusted_base": ["checks/C18.py canonical_output", "specs/ampgen_gen.py (file pool)", "os.fork / subprocess"],
    "not_applicable_clauses": [],
}


# --------------------------------------------------------------------------------------------------------
def do_call(op, path):
    """one call -> JSON-able canonical result"""
    from checks import C18 as X
    if op == "AC":
        from decaylanguage.modeling.amplitudechain import AmplitudeChain
        lines, pars, consts, states = AmplitudeChain.read_ampgen(path)

        def node(l):
            return [str(l.name), int(l.particle.pdgid), None if l.spinfactor is None else str(l.spinfactor),
                    None if l.lineshape is None else str(l.lineshape), [node(d) for d in l.daughters]]
        return dict(states=[int(p.pdgid) for p in states],
                    lines=[[str(l), [l.amp.real, l.amp.imag], [l.err.real, l.err.imag], bool(l.fix), node(l)] for l in lines],
                    pars=[[str(n), bool(f), float(v), float(e)] for n, f, v, e in zip(pars.index, pars["fix"], pars["value"], pars["error"])],
                    consts=[[str(n), float(v)] for n, v in zip(consts.index, consts["value"])])
    from decaylanguage.modeling.ampgen2goofit import ampgen2goofit, ampgen2goofitpy
    if op == "GF":
        return json.loads(json.dumps(X.canonical_output(ampgen2goofit(path, ret_output=True), "cpp")))
    if op == "PY":
        return json.loads(json.dumps(X.canonical_output(ampgen2goofitpy(path, ret_output=True), "py")))
    raise ValueError(op)


def do_call_raw(op, path):
    from checks import C18 as X
    if op == "AC":
        return json.dumps(do_call(op, path))
    from decaylanguage.modeling.ampgen2goofit import ampgen2goofit, ampgen2goofitpy
    return X.strip_timestamp((ampgen2goofit if op == "GF" else ampgen2goofitpy)(path, ret_output=True))


def _diff(a, b):
    if isinstance(a, dict) and isinstance(b, dict):
        for k in a:
            if a.get(k) != b.get(k):
                return f"{k}: " + _diff(a.get(k), b.get(k))
        return "keys differ"
    if isinstance(a, list) and isinstance(b, list):
        if len(a) != len(b):
            extra_a = [x for x in a if x not in b][:3]
            extra_b = [x for x in b if x not in a][:3]
            return f"{len(a)} vs {len(b)} items; only after history: {str(extra_a)[:300]}; only fresh: {str(extra_b)[:300]}"
        for i, (x, y) in enumerate(zip(a, b)):
            if x != y:
                return f"[{i}] " + _diff(x, y)
    return f"{str(a)[:200]!r} (after history) vs {str(b)[:200]!r} (fresh)"


def fresh(op, path, hashseed=None, timeout=1500):
    """the call as first call of a fresh interpreter"""
    env = dict(os.environ)
    env["PYTHONPATH"] = ROOT
    env["PYTHONDONTWRITEBYTECODE"] = "1"
    env.pop("PYTHONHASHSEED", None)
    if hashseed is not None:
        env["PYTHONHASHSEED"] = str(hashseed)
    code = "import sys, json; from checks import C20; print('@@' + json.dumps(C20.do_call(sys.argv[1], sys.argv[2])))"
    p = subprocess.run([sys.executable, "-c", code, op, path], capture_output=True, text=True, env=env, timeout=timeout, cwd=ROOT)
    if p.returncode != 0:
        raise RuntimeError(f"fresh interpreter failed for {op} {os.path.basename(path)}: {p.stderr[-400:]}")
    line = next(l for l in p.stdout.splitlines() if l.startswith("@@"))
    return json.loads(line[2:])


def fresh_sequence_raw(seq, paths, hashseed):
    env = dict(os.environ)
    env["PYTHONPATH"] = ROOT
    env["PYTHONDONTWRITEBYTECODE"] = "1"
    env["PYTHONHASHSEED"] = str(hashseed)
    code = ("import sys, json; from checks import C20; seq = json.loads(sys.argv[1]); "
            "print('@@' + json.dumps([C20.do_call_raw(op, p) for op, p in seq]))")
    arg = json.dumps([[op, paths[f]] for op, f in seq])
    p = subprocess.run([sys.executable, "-c", code, arg], capture_output=True, text=True, env=env, timeout=3000, cwd=ROOT)
    if p.returncode != 0:
        raise RuntimeError(f"fresh interpreter failed for {seq}: {p.stderr[-400:]}")
    line = next(l for l in p.stdout.splitlines() if l.startswith("@@"))
    return json.loads(line[2:])


# --------------------------------------------------------------------------------------------------------
# fork tree
# --------------------------------------------------------------------------------------------------------
def _record(fd_path, rec):
    data = (json.dumps(rec) + "\n").encode()
    fd = os.open(fd_path, os.O_WRONLY | os.O_APPEND | os.O_CREAT, 0o600)
    try:
        os.write(fd, data)
    finally:
        os.close(fd)


def _step(call, history, refs, paths, out_path, check=True):
    op, f = call
    try:
        got = do_call(op, paths[f])
        ok = got == refs[f"{op}|{f}"]
        what = "" if ok else _diff(got, refs[f"{op}|{f}"])
    except Exception as ex:                                     # noqa: BLE001
        ok, what = False, f"{type(ex).__name__}: {ex}"[:300]
    if check:
        _record(out_path, dict(seq=history + [list(call)], ok=ok, what=what[:700]))


def _subtree(history, depth_left, calls, refs, paths, out_path):
    """in the current process state (after `history`), try every continuation in a forked copy"""
    for c in calls:
        pid = os.fork()
        if pid == 0:
            code = 0
            try:
                _step(c, history, refs, paths, out_path)
                if depth_left > 1:
                    _subtree(history + [list(c)], depth_left - 1, calls, refs, paths, out_path)
            except BaseException:                               # noqa: BLE001
                code = 1
            finally:
                os._exit(code)
        _, status = os.waitpid(pid, 0)
        if status != 0:
            _record(out_path, dict(seq=history + [list(c)], ok=None, what=f"forked child ended with status {status}"))


_CTX = {}


def _tree_task(args):
    """prefix of two calls, executed in this fresh worker; then the fork tree below it"""
    (c1, c2), first_of_c1 = args
    depth, calls, refs, paths, out_dir = (_CTX[k] for k in ("depth", "calls", "refs", "paths", "out_dir"))
    out_path = os.path.join(out_dir, f"tree-{os.getpid()}.jsonl")
    _step(c1, [], refs, paths, out_path, check=first_of_c1)     # sequences of length 1 are recorded once
    _step(c2, [list(c1)], refs, paths, out_path)
    if depth > 2:
        _subtree([list(c1), list(c2)], depth - 2, calls, refs, paths, out_path)
    recs = []
    if os.path.exists(out_path):
        with open(out_path) as fh:
            recs = [json.loads(l) for l in fh if l.strip()]
        os.remove(out_path)
    bad = [r for r in recs if r["ok"] is not True]
    by_len = {}
    for r in recs:
        by_len[len(r["seq"])] = by_len.get(len(r["seq"]), 0) + 1
    return by_len, bad[:20], len(bad)


# --------------------------------------------------------------------------------------------------------
def _write_pool(wd):
    paths = {}
    for label, text in G.c20_pool():
        p = os.path.join(wd, label + ".txt")
        with open(p, "w", encoding="utf_8") as fh:
            fh.write(text)
        paths[label] = p
    return paths


def replay(input):                                              # noqa: A002
    """Run the recorded sequence in a fresh interpreter (no memo) and compare the result of its last call with
    the same call made first in another fresh interpreter."""
    seq = [tuple(x) for x in input["sequence"]]
    with G.work_dir() as wd:
        paths = _write_pool(wd)
        if input.get("kind") == "reproduce":
            a = fresh_sequence_raw(seq, paths, input.get("hashseed", 0))
            b = fresh_sequence_raw(seq, paths, input.get("hashseed", 0))
            return (a == b), ("texts reproduced exactly" if a == b else "two fresh runs of the sequence differ")
        env = dict(os.environ, PYTHONPATH=ROOT, PYTHONDONTWRITEBYTECODE="1")
        if input.get("hashseed") is not None:
            env["PYTHONHASHSEED"] = str(input["hashseed"])
        code = ("import sys, json; from checks import C20; seq = json.loads(sys.argv[1]); r = None\n"
                "for op, p in seq: r = C20.do_call(op, p)\n"
                "print('@@' + json.dumps(r))")
        p = subprocess.run([sys.executable, "-c", code, json.dumps([[op, paths[f]] for op, f in seq])],
                           capture_output=True, text=True, env=env, timeout=3000, cwd=ROOT)
        if p.returncode != 0:
            return False, f"sequence raised: {p.stderr[-300:]}"
        got = json.loads(next(l for l in p.stdout.splitlines() if l.startswith("@@"))[2:])
        op, f = seq[-1]
        ref = fresh(op, paths[f])
    if got == ref:
        return True, "result after the history equals the result of the first call of a fresh interpreter"
    return False, _diff(got, ref)


def run(tier="quick", seed=0):
    t0 = time.time()
    errors = list(G.check_pool())
    depth = 4 if tier == "thorough" else 3
    calls = [(op, f) for f in SEQ_FILES for op in OPS]
    all_files = [l for l, _ in G.c20_pool() if tier == "thorough" or l in SEQ_FILES]
    entries = []
    with G.work_dir() as wd:
        paths = _write_pool(wd)
        tp = ThreadPoolExecutor(16 if tier == "quick" else 12)
        # references: each call as first call of a fresh interpreter (no memo there)
        ref_f = {f"{op}|{f}": tp.submit(fresh, op, paths[f]) for f in all_files for op in OPS}
        # exact reproduction of sequences in fresh interpreters (same hash seed)
        rep_seqs = [[("GF", "4pi-tensor"), ("PY", "vv-polar")]]
        if tier == "thorough":
            rep_seqs += [[("PY", "cascade-spline-cartesian"), ("AC", "vv-polar"), ("GF", "swave-kmatrix-focus-opt0")],
                         [("AC", "conj-oneline-cartesian"), ("GF", "vv-polar"), ("PY", "4pi-tensor"), ("GF", "vv-polar")]]
        rep_f = [(s, hs, tp.submit(fresh_sequence_raw, s, paths, hs), tp.submit(fresh_sequence_raw, s, paths, hs))
                 for s in rep_seqs for hs in ((0,) if tier == "quick" else (0, 7))]
        seeds = (0, 1, 2, 3, 4) if tier == "thorough" else ()
        memo = G.install_lookup_memo()
        G.prewarm_memo(memo, load_special_in_parent=False, procs=8)
        from particle import Particle
        if any(int(p.pdgid) == 998101 for p in Particle.all()):
            errors.append("checker: the parent process has the special particle table loaded before the fork tree starts")
        refs = {}
        for k, fut in ref_f.items():
            try:
                refs[k] = fut.result()
            except Exception as ex:                             # noqa: BLE001
                errors.append(f"reference for {k}: {ex}"[:500])
        seed_f = {(k, hs): tp.submit(fresh, k.split("|")[0], paths[k.split("|")[1]], hs) for k in refs for hs in seeds}
        # ---- in-process histories
        by_len = {}
        bad = []
        n_bad = 0
        if len(refs) == len(ref_f):
            pairs = list(itertools.product(calls, repeat=2))
            if seed:
                import random
                random.Random(seed).shuffle(pairs)
            first_seen = set()
            tasks = []
            for c1, c2 in pairs:
                tasks.append(((c1, c2), c1 not in first_seen))
                first_seen.add(c1)
            _CTX.update(depth=depth, calls=calls, refs=refs, paths=paths, out_dir=wd)     # inherited by the forked workers
            ctx = mp.get_context("fork")
            with ctx.Pool(min(16, os.cpu_count() or 1), maxtasksperchild=1) as pool:
                for bl, b, nb in pool.imap_unordered(_tree_task, tasks, chunksize=1):
                    for k, v in bl.items():
                        by_len[k] = by_len.get(k, 0) + v
                    bad += b
                    n_bad += nb
        bad.sort(key=lambda r: (len(r["seq"]), r["seq"]))
        failures = []
        seen_last = {}
        for r in bad:
            if r["ok"] is None:
                errors.append(f"fork tree: {r['seq']}: {r['what']}")
                continue
            last = tuple(r["seq"][-1])
            seen_last[last] = seen_last.get(last, 0) + 1
            if seen_last[last] > 1 or len(failures) >= 10:
                continue
            failures.append(dict(function=OP_FUNCTION[last[0]], clause="result.independent_of_history",
                                 what=f"after {r['seq'][:-1]} the call {list(last)} differs from the same call made first in a fresh interpreter: {r['what']}",
                                 input=dict(kind="history", sequence=r["seq"]), replay={"module": "checks.C20", "function": "replay"}))
        total = sum(by_len.values())
        entries.append(dict(
            name="C20.histories.vs_fresh_interpreter", function=" / ".join(OP_FUNCTION.values()),
            bound=(f"all sequences of length 1..{depth} over {len(calls)} calls = {{read_ampgen, ampgen2goofit, ampgen2goofitpy}} x "
                   f"{len(SEQ_FILES)} files ({', '.join(SEQ_FILES)}); the result of every call of every sequence is compared"),
            evaluations=total, distinct_nontrivial=sum(v for k, v in by_len.items() if k >= 2),
            rule=("one evaluation = the result of the last call of one distinct sequence (every prefix is a distinct sequence and is "
                  "executed once, in a process forked from its own prefix); non-trivial = the sequence has a non-empty history; per length: "
                  + ", ".join(f"{k}: {v}" for k, v in sorted(by_len.items()))),
            exhaustive=True,
            samples=[dict(sequence=[["GF", "cascade-spline-cartesian"], ["PY", "4pi-tensor"], ["AC", "vv-polar"]]),
                     dict(file="vv-polar", text=dict(G.c20_pool())["vv-polar"])],
            failures=failures, errors=list(errors), failures_total=n_bad,
            memo=dict(entries_warmed_before_fork=len(memo.table)),
        ))
        # ---- fresh interpreters: reproduction and hash seeds
        f2 = []
        e2 = []
        n_ev = 0
        for s, hs, fa, fb in rep_f:
            try:
                a, b = fa.result(), fb.result()
                n_ev += 1
                if a != b:
                    k = next(i for i, (x, y) in enumerate(zip(a, b)) if x != y)
                    f2.append(dict(function=OP_FUNCTION[s[k][0]], clause="fresh_process.reproduces_text_exactly",
                                   what=f"two fresh interpreters (PYTHONHASHSEED={hs}) running {s} give different text for call {k}",
                                   input=dict(kind="reproduce", sequence=[list(x) for x in s], hashseed=hs),
                                   replay={"module": "checks.C20", "function": "replay"}))
            except Exception as ex:                             # noqa: BLE001
                e2.append(f"reproduction run {s}: {ex}"[:400])
        n_seed = 0
        for (k, hs), fut in seed_f.items():
            try:
                got = fut.result()
                n_seed += 1
                if got != refs[k]:
                    op, f = k.split("|")
                    f2.append(dict(function=OP_FUNCTION[op], clause="result.independent_of_hash_seed",
                                   what=f"{op} {f} with PYTHONHASHSEED={hs}: {_diff(got, refs[k])}",
                                   input=dict(kind="history", sequence=[[op, f]], hashseed=hs),
                                   replay={"module": "checks.C20", "function": "replay"}))
            except Exception as ex:                             # noqa: BLE001
                e2.append(f"hash seed run {k} {hs}: {ex}"[:400])
        tp.shutdown()
        entries.append(dict(
            name="C20.fresh_interpreters.hashseed_and_reproduction", function=" / ".join(OP_FUNCTION.values()),
            bound=(f"{len(rep_f)} (sequence, PYTHONHASHSEED) pairs each run twice in fresh interpreters (exact text apart from the timestamp); "
                   f"{len(ref_f)} calls (3 functions x {len(all_files)} files) x PYTHONHASHSEED in {list(seeds) or 'random (reference only)'}"),
            evaluations=n_ev * 2 + n_seed + len(refs), distinct_nontrivial=n_ev + n_seed,
            rule=("one evaluation = one fresh interpreter run (`.venv/bin/python -c`, PYTHONPATH=/verif, no memo); non-trivial = a pair of runs "
                  "compared for exact text, or a run under an explicit hash seed compared with the reference run (random seed) modulo the "
                  "order of independent declarations; the reference runs themselves are counted in evaluations only"),
            exhaustive=False,
            samples=[dict(sequence=[list(x) for x in rep_seqs[0]], hashseed=0)],
            failures=f2[:10], errors=e2, failures_total=len(f2), wall_s=round(time.time() - t0, 1),
        ))
    return {"bounded": entries}
