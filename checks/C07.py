"""C07 - global declarations are reported completely, later declarations winning: bounded stand-in for the
text -> tree step of the declaration statements (the getters themselves are under contract).

Every generated text is parsed by the real DecFileParser and dict_definitions(), dict_aliases(),
dict_charge_conjugates(), dict_decays2copy(), list_charge_conjugate_decays(), dict_model_aliases(),
get_particle_property_definitions(), dict_pythia_definitions(), dict_jetset_definitions(), dict_lineshape_settings(),
list_lineshapePW_definitions() and global_photos_flag() are compared - values AND types (int stays int, float is float,
bool is bool) - with specs.decfile_reader.global_answers(read(text)); where the property prescribes an error (repeated
lineshape setting) the real query must raise.
"""
from __future__ import annotations

import random

from checks import _dec_harness as H
from specs import decgen as G

FUNCTION = "decaylanguage.dec.dec.DecFileParser.parse"
RULE = ("evaluations = texts (textual duplicates removed) that were parsed by the real parser and for which all 12 global "
        "queries were compared with the reader; distinct_nontrivial = those containing at least one statement other than a "
        "Decay block")

META = {
    "level": "other",
    "explanation": (
        "The getters are proved at tree level (contracts/dec_getters.py). The step text -> tree is bounded here: per statement "
        "kind (Define, Alias, ChargeConj, CDecay, CopyDecay, Particle with / without / mixed width, Pythia*Param, JetSetPar, LS*, "
        "BlattWeisskopf, ChangeMassMin/Max, IncludeBirth/DecayFactor, SetLineshapePW, ModelAlias) EVERY sequence of 0..4 statements "
        "over 3 names (4 (sub-kind, name) symbols for kinds with sub-kinds) plus every sequence of 5 and 6 statements over 2 names, "
        "values differing by position, and every yesPhotos/noPhotos sequence of length 0..6 - each kind alone up to length 3 "
        "(C07.seq.*) and, up to the full lengths, all kinds in one text (text i carries the i-th sequence of every kind; kind after "
        "kind in rotating order and round-robin interleaved; C07.combined); Decay blocks at rotating positions; all "
        "kinds together (same name declared 2-3 times) in every rotation, forward and reversed, around 3 Decay blocks; every one of "
        "48 pool names (whole label alphabet) in every name slot; 17 literal spellings in every numeric slot (JetSet int vs float, "
        "Pythia int/float/word); Particle without width x {no alias, alias before/after, alias redeclared, width in earlier/later "
        "declaration} for 12 known particles. Thorough: sequences 0..5 (+ 6..8 over 2 names), photos 0..9, 200 seeded orders, random "
        "supplement, shipped files. Out of reach: longer sequences; JetSetPar labels not of the form LETTERS(digits)."),
    "assumptions": [
        "X-LARK Lark(...).parse(text) returns the tree the grammar denotes",
        "X-PART Particle.from_evtgen_name(name).width is a deterministic table lookup (used by the oracle and by the code)",
        "X-STD float()/int() accept the literals of the statement language",
    ],
    "trusted_base": ["specs/decfile_reader.py (oracle)", "specs/decgen.py (enumerators)", "checks/_dec_harness.py (comparison)",
                     "particle (reference widths)"],
    "not_applicable_clauses": [
        "P-NL", "P-KW", "P-MARK", "P-NUMWORD (Pythia value words do not merely start like a number)",
        "order of keys inside the returned dictionaries (the property speaks of content)",
        "Particle without width whose (aliased) name is unknown to the particle package: both sides report an error, not compared further",
    ],
}


def items_for(tier, seed):
    pairs = G.c07_all(tier, seed)
    if tier == "thorough":
        pairs += G.random_supplement(3000, seed, "C07")
    pairs = H.dedupe(pairs)
    if tier == "thorough":
        random.Random(seed).shuffle(pairs)
    items = [(fam, text, None) for fam, text in pairs]
    if tier == "thorough":
        items += [("shipped", None, p) for p in H.shipped_files()]
    return items


def run(tier: str = "quick", seed: int = 0) -> dict:
    items = items_for(tier, seed)
    results = H.run_items("C07", items)
    full, two, alone, ph = ("0..4", "5..6", "3", "0..6") if tier == "quick" else ("0..5", "6..8", "5 (+6..8)", "0..9")
    bound = (f"per statement kind every sequence of {full} statements over 3 names / 4 symbols + {two} over 2 names (alone up to length {alone}, "
             f"all kinds combined in one text up to the full length, 2 layouts); photos flags {ph}; "
             "all kinds x all rotations (fwd/rev) around 3 blocks; 48 names x every slot; 17 literal forms x every numeric slot; "
             "width-less Particle x 8 alias situations x 12 particles"
             + ("; + 200 seeded orders, 3000 seeded random texts, shipped files" if tier == "thorough" else ""))
    entry = H.summarise("C07", "C07.parse.globals_equal_reader", FUNCTION, bound, RULE, results, exhaustive=True)
    entry["samples"] = H.samples_of(items)
    return {"bounded": [entry], "obligations": []}


def replay(input):  # noqa: A002
    return H.replay("C07", input)
