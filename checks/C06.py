"""C06 -- every supported model name is recognised as itself; unknown models are rejected (bounded, end to end).

Oracle (from the property statement): a decay line `bf daughters [PHOTOS] WORD [params];`
  * WORD in decaylanguage.dec.enums.known_decay_models, or registered through load_additional_decay_models
    before parse(): _decay_mode_details reports model == ("PHOTOS " +) WORD verbatim, the daughters and the
    parameters exactly as written (numbers as floats, Define'd words as their value);
  * WORD a defined ModelAlias: the model it stands for (C05, used here only as a control);
  * anything else: parse() raises (any exception) -- it is never accepted as some other model.
Neighbouring labels (mother, daughters, Alias / Define / ModelAlias names, parameter words) that extend a
model name by letters, digits or '_' do not change any of this.  Only the real code is run.
The lexical obligations on the compiled MODEL_NAME terminal are discharged elsewhere ("obligations": []).
"""
from __future__ import annotations

import random
import string
import time

from specs import decrel as R

FN_CB = "decaylanguage.dec.dec.DecFileParser._generate_edit_terminals_callback"
FN_LOAD = "decaylanguage.dec.dec.DecFileParser.load_additional_decay_models"
FN_ALIAS = "decaylanguage.dec.dec.DecayModelAliasReplacement._replacement"
WORDCH = string.ascii_letters + string.digits + "_"
LABELCH_NONWORD = ["-x", "+", ".5", "(1)", "'", "*", "/x", "~"]   # LABEL characters outside [A-Za-z0-9_]

META = {
    "level": "other",
    "explanation": (
        "Bounded, end-to-end on the real parser. published.contexts: all 135 published names, one file each: the name "
        "with/without PHOTOS, with/without parameters, next to a mother, daughters, Alias, Define, ModelAlias and "
        "parameter labels that extend it, including every one-character extension by [A-Za-z0-9_] in daughter and in "
        "parameter position. published.prefix_pairs: all 30 ordered pairs (a prefix of b) side by side in both orders. "
        "registered.*: user names registered before parse() -- every proper prefix (length >= 2) and every one-character "
        "extension by [A-Za-z0-9_] of a sample of published names (quick: 24 names, thorough: all 135), names containing "
        "'-', duplicates of published names, the same name twice, two and three successive load calls, and grouped "
        "registration of a whole family together with all 135 published names. unknown.*: near-miss words (name + "
        "word character, name minus last character, lower case, prefixed) with/without PHOTOS and parameters must make "
        "parse() raise, with a defined-ModelAlias control. boundary: a model name followed by a LABEL character that is not a "
        "letter, digit or '_' (registered names ending in '-', labels NAME-Xc next to registered NAME-X and NAME, unknown words "
        "NAME-x NAME+ NAME.5 NAME(1) NAME' NAME* NAME/x NAME~). Not covered: names outside letters, digits, '_' and '-'; "
        "registering after the grammar has been loaded."),
    "assumptions": ["X-LARK", "P-KW no label equals a grammar keyword", "P-ALIAS"],
    "trusted_base": ["specs/decrel.py (renderer, expected tables)"],
    "not_applicable_clauses": [],
}


def _published():
    from decaylanguage.dec.enums import known_decay_models
    return list(known_decay_models)


def _ext(base, cands, taken):
    for c in cands:
        if base + c not in taken and base + c not in R.GRAMMAR_KEYWORDS:
            return base + c
    raise RuntimeError(f"no free extension of {base}")


# ------------------------------------------------------------------------------------------ one evaluation

def evaluate(case):
    """case = {"stmts", "calls", "expect_raises"}; None when the clause holds, else a message."""
    text = R.render(case["stmts"])
    try:
        p = R.parse_text(text, True, extra_models_calls=case.get("calls") or [])
    except Exception as ex:
        if case["expect_raises"]:
            return None
        return f"parse() raised {type(ex).__name__}: {str(ex).splitlines()[0][:200]}"
    if case["expect_raises"]:
        got = [[m, [(r["model"], r["fs"], r["params"]) for r in rows]] for m, rows in R.tables_of(p)]
        return f"parse() accepted the file although its model word is neither a model name nor a ModelAlias: {got}"
    return R.compare_tables(p, R.expected_tables(case["stmts"], True), "reported")


def replay(input):
    msg = evaluate(input)
    return (False, msg) if msg else (True, "model names reported verbatim / unknown word rejected, as stated")


def _work(chunk):
    out = dict(evals=0, hashes=[], failures=[], nfail=0, errors=[])
    for case in chunk:
        out["evals"] += 1
        try:
            msg = evaluate(case)
        except Exception as ex:
            out["errors"].append(f"oracle crashed: {type(ex).__name__}: {ex}")
            continue
        out["hashes"].append(R.digest([case["stmts"], case.get("calls")]))
        if not msg:
            continue
        out["nfail"] += 1
        if len(out["failures"]) >= 2:
            continue

        def fails(st, case=case, raised=(" raised " in msg)):
            m = evaluate(dict(case, stmts=st))
            return m is not None and (" raised " in m) == raised
        small = R.minimise_stmts(case["stmts"], fails, budget=40, line_budget=25) if not case["expect_raises"] else case["stmts"]
        c2 = {"stmts": small, "calls": case.get("calls") or [], "expect_raises": case["expect_raises"], "text": R.render(small)}
        out["failures"].append(dict(function=case["function"], clause=case["clause"], what=evaluate(c2) or msg, input=c2,
                                    replay={"module": "checks.C06", "function": "replay"}))
    return out


# ------------------------------------------------------------------------------------------ case families

def published_contexts():
    pub = _published()
    taken = set(pub)
    for m in pub:
        a1 = _ext(m, ["x", "y", "q"], taken)
        a2 = _ext(m, ["_A", "_B"], taken)
        d1 = _ext(m, ["_1", "_7"], taken)
        ma = _ext(m, ["2", "3", "4", "9"], taken)
        w = _ext(m, ["z", "Z"], taken)
        d0 = _ext(m, ["0", "5", "8"], taken)
        one = [m + c for c in WORDCH if m + c not in taken and m + c not in (d1,)]
        stmts = [
            ["Alias", a1, "pi0"], ["Alias", a2, "K+"], ["Define", d1, "0.5"],
            ["ModelAlias", ma, m, ["1.0", d1]],
            ["Decay", _ext(m, ["_M"], taken), [
                ["0.1", [a1, a2, "pi+"], False, m, []],
                ["0.1", [a1, "K-"], True, m, []],
                ["0.1", ["K+", a2], False, m, ["1.0", d1, w, "-0.5"]],
                ["0.1", [d0, a1], True, m, [d1, "2"]],
                ["0.1", ["K+", "K-"], False, ma, []],
                ["0.1", ["K+", ma + "b"], True, ma, []],
                ["0.1", one, False, m, []],
                ["0.1", ["pi0"], True, m, one],
            ]],
        ]
        yield dict(stmts=stmts, calls=[], expect_raises=False, function=FN_CB, clause="published.name_reported_verbatim")


def prefix_pairs():
    pub = _published()
    for a in pub:
        for b in pub:
            if a != b and b.startswith(a):
                fwd = [["0.1", ["K+", "K-"], False, a, []], ["0.1", ["K+", "K-"], False, b, []],
                       ["0.1", ["K+"], False, b, ["1.0", a + "_p"]], ["0.1", ["K-"], False, a, ["2.0", b + "_p"]],
                       ["0.1", ["pi0"], True, a, []], ["0.1", ["pi0"], True, b, []],
                       ["0.1", ["pi0", b + "_d"], True, a, ["3"]], ["0.1", [a + "_d", "pi0"], True, b, ["4"]]]
                stmts = [["Decay", "M1", fwd], ["Decay", "M2", fwd[::-1]]]
                yield dict(stmts=stmts, calls=[], expect_raises=False, function=FN_CB, clause="published.prefix_pair_side_by_side")


def _ends(pub):
    return [pub[0], pub[1], pub[len(pub) // 2], pub[-2], pub[-1], "CB3PI-MPP", "PHSP"]


def _registered_file(users, calls, pub, related_of=None, all_published=False):
    """A file using every user name in four contexts, the published names related to them by prefix, the
    first / middle / last published names (or all of them), and labels extending the user names."""
    taken = set(pub) | set(users)
    lines = []
    for u in dict.fromkeys(users):
        # a label extending the user name by a word character -- except for names containing '-' (those labels
        # are the subject of C06.boundary: the part before the dash may itself be a model name)
        lab = _ext(u, ["x", "_q", "7"], taken) if "-" not in u else _ext("Lab" + u.replace("-", "_"), ["", "y"], taken)
        lines += [["0.1", ["K+", "K-"], False, u, []], ["0.1", [lab, "K-"], True, u, []],
                  ["0.1", ["K+"], False, u, ["1.0", lab]], ["0.1", ["pi0", "pi0"], True, u, ["2", "-0.5"]]]
    rel = []
    for u in users:
        rel += [n for n in pub if n.startswith(u) or u.startswith(n)]
    names = list(dict.fromkeys(rel + (pub if all_published else _ends(pub))))
    for n in names:
        lines += [["0.1", ["K+", "K-"], False, n, []], ["0.1", ["pi0"], True, n, ["1.5", "w"]]]
    return [["Decay", "M", lines]]


def _family(base, pub):
    pre = [base[:k] for k in range(2, len(base))]
    ext = [base + c for c in WORDCH]
    return [n for n in pre + ext if n not in R.GRAMMAR_KEYWORDS and not n.endswith("-")]


def _family_trailing_dash(base):
    return [base[:k] for k in range(2, len(base)) if base[:k].endswith("-")]


def registered(tier, rng):
    pub = _published()
    if tier == "thorough":
        sample = list(pub)
    else:
        must = ["PHSP", "CB3PI-MPP", "CB3PI-P00", "HQET", "HQET2", "BSTD", "ISGW", "VSS", "VSS_BMIX", "SVS", "D_DALITZ", "BaryonPCR"]
        rest = [n for n in pub if n not in must]
        sample = [n for n in must if n in pub] + rest[::max(1, len(rest) // 12)][:12]
    for b in sample:
        for u in _family(b, pub):
            yield dict(stmts=_registered_file([u], [[u]], pub), calls=[[u]], expect_raises=False, function=FN_CB,
                       clause=("registered.duplicate_of_published_reported_verbatim" if u in pub else
                               "registered.prefix_or_extension_reported_verbatim"))
    # names containing '-'
    dashed = ["MY-MODEL", "A-B-C", "-LEAD", "X-PHSP", "PHSP-X", "VSS-BMIX", "CB3PI-M", "CB3PI-MPPX", "CB3PI-MPP-2", "a-1_b", "M-1"]
    for u in dashed:
        yield dict(stmts=_registered_file([u], [[u]], pub), calls=[[u]], expect_raises=False, function=FN_CB,
                   clause="registered.name_containing_dash_reported_verbatim")
    # duplicates: a published name registered again; the same user name twice; in one call and in two calls
    for b in sample[:12]:
        for calls in ([[b]], [[b, b]], [[b], [b]], [["NEWMODEL", b, "NEWMODEL"]]):
            users = list(dict.fromkeys(x for c in calls for x in c))
            yield dict(stmts=_registered_file(users, calls, pub), calls=calls, expect_raises=False, function=FN_LOAD,
                       clause="registered.duplicates_harmless")
    # two and three successive load calls (every name of every call must be usable, published list intact)
    for b in sample:
        fam = _family(b, pub)
        u1, u2, u3 = fam[0], fam[-1], b + "_NEW"
        for calls in ([[u1], [u2]], [[u2], [u1]], [[u1], [u2], [u3]], [[u1, u3], [u2]], [[], [u1]], [[u1], []]):
            users = [x for c in calls for x in c]
            yield dict(stmts=_registered_file(users, calls, pub, all_published=(b in sample[:6])), calls=calls,
                       expect_raises=False, function=FN_LOAD, clause="registered.successive_load_calls_accumulate")
    # grouped: a whole family registered together (two calls), all 135 published names in the same file
    for b in sample:
        fam = _family(b, pub)
        half = len(fam) // 2
        yield dict(stmts=_registered_file(fam, None, pub, all_published=True), calls=[fam[:half], fam[half:]],
                   expect_raises=False, function=FN_CB, clause="registered.family_together_with_all_published")


def unknown_words(tier):
    pub = _published()
    known = set(pub)
    for i, m in enumerate(pub):
        words = [m + "x", m + "_", m + "0", m[:-1], m.lower(), "x" + m, "My" + m, m + m]
        words = [w for w in dict.fromkeys(words) if w and w not in known and w not in R.GRAMMAR_KEYWORDS and len(w) >= 2]
        for j, w in enumerate(words):
            ctxs = [(False, []), (True, []), (False, ["1.0", "0.5"]), (True, ["w1"])]
            if tier == "quick":
                ctxs = [ctxs[(i + j) % 4], ctxs[(i + j + 1) % 4]]
            for photos, par in ctxs:
                stmts = [["Decay", "M", [["0.5", ["K+", "K-"], False, m, []], ["0.5", ["pi+", "pi-"], photos, w, par]]]]
                yield dict(stmts=stmts, calls=[], expect_raises=True, function=FN_ALIAS, clause="unknown.model_word_rejected")
        # control: the same word is accepted once it is a defined ModelAlias (so the rejection is about definedness)
        w = words[0]
        stmts = [["ModelAlias", w, m, ["1.0"]], ["Decay", "M", [["0.5", ["K+", "K-"], False, m, []], ["0.5", ["pi+", "pi-"], True, w, []]]]]
        yield dict(stmts=stmts, calls=[], expect_raises=False, function=FN_ALIAS, clause="unknown.control_defined_model_alias_accepted")
    # registered names do not make their near-misses acceptable
    for u in ["MYMODEL", "PH", "PHSPa"]:
        for w in [u + "x", u[:-1] + "_", u.lower()]:
            if w in known or len(w) < 2:
                continue
            stmts = [["Decay", "M", [["0.5", ["K+", "K-"], False, u, []], ["0.5", ["pi+", "pi-"], False, w, []]]]]
            yield dict(stmts=stmts, calls=[[u]], expect_raises=True, function=FN_ALIAS, clause="unknown.model_word_rejected")


def boundary_cases(tier):
    """The three situations in which the character after a model name is a LABEL character that is not a
    letter, digit or '_' (the .dec word continues, but a regex word boundary is there):
    (a) a registered name that ends in '-'  (names over letters, digits, '_' and '-' are in the quantifier);
    (b) a label extending a registered name NAME-X by a word character while NAME alone is a model name too;
    (c) an unknown model word NAME<suffix> with suffix in - + . ( ' * / ~ : neither a model name nor a ModelAlias."""
    pub = _published()
    known = set(pub)
    trailing = ["TRAIL-", "PHSP-", "A--", "MY_MODEL-"]
    for b in pub:
        trailing += _family_trailing_dash(b)
    for u in dict.fromkeys(trailing):
        yield dict(stmts=_registered_file([u], [[u]], pub), calls=[[u]], expect_raises=False, function=FN_CB,
                   clause="registered.name_ending_in_dash_reported_verbatim")
    for u, calls in (("PHSP-X", [["PHSP-X"]]), ("VSS-BMIX", [["VSS-BMIX"]]), ("CB3PI-M", [["CB3PI", "CB3PI-M"]]),
                     ("NEW-ONE", [["NEW"], ["NEW-ONE"]])):
        users = [x for c in calls for x in c]
        for lab in (u + "x", u + "_1", u + "0"):
            lines = [["0.1", ["K+", "K-"], False, u, []], ["0.1", [lab, "K-"], True, u, []], ["0.1", ["K+"], False, u, ["1.0", lab]]]
            yield dict(stmts=[["Decay", "M", lines]], calls=calls, expect_raises=False, function=FN_CB,
                       clause="registered.label_extending_dashed_name_does_not_disturb")
    sample = pub if tier == "thorough" else [n for n in ("PHSP", "VSS", "SVS", "HQET2", "CB3PI-MPP", "ISGW2", "D_DALITZ", "VLL") if n in known]
    for m in sample:
        for sfx in LABELCH_NONWORD:
            w = m + sfx
            if w in known:
                continue
            stmts = [["Decay", "M", [["0.5", ["K+", "K-"], False, m, []], ["0.5", ["pi+", "pi-"], False, w, []]]]]
            yield dict(stmts=stmts, calls=[], expect_raises=True, function=FN_CB,
                       clause="unknown.model_word_with_label_character_extension_rejected")


def run(tier="quick", seed=0):
    t0 = time.time()
    seed = seed if tier == "thorough" else 0      # VERIF_SEED only matters in the thorough tier (README)
    rng = random.Random(seed)
    n_pub = len(_published())
    fams = [
        ("C06.published.contexts", FN_CB,
         f"all {n_pub} published names; per name 8 lines: with/without PHOTOS x with/without parameters, as the expansion of a "
         "ModelAlias, next to mother / daughter / Alias / Define / ModelAlias / parameter labels that extend the name, incl. every "
         "one-character extension by [A-Za-z0-9_] (63) in daughter and in parameter position", list(published_contexts()), True),
        ("C06.published.prefix_pairs", FN_CB,
         "all ordered pairs (a, b) of published names with a a proper prefix of b; 8 lines in both orders, with/without "
         "PHOTOS and parameters, labels extending either name", list(prefix_pairs()), True),
        ("C06.registered", FN_CB,
         ("all published names" if tier == "thorough" else "24 published names (all prefix-related and '-' names plus a stride sample)")
         + ": every proper prefix of length >= 2 and every one-character extension by [A-Za-z0-9_] registered alone; names "
           "containing '-'; duplicates; 2-3 successive load calls; whole family registered together with all published "
           "names in the file; every file also uses the prefix-related and the first/middle/last published names",
         list(registered(tier, rng)), True),
        ("C06.unknown.rejected", FN_ALIAS,
         f"all {n_pub} published names x near-miss words (name+x, name+_, name+0, name minus last character, lower case, x+name, "
         "My+name, name doubled) x " + ("4 contexts" if tier == "thorough" else "2 of 4 contexts (rotating)") +
         " (PHOTOS, numeric / word parameters); control with the word defined as ModelAlias; near-misses of registered names",
         list(unknown_words(tier)), True),
        ("C06.boundary", FN_CB,
         "model name followed by a LABEL character outside [A-Za-z0-9_]: (a) registered names ending in '-' (4 hand-picked + every "
         "proper prefix of a published name that ends in '-'); (b) labels NAME-Xc extending a registered NAME-X while NAME is a "
         "model name (4 name pairs x 3 extensions, daughter and parameter position); (c) " +
         ("all published names" if tier == "thorough" else "8 published names") + " x suffixes " + " ".join(LABELCH_NONWORD) +
         " as unknown model words that must be rejected", list(boundary_cases(tier)), True),
    ]
    bounded = []
    for name, fn, bound, cases, exhaustive in fams:
        t1 = time.time()
        res = R.pmap(_work, R.chunks(cases, 6), chunksize=1)
        hashes, failures, errors, evals, nfail = set(), [], [], 0, 0
        for r in res:
            evals += r["evals"]
            hashes.update(r["hashes"])
            nfail += r["nfail"]
            failures += r["failures"]
            errors += r["errors"]
        seen, uniq = set(), []
        for f in failures:
            k = (f["clause"], R.digest(f["input"]["stmts"]))
            if k not in seen and sum(1 for g in uniq if g["clause"] == f["clause"]) < 3:
                seen.add(k)
                uniq.append(f)
        bounded.append(dict(
            name=name, function=fn, bound=bound, evaluations=evals, distinct_nontrivial=len(hashes),
            rule="one evaluation = one file parsed by the real parser (after the stated load_additional_decay_models calls) "
                 "and compared line by line with what it states, or required to raise; every file contains at least one "
                 "line whose model word is the name under test, so distinct_nontrivial = distinct (file, load calls) inputs",
            exhaustive=exhaustive,
            samples=[{"text": R.render(cases[0]["stmts"])[:500], "calls": cases[0]["calls"]},
                     {"text": R.render(cases[-1]["stmts"])[:300], "calls": [c[:4] for c in cases[-1]["calls"]]}] if cases else [],
            failures=uniq[:6], failing_evaluations=nfail, errors=sorted(set(errors))[:5], seconds=round(time.time() - t1, 1)))
    return {"bounded": bounded, "obligations": [], "seconds": round(time.time() - t0, 1)}
