"""C12 -- flattening multiplies branching fractions and keeps exactly the leaves (bounded stand-in).

The real ``DecayChain.flatten`` / ``visible_bf`` are run on every chain shape of the families below and
compared with the recursive oracles ``specs.chainshapes.leaves`` / ``bf`` (written from the property).
"""
from __future__ import annotations

import copy
import math
import random
import time
from fractions import Fraction
from itertools import permutations

from specs import chainshapes as cs

FLATTEN = "decaylanguage.decay.decay.DecayChain.flatten"
VISIBLE = "decaylanguage.decay.decay.DecayChain.visible_bf"

META = {
    "level": "other",
    "explanation": (
        "Bounded stand-in for the fix-point result of DecayChain.flatten: the real function is run on every acyclic chain "
        "shape (one per class up to renaming) of the listed families -- quick: <= 4 decaying particles with multiplicities "
        "<= 3 plus slimmer families with 5 and 6 decaying particles (4 and 5 sub-decays); thorough: larger families up to 6 "
        "decaying particles and a seeded random supplement with up to 7 -- for every subset of the decaying particles (without "
        "the mother) as the stable set, every other choice of the mother inside the same mapping (unreachable entries), every "
        "permutation of the mapping for <= 4 entries (rotations/reversal beyond), with exact Fractions 1/prime as branching "
        "fractions (a missing or doubled factor changes the value) and again with floats (tolerance: one ulp per decay in the "
        "tree). Checked: final state == multiset of leaves, bf == product over all decay occurrences, one decay left, top-level "
        "metadata kept (all keys), original chain unchanged (deep snapshot), visible_bf == flatten().bf. Not covered: termination "
        "for cyclic mappings (the property is about acyclic chains), stable sets given as a one-shot iterator."),
    "assumptions": ["particle names are arbitrary distinct strings (the pools of specs.chainshapes.POOLS)",
                    "stable sets are given as tuple / list / set / frozenset (re-iterable containers)"],
    "trusted_base": ["specs/chainshapes.py (shape enumeration, leaves/bf oracles)", "fractions.Fraction arithmetic"],
    "not_applicable_clauses": [],
}

# (n decaying, n stable names, max distinct daughters, max multiplicity, max daughters per decay)
FAMILIES = {
    "quick": [(1, 2, 3, 3, 9), (2, 2, 3, 3, 9), (3, 2, 3, 3, 4), (4, 1, 3, 3, 3), (4, 2, 2, 2, 2),
              (5, 1, 3, 1, 3), (5, 1, 2, 2, 2), (6, 1, 2, 1, 2)],
    "thorough": [(1, 2, 3, 3, 9), (2, 2, 3, 3, 9), (3, 2, 3, 3, 9), (4, 1, 3, 3, 4), (4, 2, 3, 3, 3),
                 (5, 1, 3, 2, 3), (5, 2, 2, 2, 2), (6, 1, 2, 1, 2), (6, 1, 2, 2, 2)],
}
N_RANDOM = {"quick": 0, "thorough": 10000}

TOP_META = {"model": "PHSP", "model_params": [1.5, "x"], "study": {"k": [1, None, "a"]}, "year": 2019}
SUB_METAS = [{}, {"model": "VSS"}, {"model": "HELAMP", "model_params": [1.0, 0.0], "note": "sub"}]
TIME_LIMIT = 3.0     # seconds for one flatten call (normally < 1 ms); beyond: reported as not returning


# ----------------------------------------------------------------------------------------------------
# one comparison (used by the enumeration and by replay)
# ----------------------------------------------------------------------------------------------------


def build(chain):
    from decaylanguage import DecayChain, DecayMode
    decays = {}
    for name, b, fs, meta in chain["decays"]:
        decays[name] = DecayMode(b, {d: m for d, m in fs}, **meta)   # nested values are shared with the template: a mutation shows in the snapshots
    return DecayChain(chain["mother"], decays)


def snapshot(dc):
    """Deep snapshot as text: mother, entries in order, bf, every counter entry (also zero ones), metadata."""
    return repr((dc.mother, [(k, v.bf, sorted(dict(v.daughters).items()), v.metadata) for k, v in dc.decays.items()]))


def _ulps(a, b):
    if a == b:
        return 0.0
    return abs(a - b) / math.ulp(max(abs(a), abs(b)))


def check_case(chain, S, s_type="tuple", use_default=False, cache=None):
    """-> list of (clause, function, what).  ``chain`` as in specs.chainshapes (bf: Fraction or float).
    ``cache`` (a dict) may carry the oracle values of the same (chain content, S) between orders."""
    from decaylanguage import DecayChain
    out = []
    dc = build(chain)
    before = snapshot(dc)
    mother = chain["mother"]
    top_meta = dict(dc.decays[mother].metadata)
    top_meta_text = repr(top_meta)
    cache = {} if cache is None else cache
    st = {"tuple": tuple, "list": list, "set": set, "frozenset": frozenset}[s_type](S)
    try:
        with cs.time_limit(TIME_LIMIT):
            res = dc.flatten() if use_default else dc.flatten(stable_particles=st)
    except Exception as ex:  # the property promises a result for every acyclic chain
        return [("flatten.returns", FLATTEN, "raised %r" % (ex,))]
    after = snapshot(dc)
    if before != after:
        out.append(("flatten.original_unchanged", FLATTEN, "chain before %r, after %r" % (before, after)))
    if not isinstance(res, DecayChain) or res.mother != mother:
        out.append(("flatten.mother", FLATTEN, "mother %r expected, got %r" % (mother, getattr(res, "mother", res))))
        return out
    if list(res.decays) != [mother]:
        out.append(("flatten.no_subdecays", FLATTEN, "decays left: %r" % (list(res.decays),)))
        return out
    mode = res.decays[mother]
    if "fs" not in cache:
        cache["fs"] = dict(cs.leaves(chain, S))
    exp_fs = cache["fs"]
    got_fs = {k: v for k, v in dict(mode.daughters).items() if v != 0}
    if got_fs != exp_fs:
        out.append(("flatten.final_state", FLATTEN, "leaves expected %r, got %r" % (sorted(exp_fs.items()), sorted(got_fs.items()))))
    exact = all(isinstance(b, (Fraction, int)) for _n, b, _f, _m in chain["decays"])
    if exact:
        if "bf" not in cache:
            cache["bf"] = cs.bf(chain, S)
        exp_bf = cache["bf"]
        if mode.bf != exp_bf:
            out.append(("flatten.bf_product", FLATTEN, "bf expected %s, got %s" % (exp_bf, mode.bf)))
    else:
        ratchain = {"mother": mother, "decays": [[n, Fraction(b), fs, m] for n, b, fs, m in chain["decays"]]}
        exp_bf = float(cs.bf(ratchain, S))
        tol = cs.n_decay_occurrences(chain, S) + 1
        if not isinstance(mode.bf, float) or _ulps(mode.bf, exp_bf) > tol:
            out.append(("flatten.bf_product", FLATTEN, "bf expected %r (+- %d ulp), got %r" % (exp_bf, tol, mode.bf)))
    if mode.metadata != top_meta or repr(mode.metadata) != top_meta_text:
        out.append(("flatten.keeps_top_metadata", FLATTEN, "metadata expected %r, got %r" % (top_meta, mode.metadata)))
    if not S:
        try:
            with cs.time_limit(TIME_LIMIT):
                vis = dc.visible_bf
        except Exception as ex:
            vis = ex
        if not (vis == mode.bf):
            out.append(("visible_bf.equals_flatten_bf", VISIBLE, "visible_bf %r, flatten().bf %r" % (vis, mode.bf)))
    return out


def replay(inp):
    chain = cs.chain_from_json(inp["chain"])
    fails = check_case(chain, inp["S"], inp.get("s_type", "tuple"), inp.get("use_default", False))
    fails = [f for f in fails if inp.get("clause") in (None, f[0])] or fails
    if fails:
        return False, "; ".join("%s: %s" % (c, w) for c, _f, w in fails)
    return True, "flatten agrees with the leaves/product oracle for this chain and stable set"


# ----------------------------------------------------------------------------------------------------
# enumeration
# ----------------------------------------------------------------------------------------------------


def orders_of(n, rng=None):
    if n <= 4:
        return list(permutations(range(n)))
    base = list(range(n))
    out = [tuple(base), tuple(reversed(base))]
    out += [tuple(base[k:] + base[:k]) for k in range(1, n)]
    out.append(tuple(base[1::2] + base[0::2]))
    return list(dict.fromkeys(out))


def subsets(items):
    out = [[]]
    for x in items:
        out += [s + [x] for s in out]
    return out


def cases_of_shape(shape, idx):
    """All comparisons made for one shape: (chain, S, container type, call without argument, oracle cache,
    first comparison of the distinct case (shape, mother, S))."""
    n = len(shape)
    pool = cs.POOLS[idx % len(cs.POOLS)]
    metas = [SUB_METAS[i % len(SUB_METAS)] for i in range(n)]
    fbfs = [float(Fraction(1, p)) * (1.0 + 2.0 ** -30) for p in cs.PRIMES[:n]]
    all_orders = orders_of(n)
    for mother in [n - 1] + cs.mothers_with_unreachable(shape):
        main = mother == n - 1
        ms = list(metas)
        ms[mother] = TOP_META
        deca = [i for i in range(n) if i != mother]
        subs = subsets(deca)
        if not main:                       # unreachable entries: no stable set / everything else stable
            subs = [subs[0], subs[-1]] if len(subs) > 1 else subs
        second = (idx % (len(subs) - 1)) + 1 if len(subs) > 1 else 0
        for si, S in enumerate(subs):
            Snames = [pool["decaying"][i] for i in S]
            if si == len(subs) - 1:
                Snames = Snames + [pool["stable"][0], "not-in-chain"]      # names without a decay in S
            st = ["tuple", "list", "set", "frozenset"][(idx + si) % 4]
            # main mother: every order of the mapping for S = {} and for one further subset, rank order otherwise
            if main:
                orders = all_orders if si in (0, second) else all_orders[:1]
            else:
                orders = [all_orders[0], tuple(reversed(all_orders[0]))]
            cache = {}
            for oi, order in enumerate(orders):
                chain = cs.instantiate(shape, pool, mother=mother, metas=ms, order=order)
                yield chain, Snames, st, (not Snames and oi % 2 == 1), cache, oi == 0
            if main or si == 0:
                chain = cs.instantiate(shape, pool, mother=mother, metas=ms, bfs=fbfs, order=all_orders[-1])
                yield chain, Snames, st, False, {"fs": cache.get("fs")} if "fs" in cache else {}, False


def _fail_record(chain, S, st, dflt, clause, func, what):
    return {"function": func, "clause": clause, "what": what,
            "input": {"chain": cs.chain_to_json(chain), "S": list(S), "s_type": st, "use_default": dflt, "clause": clause},
            "replay": {"module": "checks.C12", "function": "replay"},
            "_size": cs.chain_size(chain) + (len(S),)}


def _worker(task):
    kind = task[0]
    evals = distinct = nontriv = nshapes = 0
    fails = []
    sample = None
    big = 0
    aborted = False
    if kind == "family":
        _k, key, sl = task
        shapes = cs.family_shapes(cs.Family(*key), sl)
    else:
        _k, seed, count = task
        shapes = random_shapes(seed, count)
    for idx, shape in enumerate(shapes):
        nshapes += 1
        if len(shape) > 4:
            big += 1
        for chain, S, st, dflt, cache, first in cases_of_shape(shape, idx + (task[2] if kind == "family" else 0)):
            evals += 1
            if first:
                distinct += 1
                if cs.n_decay_occurrences(chain, S) >= 2:
                    nontriv += 1
            res = check_case(chain, S, st, dflt, cache)
            if res and len(fails) < 40:
                for clause, func, what in res:
                    fails.append(_fail_record(chain, S, st, dflt, clause, func, what))
                if any("CallTimeout" in what for _c, _f, what in res):
                    aborted = True
                    break
            if sample is None and first and len(S) >= 1 and len(shape) >= 3 and cs.n_decay_occurrences(chain, S) >= 2:
                sample = {"chain": cs.chain_to_json(chain), "S": list(S), "s_type": st,
                          "leaves": sorted(cs.leaves(chain, S).items()), "bf": str(cs.bf(chain, S))}
        if aborted:       # do not spend the time limit again and again in this slice
            break
    return dict(task=list(task[:2]) if kind == "family" else ["random"], evals=evals, distinct=distinct, nontriv=nontriv,
                shapes=nshapes, shapes_gt3_subdecays=big, fails=fails, sample=sample, aborted=aborted)


def random_shapes(seed, count):
    """Seeded supplement beyond the exhaustive families: 5..7 decaying particles, 3 stable names,
    <= 3 distinct daughters, multiplicities <= 3 (unreachable entries allowed)."""
    rng = random.Random(seed)
    for _ in range(count):
        n = rng.randint(5, 7)
        shape = []
        for i in range(n):
            syms = list(range(i)) + [-1, -2, -3]
            k = rng.randint(1, 3)
            pick = sorted(rng.sample(syms, min(k, len(syms))))
            if i and rng.random() < 0.7 and (i - 1) not in pick:
                pick = sorted(set(pick[:2] + [i - 1]))
            shape.append(tuple((s, rng.choice([1, 1, 2, 3]) if s < 0 or i < 4 else rng.choice([1, 1, 2])) for s in pick))
        yield tuple(shape)


def run(tier: str, seed: int) -> dict:
    t0 = time.time()
    fams = FAMILIES[tier]
    tasks = [("family", k, s) for k, s in cs.family_tasks(fams)]
    if seed:
        random.Random(seed).shuffle(tasks)
    nrand = N_RANDOM[tier]
    chunk = 500
    tasks += [("random", (seed or 0) * 1000003 + i, chunk) for i in range(nrand // chunk)]
    tot = dict(evals=0, distinct=0, nontriv=0, shapes=0, big=0)
    per_family = {}
    fails = []
    samples = []
    errors = []
    try:
        for r in cs.run_parallel(_worker, tasks):
            tot["evals"] += r["evals"]
            tot["distinct"] += r["distinct"]
            tot["nontriv"] += r["nontriv"]
            tot["shapes"] += r["shapes"]
            tot["big"] += r["shapes_gt3_subdecays"]
            k = str(tuple(r["task"][1])) if r["task"][0] == "family" else "random"
            per_family[k] = per_family.get(k, 0) + r["shapes"]
            fails += r["fails"]
            tot["aborted"] = tot.get("aborted", 0) + (1 if r.get("aborted") else 0)
            if r["sample"] and len(samples) < 4 and (not samples or len(r["sample"]["chain"]["decays"]) != len(samples[-1]["chain"]["decays"])):
                samples.append(r["sample"])
    except Exception as ex:  # pragma: no cover
        errors.append("enumeration crashed: %r" % (ex,))
    fails.sort(key=lambda f: (f["_size"], f["clause"]))
    seen = set()
    keep = []
    for f in fails:
        if f["clause"] in seen:
            continue
        seen.add(f["clause"])
        f = dict(f)
        f.pop("_size")
        keep.append(f)
    bound = ("every acyclic chain shape, one per renaming class, of the families (n decaying particles, stable names, "
             "max distinct daughters per decay, max multiplicity, max daughters per decay) = %s%s; every subset of the decaying "
             "particles without the mother as stable set (the full subset also with names that have no decay); every other "
             "particle of the mapping as mother (unreachable entries); every permutation of the mapping for <= 4 entries "
             "(n+2 orders beyond) for two of the subsets; Fractions 1/prime and floats"
             % (fams, "; plus %d seeded random shapes with 5..7 decaying particles, 3 stable names" % nrand if nrand else ""))
    entry = {
        "name": "C12.flatten.fixpoint", "function": FLATTEN, "bound": bound,
        "evaluations": tot["evals"], "distinct_nontrivial": tot["nontriv"],
        "rule": ("evaluations = calls of flatten compared with the oracle (all clauses per call); distinct = distinct (shape class, "
                 "mother, stable set) triples = %d, non-trivial = those whose tree (after making the stable set leaves) still "
                 "contains at least one sub-decay to substitute; orders of the mapping, container types and Fraction/float "
                 "variants of a triple are not counted again" % tot["distinct"]),
        "exhaustive": not tot.get("aborted"), "slices_aborted_after_timeout": tot.get("aborted", 0),
        "shapes": tot["shapes"], "shapes_with_more_than_3_subdecays": tot["big"], "shapes_per_family": per_family,
        "samples": samples, "failures": keep, "errors": errors, "seconds": round(time.time() - t0, 2),
    }
    if tot["big"] == 0:
        errors.append("no shape with more than 3 sub-decays was enumerated")
    return {"bounded": [entry]}
