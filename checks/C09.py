"""C09 - decay chains are the faithful recursive unfolding of the decay tables (bounded stand-in).

Real code executed: DecFileParser.from_string(text).parse(), DecFileParser.build_decay_chains (from /repo).
Oracle: specs.chainspec.chain / sub, evaluated on the table map T that the parser itself reports through its
per-table queries (list_decay_mother_names, _find_decay_modes, _decay_mode_details(display_photos_keyword=False)).
"""
from __future__ import annotations

import itertools
import json
import time

from specs import chainspec as cs

FUNC = "decaylanguage.dec.dec.DecFileParser.build_decay_chains"
LHCB = "/repo/src/decaylanguage/data/DECAY_LHCB.DEC"

META = {
    "level": "other",
    "explanation": (
        "Bounded stand-in for C09: build_decay_chains(M, stable_particles=S) is executed on generated acyclic decay-table "
        "sets and compared, as a whole value, with spec chain(T,S,M) (one entry per decay line in order with bf, model "
        "without PHOTOS prefix, model_params; each daughter bare if it has no table or is in S, otherwise the chain of the "
        "daughter with the same S); a particle without table must raise DecayNotFound; the stored tables must be unchanged "
        "afterwards. (1) exhaustive over the union of small scopes (K ranked particles, <=L lines per table, <=W daughters "
        "per line, every mother, every subset S of the decaying particles with and without the table-less leaf, S given in "
        "turn as list/tuple/set); (2) a deterministic family of larger sets (3-5 daughters per line, up to 6 lines, depth "
        "4, repeated daughters, empty Decay blocks, aliases; all subsets S when <= 5 particles have tables, each in all "
        "three container types); thorough tier adds the scopes (3,2,2), (5,1,2), (5,2,1) (top mother), a VERIF_SEED random supplement and "
        "every mother of the shipped DECAY_LHCB.DEC whose unfolding has < 100000 nodes. Not a proof: shapes beyond the "
        "bounds are not covered."),
    "assumptions": [
        "the text generated for a table set is parsed into exactly that table set (cross-checked on every generated set; "
        "a mismatch is reported as a checker error, the parsing itself is the subject of C01-C08)",
        "the shipped DECAY_LHCB.DEC is acyclic (checked by the size computation)",
    ],
    "trusted_base": ["specs/chainspec.py (oracle chain/sub, generator)", "CPython dict/list equality"],
    "not_applicable_clauses": [],
}

QUICK_SCOPES = [(1, 2, 4), (2, 4, 1), (2, 1, 4), (2, 3, 2), (2, 2, 3), (3, 1, 3), (3, 3, 1), (4, 1, 2), (4, 2, 1)]
# thorough only, evaluated for the top mother (their lower mothers are top mothers of the scopes above, up to renaming)
TOP_ONLY_SCOPES = [(3, 2, 2), (5, 1, 2), (5, 2, 1)]
BATCH = 24
CONTAINERS = ("list", "tuple", "set")
MAX_FAIL = 8


def _container(kind, names):
    return {"list": list, "tuple": tuple, "set": set}[kind](names)


def evaluate(parser, T, mother, stable, kind):
    """one comparison of the real function with the oracle -> (ok, clause, what)"""
    from decaylanguage.dec.dec import DecayNotFound

    try:
        want = cs.chain(T, set(stable), mother)
        want_exc = False
    except cs.NoTable:
        want, want_exc = None, True
    try:
        got = parser.build_decay_chains(mother, stable_particles=_container(kind, stable))
        got_exc = None
    except DecayNotFound:
        got, got_exc = None, "DecayNotFound"
    except Exception as ex:  # any other exception is a failure of the clause
        got, got_exc = None, repr(ex)
    if want_exc:
        if got_exc == "DecayNotFound":
            return True, "not_found", ""
        return False, "not_found", f"particle without a table: expected DecayNotFound, got {got_exc or _short(got)}"
    if got_exc is not None:
        return False, "chain", f"expected chain(T,S,M), raised {got_exc}"
    if got == want and type(got) is dict:
        return True, "chain", ""
    return False, "chain", f"expected {_short(want)} got {_short(got)}"


def _short(v, n=600):
    s = json.dumps(v, default=str)
    return s if len(s) <= n else s[:n] + "...(%d chars)" % len(s)


def _subsets(names):
    for r in range(len(names) + 1):
        for c in itertools.combinations(names, r):
            yield list(c)


def _stable_sets(decaying, leaves, rng=None, full_limit=5):
    """the sets S tried for one table set"""
    out = []
    if len(decaying) <= full_limit:
        out.extend(_subsets(decaying))
    else:
        out.append([])
        out.extend([d] for d in decaying)
        out.append(list(decaying))
        for _ in range(24):
            out.append([d for d in decaying if rng.random() < 0.5])
    if leaves:
        out.append([leaves[0]])
        out.append(list(decaying) + list(leaves))
    return out


def _gen_task(task):
    """task = (mode, [(idx, blocks, aliases, top_only), ...]) ; mode 'scope' rotates the container, 'family' uses all three"""
    from decaylanguage import DecFileParser

    mode, items = task
    res = dict(evals=0, keys=set(), count=0, failures=[], errors=[], samples=[], notfound=0)
    tss = []
    for k, (idx, blocks, aliases, _top_only) in enumerate(items):
        tss.append(cs.with_prefix(cs.decorate(blocks, aliases, salt=idx), f"s{k}_"))
    text = cs.render(tss)
    try:
        parser = DecFileParser.from_string(text)
        parser.parse()
        T = cs.read_tables(parser)
    except Exception as ex:
        res["errors"].append(f"generated text not parsed: {ex!r}: {text[:300]}")
        return res
    snapshot = cs.freeze(T)
    for k, (idx, blocks, aliases, top_only) in enumerate(items):
        pre = f"s{k}_"
        ts = tss[k]
        Tg = cs.tables_of_model(ts)
        if {m: T.get(m) for m in Tg} != Tg:
            res["errors"].append(f"assumed external contract violated: parser tables differ from the generated set #{idx}")
            continue
        decaying = [m for m, _ in ts["blocks"]]
        used = {x for _m, lines in ts["blocks"] for ln in lines for x in ln["fs"]}
        leaves = sorted(used - set(decaying))
        import random
        rng = random.Random(idx)
        ssets = _stable_sets(decaying, leaves, rng)
        # the generator's own (unprefixed) view, used only to count distinct cases
        Tu = cs.tables_of_model(cs.decorate(blocks, aliases, salt=0))
        for mi, m in enumerate(decaying[:1] if top_only else decaying):
            mu = m[len(pre):]
            reach_u = cs.reachable(Tu, mu)
            for si, S in enumerate(ssets):
                kinds = CONTAINERS if mode == "family" else (CONTAINERS[(idx + mi + si) % 3],)
                for kind in kinds:
                    ok, clause, what = evaluate(parser, T, m, S, kind)
                    res["evals"] += 1
                    if not ok:
                        res["failures"].append(dict(idx=idx, mother=mu, stable=[s[len(pre):] for s in S], kind=kind,
                                                    clause=clause, what=what))
                if not any(x in Tu for ln in Tu[mu] for x in ln["fs"]):
                    continue                # trivial: no daughter of M has a table, nothing is unfolded or cut
                if mode == "family":
                    Su = sorted(s[len(pre):] for s in S)
                    res["keys"].add(cs.digest(({x: [ln["fs"] for ln in Tu[x]] for x in sorted(reach_u)}, mu,
                                               [s for s in Su if s in reach_u])))
                elif mi == 0 and not any(s in leaves for s in S):
                    # small scopes: the sets are pairwise different and every particle is reachable from the top one (listed
                    # first), so (set, top mother, S subset of the K particles) triples are pairwise distinct by construction;
                    # lower mothers (= top mothers of sets of a smaller K, up to renaming) and the leaf variants of S are
                    # evaluated but conservatively not counted
                    res["count"] += 1
        # not-found clause: a leaf without table and a name that does not occur at all
        for name in (leaves[:1] + [pre + "nowhere"]):
            ok, clause, what = evaluate(parser, T, name, [], "tuple")
            res["evals"] += 1
            res["notfound"] += 1
            if not ok:
                res["failures"].append(dict(idx=idx, mother=name[len(pre):], stable=[], kind="tuple", clause=clause, what=what))
        if len(res["samples"]) < 1 and len(decaying) >= 2:
            un = cs.decorate(blocks, aliases, salt=idx)
            res["samples"].append(dict(dec_text=cs.render(un), mother=un["blocks"][0][0],
                                       stable=[un["blocks"][-1][0]], stable_type="list"))
    if cs.freeze(cs.read_tables(parser)) != snapshot:
        res["failures"].append(dict(idx=items[0][0], mother=None, stable=[], kind="tuple", clause="frame",
                                    what="the stored tables changed while chains were built"))
    return res


# -------------------------------------------------------------------------------------------------- replay


def _parse_input(inp):
    from decaylanguage import DecFileParser

    if "file" in inp:
        parser = DecFileParser(inp["file"])
    else:
        parser = DecFileParser.from_string(inp["dec_text"])
    parser.parse()
    return parser


def replay(inp):
    """re-run one comparison: input = {dec_text | file, mother, stable, stable_type}"""
    parser = _parse_input(inp)
    T = cs.read_tables(parser)
    before = cs.freeze(T)
    ok, clause, what = evaluate(parser, T, inp["mother"], list(inp.get("stable", [])), inp.get("stable_type", "list"))
    if ok and cs.freeze(cs.read_tables(parser)) != before:
        ok, clause, what = False, "frame", "the stored tables changed"
    return ok, (f"{clause}: holds" if ok else f"{clause}: {what}")


def _plain(ts, still_fails):
    """the shrunk set with the default decoration (bf / model by position), if it fails as well: equal shapes then give equal inputs"""
    cand = cs.decorate([[m, [ln["fs"] for ln in lines]] for m, lines in ts["blocks"]], ts["aliases"], salt=0)
    try:
        return cand if still_fails(cand) else ts
    except Exception:
        return ts


def _minimise(blocks, aliases, idx, f):
    """single-set, unprefixed, shrunk input for a failure found in a batch"""
    ts = cs.decorate(blocks, aliases, salt=idx)
    mk = lambda t: dict(dec_text=cs.render(t), mother=f["mother"], stable=f["stable"], stable_type=f["kind"])  # noqa: E731
    inp = mk(ts)
    try:
        ok, _ = replay(inp)
    except Exception:
        ok = True
    if ok:
        return None
    keep = () if f["clause"] == "not_found" else (f["mother"],)
    small = cs.shrink_ts(ts, lambda t: not replay(mk(t))[0], keep_mothers=keep, budget=150)
    small = _plain(small, lambda t: not replay(mk(t))[0])
    out = mk(small)
    names = {m for m, _ in small["blocks"]} | {x for _m, ls in small["blocks"] for ln in ls for x in ln["fs"]}
    out["stable"] = [s for s in out["stable"] if s in names]
    if replay(out)[0]:
        out = mk(small)
    return out


def _collect(results, lookup, name, bound, rule, exhaustive, t0):
    evals = sum(r["evals"] for r in results)
    keys = set()
    errors, fails, samples = [], [], []
    for r in results:
        keys |= r["keys"]
        errors.extend(r["errors"])
        fails.extend(r["failures"])
        samples.extend(r["samples"])
    failures = []
    fails.sort(key=lambda f: (len(json.dumps(lookup(f["idx"]))), len(f["stable"])))
    for f in fails[:MAX_FAIL]:
        blocks, aliases = lookup(f["idx"])
        inp = _minimise(blocks, aliases, f["idx"], f) if (len(failures) < 3 and f["mother"] is not None) else None
        if inp is None:
            ts = cs.decorate(blocks, aliases, salt=f["idx"])
            inp = dict(dec_text=cs.render(ts), mother=f["mother"] or ts["blocks"][0][0], stable=f["stable"],
                       stable_type=f["kind"])
        ok, msg = replay(inp)
        if any(cs.freeze(x["input"]) == cs.freeze(inp) for x in failures):
            continue
        failures.append(dict(function=FUNC, clause=f["clause"], what=(msg if not ok else f["what"] + " (seen in a batch of sets)"),
                             input=inp, replay={"module": "checks.C09", "function": "replay"}))
    if failures and len(fails) > len(failures):
        failures[-1]["what"] += f"  [{len(fails)} failing comparisons in total, {len(failures)} distinct inputs recorded]"
    return dict(name=name, function=FUNC, bound=bound, evaluations=evals,
                distinct_nontrivial=len(keys) + sum(r.get("count", 0) for r in results), rule=rule,
                exhaustive=exhaustive, samples=samples[:3], failures=failures, errors=sorted(set(errors))[:5],
                seconds=round(time.time() - t0, 1))


RULE = ("one evaluation = one call build_decay_chains(M, stable_particles=S) on the real parser compared with chain(T,S,M) "
        "(or with the not-found clause). distinct_nontrivial counts (table set, M, S) triples in which at least one daughter of M "
        "has a table (so something is unfolded or cut). Small scopes: only triples with M = the top particle of its set and S a "
        "subset of the K particles are counted - pairwise distinct by construction, since the enumerated sets are pairwise "
        "different and all particles are reachable from the top one; the comparisons for lower mothers (top mothers of a "
        "smaller K up to renaming), for the leaf variants of S and the not-found probes are evaluated but not counted. Larger "
        "family: distinct (sub-table-set reachable from M, M, S restricted to it) triples by fingerprint")

# -------------------------------------------------------------------------------------------------- shipped file

_LH = {}


def _lhcb_task(mothers):
    parser, T = _LH["parser"], _LH["T"]
    res = dict(evals=0, keys=set(), failures=[], errors=[], samples=[])
    import random
    for m in mothers:
        reach = sorted(cs.reachable(T, m) - {m})
        rng = random.Random(m)
        daughters = sorted({x for ln in T[m] for x in ln["fs"] if x in T})
        ssets = [[], daughters, [x for x in reach if rng.random() < 0.5], [x for x in reach if rng.random() < 0.2] + ["pi+"],
                 [x for x in ("pi0", "K_S0", "eta", "omega", "phi", "rho0", "eta'") if x in T]]
        seen = set()
        for si, S in enumerate(ssets):
            if si and tuple(S) in seen:
                continue
            seen.add(tuple(S))
            kind = CONTAINERS[si % 3]
            ok, clause, what = evaluate(parser, T, m, S, kind)
            res["evals"] += 1
            if daughters:
                res["keys"].add(cs.digest((m, sorted(x for x in S if x in reach))))
            if not ok:
                res["failures"].append(dict(mother=m, stable=S, kind=kind, clause=clause, what=what,
                                            size=cs.chain_size(T, (), m)))
    return res


def _run_lhcb(size_bound, t0):
    from decaylanguage import DecFileParser

    parser = DecFileParser(LHCB)
    parser.parse()
    T = cs.read_tables(parser)
    snapshot = cs.freeze(T)
    memo = {}
    sizes = {m: cs.chain_size(T, (), m, memo) for m in T}
    mothers = sorted((m for m in T if sizes[m] < size_bound), key=lambda m: -sizes[m])
    _LH["parser"], _LH["T"] = parser, T
    # spread the heavy mothers over the workers
    n = cs.nprocs() * 4
    tasks = [mothers[i::n] for i in range(n) if mothers[i::n]]
    results = cs.pmap(_lhcb_task, tasks)
    evals = sum(r["evals"] for r in results)
    keys = set()
    fails = []
    for r in results:
        keys |= r["keys"]
        fails.extend(r["failures"])
    # not-found clause on the shipped file
    nf = 0
    for name in ("pi+", "gamma", "no_such_particle"):
        if name in T:
            continue
        ok, clause, what = evaluate(parser, T, name, [], "tuple")
        evals += 1
        nf += 1
        if not ok:
            fails.append(dict(mother=name, stable=[], kind="tuple", clause=clause, what=what, size=0))
    if cs.freeze(cs.read_tables(parser)) != snapshot:
        fails.append(dict(mother=mothers[-1], stable=[], kind="tuple", clause="frame", what="the stored tables changed", size=0))
    fails.sort(key=lambda f: f["size"])
    failures = [dict(function=FUNC, clause=f["clause"], what=f["what"],
                     input=dict(file=LHCB, mother=f["mother"], stable=f["stable"], stable_type=f["kind"]),
                     replay={"module": "checks.C09", "function": "replay"}) for f in fails[:MAX_FAIL]]
    _LH.clear()
    return dict(name="C09.chain.shipped_file", function=FUNC,
                bound=(f"DECAY_LHCB.DEC: every mother whose unfolding chain(T,{{}},M) has < {size_bound} nodes "
                       f"({len(mothers)} of {len(T)} mothers, largest {max(sizes[m] for m in mothers)} nodes), each with S = {{}}, "
                       "S = M's decaying daughters, two pseudo-random subsets of the reachable decaying particles and a fixed "
                       "list of light resonances; 3 not-found probes"),
                evaluations=evals, distinct_nontrivial=len(keys),
                rule="one evaluation = one call compared with chain(T,S,M); distinct_nontrivial = distinct (M, S restricted to "
                     "the particles reachable from M) pairs for mothers with at least one decaying daughter",
                exhaustive=False, samples=[dict(file=LHCB, mother=mothers[0], stable=[], stable_type="list"),
                                           dict(file=LHCB, mother=mothers[len(mothers) // 2], stable=[], stable_type="list")],
                failures=failures, errors=[], seconds=round(time.time() - t0, 1))


# -------------------------------------------------------------------------------------------------- run


def _family_items(tier, seed):
    items = [(i, b, a, False) for i, (b, a) in enumerate(cs.wide_family())]
    rng = cs.rng_for(0, "C09.family")          # fixed: identical in every run
    n_fixed = 200 if tier == "quick" else 1000
    for _ in range(n_fixed):
        b, a = cs.random_blocks(rng, max_count=10 ** 9, max_size=4000)
        items.append((len(items), b, a, False))
    n_seeded = 0
    if tier == "thorough":
        rng = cs.rng_for(seed, "C09.supplement")
        for _ in range(1500):
            b, a = cs.random_blocks(rng, max_count=10 ** 9, max_size=4000)
            items.append((len(items), b, a, False))
            n_seeded += 1
    return items, n_fixed, n_seeded


def run(tier="quick", seed=0):
    out = []
    # (1) exhaustive small scopes
    t0 = time.time()
    scopes = QUICK_SCOPES + (TOP_ONLY_SCOPES if tier == "thorough" else [])
    n_all = sum(1 for _ in cs.enum_scopes(QUICK_SCOPES))
    items = [(i, b, [], i >= n_all) for i, b in enumerate(cs.enum_scopes(scopes))]      # enum_scopes keeps the scope order
    if tier == "thorough" and seed:
        cs.rng_for(seed, "C09.order").shuffle(items)
    by_idx = {i: (b, a) for i, b, a, _t in items}
    results = cs.pmap(_gen_task, [("scope", c) for c in cs.chunks(items, BATCH)])
    out.append(_collect(
        results, lambda i: by_idx[i], "C09.chain.small_scopes",
        f"all {len(items)} table sets of the scopes {cs.scope_text(scopes)} (K ranked particles P0<..<P(K-1) each with a Decay "
        "block of 0..L lines, a line = sequence of 1..W daughters drawn with repetition from the lower-ranked particles and the "
        "table-less leaf x, every particle reachable from the top one); every particle as mother" +
        (f" (top particle only for the sets first met in {cs.scope_text(TOP_ONLY_SCOPES)})" if tier == "thorough" else "") +
        "; every subset S of the K "
        "particles (including M itself and M's daughters), plus {x} and everything+{x}; S passed as list / tuple / set in "
        "rotation; 2 not-found probes per set; stored tables compared before/after",
        RULE, True, t0))
    # (2) larger sampled family
    t0 = time.time()
    items, n_fixed, n_seeded = _family_items(tier, seed)
    by_idx2 = {i: (b, a) for i, b, a, _t in items}
    results = cs.pmap(_gen_task, [("family", c) for c in cs.chunks(items, 8)])
    out.append(_collect(
        results, lambda i: by_idx2[i], "C09.chain.larger_family",
        f"{len(cs.wide_family())} hand-shaped sets (depth-4 ladder, 3-5 daughters, 4-6 lines, repeated daughters, empty blocks, "
        f"aliases) + {n_fixed} fixed-seed random sets" + (f" + {n_seeded} sets from VERIF_SEED={seed}" if n_seeded else "") +
        " (2..7 decaying particles of rank 0..4, 0..5 lines, 1..5 daughters, leaf with empty Decay block, aliases, shuffled "
        "block order, unfolding <= 4000 nodes); every mother; all subsets S of the particles with a block when there are <= 5 "
        "(else {}, singletons, all, 24 random subsets), plus leaf variants; each S as list, tuple and set",
        RULE, False, t0))
    # (3) shipped file
    if tier == "thorough":
        out.append(_run_lhcb(100000, time.time()))
    return {"bounded": out}
