"""C11 -- class, dictionary and parser forms of a decay convert into each other losslessly (bounded stand-ins).

Four stand-ins, each running only the real code and comparing with oracles written from the property:
  C11.mode.round_trip          DecayMode -> to_dict -> from_dict
  C11.chain.round_trip         DecayChain -> to_dict (== dictionary form oracle) -> from_dict -> to_dict
  C11.parser.round_trip        generated .dec text -> build_decay_chains -> DecayChain.from_dict -> to_dict
  C11.final_state.constructors DaughtersDict from string / list / tuple / mapping, DecayMode.from_pdgids, len, +, order
"""
from __future__ import annotations

import csv
import itertools
import os
import time
from collections import Counter
from fractions import Fraction

from specs import chainshapes as cs

DM = "decaylanguage.decay.decay.DecayMode"
DC = "decaylanguage.decay.decay.DecayChain"
DD = "decaylanguage.decay.decay.DaughtersDict"

META = {
    "level": "other",
    "explanation": (
        "Bounded stand-ins for the round trips: (1) DecayMode -> to_dict -> from_dict over 7 branching fractions x 821 final "
        "states (<= 3 distinct names, multiplicity <= 4) x a pool of 2485 metadata combinations (model / model_params incl. None "
        "vs '' / nested JSON-like user metadata), factored as stated in the bound; (2) DecayChain -> to_dict -> from_dict -> to_dict "
        "on every acyclic reachable chain shape of the listed families (<= 5 decaying particles, multiplicities <= 4, the same "
        "decaying particle several times in one final state and at several depths), the dictionary compared with the dictionary-"
        "form oracle (EVERY occurrence of a decaying particle expanded, daughters in canonical order); (3) generated .dec texts "
        "with exactly one line per particle -> build_decay_chains -> DecayChain.from_dict -> to_dict, equal up to the order of "
        "daughters; (4) DaughtersDict built from a string, list, tuple and mapping (entries <= 0 dropped) in every order of a "
        "final state, and DecayMode.from_pdgids for every PDG ID of particle's EvtGen table (read from the CSV data file), give "
        "the same final state; to_list sorted with multiplicity, len == sum of counts, + pointwise."),
    "assumptions": ["metadata keys are strings other than 'bf', 'fs', 'daughters', 'self'", "metadata values are JSON-like (no NaN)",
                    "chains have no unreachable entries (such entries are not sub-decays of the chain and cannot be in its dictionary)"],
    "trusted_base": ["specs/chainshapes.py (shapes, dictionary-form oracle)", "particle/data/pdgid_to_evtgenname.csv as the EvtGen table"],
    "not_applicable_clauses": [],
}

TIME_LIMIT = 20.0
ABSENT = "<absent>"


def strict_eq(a, b):
    """Equality of JSON-like values that also distinguishes types (1 / 1.0 / True, list / tuple)."""
    if type(a) is not type(b):
        return False
    if isinstance(a, dict):
        return a.keys() == b.keys() and all(strict_eq(a[k], b[k]) for k in a)
    if isinstance(a, (list, tuple)):
        return len(a) == len(b) and all(strict_eq(x, y) for x, y in zip(a, b))
    return a == b


def meta_shown(meta):
    """Metadata as the dictionary form shows it: model / model_params always present, a missing (None)
    model_params shown as ''."""
    out = {"model": "", "model_params": ""}
    out.update(meta)
    if out["model_params"] is None:
        out["model_params"] = ""
    return out


def meta_equal(got, meta):
    """Metadata of a rebuilt object equals the original's, model_params None and '' identified."""
    exp = {"model": "", "model_params": ""}
    exp.update(meta)
    a, b = dict(got), dict(exp)
    if a.get("model_params") is None:
        a["model_params"] = ""
    if b.get("model_params") is None:
        b["model_params"] = ""
    return strict_eq(a, b)


# ----------------------------------------------------------------------------------------------------
# (1) DecayMode round trip
# ----------------------------------------------------------------------------------------------------

BFS = [0, 1, 0.5, 1e-300, 0.1 + 0.2, Fraction(1, 3), 12345678901234567890]
NAMES = ["K+", "K-", "pi0", "K_1(1270)+", "f'_0"]
MODELS = [ABSENT, "", "PHSP", None, "PHOTOS VSS"]
PARAMS = [ABSENT, None, "", "1.0 2.0", [], [-0.108, "x", 3], [[1, 2], {"a": None}]]
UVALUES = [None, True, 0, -7, 2019, 1.5, "", "toy", "ünï✓", [], [1, [2, [3, None]]], {}, {"B0": "gauss"},
           {"a": [1, {"b": None, "c": [True, 0.25]}]}]
UKEYS = ["study", "year", "zfit", "x-y z"]


def final_states(names, max_distinct, max_mult):
    out = [[]]
    for k in range(1, max_distinct + 1):
        for combo in itertools.combinations(names, k):
            for mults in itertools.product(range(1, max_mult + 1), repeat=k):
                out.append([[n, m] for n, m in zip(combo, mults)])
    return out


def user_metas():
    out = [{}]
    for k in UKEYS:
        for v in UVALUES:
            out.append({k: v})
    for i, v in enumerate(UVALUES):
        out.append({"study": v, "year": UVALUES[(i + 5) % len(UVALUES)]})
    return out


def all_metas():
    out = []
    for m in MODELS:
        for p in PARAMS:
            for u in user_metas():
                d = {}
                if m != ABSENT:
                    d["model"] = m
                if p != ABSENT:
                    d["model_params"] = p
                d.update(u)
                out.append(d)
    return out


def give_daughters(fs, form):
    from decaylanguage import DaughtersDict
    names = [n for n, m in fs for _ in range(m)]
    form = form % 5
    if form == 0:
        return {n: m for n, m in fs}
    if form == 1:
        return names[::-1]
    if form == 2:
        return " ".join(names)
    if form == 3:
        return tuple(names[1:] + names[:1])
    return DaughtersDict(names)


def check_mode(bf, fs, meta, form=0):
    from decaylanguage import DecayMode
    import copy
    out = []
    meta_in = copy.deepcopy(meta)
    try:
        with cs.time_limit(TIME_LIMIT):
            dm = DecayMode(bf, give_daughters(fs, form), **meta_in)
            d = dm.to_dict()
            dm2 = DecayMode.from_dict(d)
            d2 = dm2.to_dict()
    except Exception as ex:
        return [("mode.round_trip.returns", DM + ".from_dict", "raised %r" % (ex,))]
    exp = {"bf": bf, "fs": sorted(n for n, m in fs for _ in range(m))}
    exp.update(meta_shown(meta))
    if not strict_eq(d, exp):
        out.append(("mode.to_dict.form", DM + ".to_dict", "dictionary expected %r, got %r" % (exp, d)))
    if not (type(dm2.bf) is type(bf) and dm2.bf == bf):
        out.append(("mode.from_dict.bf", DM + ".from_dict", "bf expected %r, got %r" % (bf, dm2.bf)))
    if dict(dm2.daughters) != {n: m for n, m in fs} or dm2.daughters != dm.daughters:
        out.append(("mode.from_dict.daughters", DM + ".from_dict", "daughters expected %r, got %r" % (fs, dict(dm2.daughters))))
    if not meta_equal(dm2.metadata, meta):
        out.append(("mode.from_dict.metadata", DM + ".from_dict", "metadata expected %r (model_params None == ''), got %r" % (meta_shown(meta), dm2.metadata)))
    if not strict_eq(d2, d):
        out.append(("mode.round_trip.dict", DM + ".from_dict", "to_dict after the round trip %r, before %r" % (d2, d)))
    return out


def _mode_worker(task):
    part, nparts = task
    metas = all_metas()
    fss = final_states(NAMES, 3, 4)
    small_fs = [fss[0], fss[3], fss[30], fss[200], fss[-1]]
    small_meta = [metas[0], metas[len(metas) // 7], metas[len(metas) // 3 + 11], metas[len(metas) // 2 + 3], metas[-20], metas[-1]]
    n = nontriv = 0
    fails = []
    # all metadata x 5 final states x 3 branching fractions
    for mi in range(part, len(metas), nparts):
        meta = metas[mi]
        for fi, fs in enumerate(small_fs):
            for bi in range(3):
                bf = BFS[(mi + fi + 2 * bi) % len(BFS)]
                n += 1
                nontriv += 1 if len(meta) > 0 else 0
                for c, f, w in check_mode(bf, fs, meta, mi + fi):
                    fails.append(_rec(f, c, w, {"kind": "mode", "bf": cs.num_to_json(bf), "fs": fs, "meta": meta, "form": mi + fi},
                                      (len(repr(meta)) + len(fs),)))
    # all final states x 6 metadata x all branching fractions
    for fi in range(part, len(fss), nparts):
        fs = fss[fi]
        for mj, meta in enumerate(small_meta):
            for bf in BFS:
                n += 1
                nontriv += 1 if fs else 0
                for c, f, w in check_mode(bf, fs, meta, fi + mj):
                    fails.append(_rec(f, c, w, {"kind": "mode", "bf": cs.num_to_json(bf), "fs": fs, "meta": meta, "form": fi + mj},
                                      (len(repr(meta)) + len(fs),)))
        if len(fails) > 200:
            break
    return dict(kind="mode", n=n, nontriv=nontriv, fails=_shortest(fails))


# ----------------------------------------------------------------------------------------------------
# (2) DecayChain round trip
# ----------------------------------------------------------------------------------------------------

CHAIN_FAMILIES = {
    "quick": [(1, 2, 3, 4, 12), (2, 2, 3, 4, 12), (3, 2, 3, 4, 5), (4, 1, 3, 2, 3), (4, 2, 2, 2, 2), (5, 1, 3, 1, 3), (5, 1, 2, 2, 2)],
    "thorough": [(1, 2, 3, 4, 12), (2, 2, 3, 4, 12), (3, 2, 3, 4, 6), (4, 1, 3, 4, 4), (4, 2, 3, 2, 3), (5, 1, 3, 2, 3), (5, 2, 2, 2, 2)],
}
CHAIN_METAS = [
    {}, {"model": "PHSP"}, {"model": "HELAMP", "model_params": [1.0, 0.0, 1.0, 0.0]}, {"model": "VSS", "model_params": None},
    {"model": "SVS", "study": {"k": [1, None, "a"]}, "year": 2019}, {"model_params": "0.5 1", "note": "ünï"},
]
CHAIN_BFS = [0.5, 0.25, 0.0124, 0.692, 0.98823, 1.0, 1e-05]


def build_chain(chain, order=None):
    from decaylanguage import DecayChain, DecayMode
    import copy
    decs = chain["decays"]
    idx = range(len(decs)) if order is None else order
    decays = {}
    for i in idx:
        name, b, fs, meta = decs[i]
        decays[name] = DecayMode(b, give_daughters(fs, i), **copy.deepcopy(meta))
    return DecayChain(chain["mother"], decays)


def check_chain(chain, order=None):
    from decaylanguage import DecayChain
    out = []
    metas = {name: meta for name, _b, _fs, meta in chain["decays"]}
    try:
        with cs.time_limit(TIME_LIMIT):
            dc = build_chain(chain, order)
            d = dc.to_dict()
    except Exception as ex:
        return [("chain.to_dict.returns", DC + ".to_dict", "raised %r" % (ex,))]
    exp = cs.dict_form(chain, lambda p: meta_shown(metas[p]))
    if not strict_eq(d, exp):
        out.append(("chain.to_dict.form", DC + ".to_dict", "dictionary form expected %r, got %r" % (exp, d)))
        return out
    before = repr(d)
    try:
        with cs.time_limit(TIME_LIMIT):
            dc2 = DecayChain.from_dict(d)
    except Exception as ex:
        return out + [("chain.from_dict.returns", DC + ".from_dict", "from_dict(to_dict(chain)) raised %r" % (ex,))]
    if repr(d) != before:
        out.append(("chain.from_dict.keeps_input", DC + ".from_dict", "the input dictionary was changed to %r" % (d,)))
    if dc2.mother != chain["mother"]:
        out.append(("chain.round_trip.mother", DC + ".from_dict", "mother expected %r, got %r" % (chain["mother"], dc2.mother)))
    tab = {name: (b, fs, meta) for name, b, fs, meta in chain["decays"]}
    if set(dc2.decays) != set(tab):
        out.append(("chain.round_trip.subdecays", DC + ".from_dict", "decaying particles expected %r, got %r" % (sorted(tab), sorted(dc2.decays))))
    else:
        for name, (b, fs, meta) in tab.items():
            m2 = dc2.decays[name]
            if not (type(m2.bf) is type(b) and m2.bf == b):
                out.append(("chain.round_trip.bf", DC + ".from_dict", "%s: bf expected %r, got %r" % (name, b, m2.bf)))
            if dict(m2.daughters) != {n: m for n, m in fs}:
                out.append(("chain.round_trip.daughters", DC + ".from_dict", "%s: daughters expected %r, got %r" % (name, fs, dict(m2.daughters))))
            if not meta_equal(m2.metadata, meta):
                out.append(("chain.round_trip.metadata", DC + ".from_dict", "%s: metadata expected %r, got %r" % (name, meta_shown(meta), m2.metadata)))
    try:
        with cs.time_limit(TIME_LIMIT):
            d2 = dc2.to_dict()
            d3 = dc.to_dict()
    except Exception as ex:
        return out + [("chain.to_dict.returns", DC + ".to_dict", "second to_dict raised %r" % (ex,))]
    if not strict_eq(d2, exp):
        out.append(("chain.round_trip.dict", DC + ".to_dict", "to_dict after the round trip %r, expected %r" % (d2, exp)))
    if not strict_eq(d3, exp):
        out.append(("chain.to_dict.repeatable", DC + ".to_dict", "second to_dict of the original %r, expected %r" % (d3, exp)))
    return out


def occurrences(chain):
    """Number of times each decaying particle occurs in the unfolded tree."""
    tab = {name: fs for name, _b, fs, _m in chain["decays"]}
    occ = Counter()

    def walk(p, k):
        occ[p] += k
        for d, m in tab[p]:
            if d in tab:
                walk(d, k * m)

    walk(chain["mother"], 1)
    return occ


def _chain_worker(task):
    key, sl = task
    n = nontriv = repeated = nshapes = 0
    fails = []
    samples = []
    for idx, shape in enumerate(cs.family_shapes(cs.Family(*key), sl)):
        nshapes += 1
        k = len(shape)
        pool = cs.POOLS[(idx + sl) % len(cs.POOLS)]
        metas = [CHAIN_METAS[(i + idx) % len(CHAIN_METAS)] for i in range(k)]
        bfs = [CHAIN_BFS[(i + idx) % len(CHAIN_BFS)] for i in range(k)]
        chain = cs.instantiate(shape, pool, metas=metas, bfs=bfs)
        rep = max(occurrences(chain).values()) > 1
        for oi, order in enumerate([None, list(range(k))[::-1]] if k > 1 else [None]):
            n += 1
            if oi == 0:
                nontriv += 1 if k > 1 else 0
                repeated += 1 if rep else 0
            for c, f, w in check_chain(chain, order):
                fails.append(_rec(f, c, w, {"kind": "chain", "chain": cs.chain_to_json(chain), "order": order}, cs.chain_size(chain)))
        if rep and k >= 3 and len(samples) < 1:
            samples.append({"chain": cs.chain_to_json(chain)})
        if len(fails) > 200:
            break
    return dict(kind="chain", key=key, n=n, nontriv=nontriv, repeated=repeated, shapes=nshapes, fails=_shortest(fails), samples=samples)


# ----------------------------------------------------------------------------------------------------
# (3) parser-produced single-line chains
# ----------------------------------------------------------------------------------------------------

PARSER_FAMILIES = {
    "quick": [(1, 2, 3, 4, 12), (2, 2, 3, 3, 4), (3, 2, 2, 2, 3), (4, 1, 2, 2, 2), (4, 1, 3, 1, 3), (5, 1, 2, 1, 2)],
    "thorough": [(1, 2, 3, 4, 12), (2, 2, 3, 3, 4), (3, 2, 2, 2, 3), (3, 1, 3, 2, 3), (4, 1, 2, 2, 3), (4, 1, 3, 1, 3), (5, 1, 3, 1, 3)],
}
MODEL_LINES = [("PHSP", "PHSP", ""), ("VSS", "VSS", ""), ("HELAMP 1.0 0.0 1.0 0.0", "HELAMP", [1.0, 0.0, 1.0, 0.0]),
               ("PHOTOS VSS", "VSS", ""), ("SVS", "SVS", ""), ("TAUHADNU -0.108 0.775 0.149 1.364 0.400", "TAUHADNU", [-0.108, 0.775, 0.149, 1.364, 0.4]),
               ("PHOTOS HELAMP 1.0 0.0", "HELAMP", [1.0, 0.0])]


def dec_text(shape, pool, variant):
    """A .dec text with exactly one decay line per decaying particle; the daughters of a line are
    written in a non-sorted order, the blocks in an order depending on ``variant``.
    -> (text, mother, tables) with tables in the form of specs.chainshapes.chain_dict_from_tables."""
    n = len(shape)
    dn, sn = pool["decaying"], pool["stable"]
    tables = {}
    blocks = []
    for i in range(n):
        names = [(dn[s] if s >= 0 else sn[-s - 1]) for s, m in shape[i] for _ in range(m)]
        r = (variant + i) % max(1, len(names))
        names = names[r:] + names[:r]
        if (variant + i) % 2:
            names = names[::-1]
        line, model, params = MODEL_LINES[(variant + 2 * i) % len(MODEL_LINES)]
        bf = CHAIN_BFS[(variant + i) % len(CHAIN_BFS)]
        tables[dn[i]] = [[bf, names, model, params]]
        blocks.append("Decay %s\n  %r   %s   %s;\nEnddecay\n" % (dn[i], bf, "  ".join(names), line))
    order = list(range(n))
    order = order[variant % n:] + order[:variant % n]
    if variant % 3 == 0:
        order.reverse()
    text = "# generated by checks.C11\n" + "\n".join(blocks[i] for i in order) + "\nEnd\n"
    return text, dn[n - 1], tables


def check_parser_text(text, mother, tables=None):
    from decaylanguage import DecayChain
    from decaylanguage.dec.dec import DecFileParser
    out, err = [], []
    try:
        with cs.time_limit(TIME_LIMIT):
            p = DecFileParser.from_string(text)
            p.parse()
            d0 = p.build_decay_chains(mother)
    except Exception as ex:
        return [], ["parsing the generated text / build_decay_chains raised %r for %r" % (ex, text)]
    if tables is not None:
        exp0 = cs.chain_dict_from_tables(tables, mother)
        if not strict_eq(d0, exp0):
            err.append("assumed: build_decay_chains gives the chain of the tables; got %r, tables give %r" % (d0, exp0))
            return out, err
    before = repr(d0)
    try:
        with cs.time_limit(TIME_LIMIT):
            dc = DecayChain.from_dict(d0)
            d1 = dc.to_dict()
    except Exception as ex:
        return [("parser.round_trip.returns", DC + ".from_dict", "from_dict / to_dict of the parser's chain raised %r" % (ex,))], err
    if repr(d0) != before:
        out.append(("chain.from_dict.keeps_input", DC + ".from_dict", "the parser's dictionary was changed to %r" % (d0,)))
    a, b = cs.canon_dict(d1), cs.canon_dict(d0)
    if not strict_eq(a, b):
        out.append(("parser.round_trip.dict", DC + ".from_dict", "parser chain %r comes back as %r" % (d0, d1)))
    return out, err


def _parser_worker(task):
    key, sl, nvar = task
    n = nontriv = nshapes = 0
    fails, errors, samples = [], [], []
    for idx, shape in enumerate(cs.family_shapes(cs.Family(*key), sl)):
        nshapes += 1
        for v in range(nvar):
            variant = idx + sl + 3 * v
            pool = cs.POOLS[variant % len(cs.POOLS)]
            text, mother, tables = dec_text(shape, pool, variant)
            n += 1
            nontriv += 1 if len(shape) > 1 else 0
            res, err = check_parser_text(text, mother, tables)
            errors += err[:1] if len(errors) < 3 else []
            for c, f, w in res:
                fails.append(_rec(f, c, w, {"kind": "parser", "text": text, "mother": mother}, (len(text),)))
            if len(shape) >= 3 and not samples:
                samples.append({"text": text, "mother": mother})
        if len(fails) > 50:
            break
    return dict(kind="parser", key=key, n=n, nontriv=nontriv, shapes=nshapes, fails=_shortest(fails), errors=errors, samples=samples)


# ----------------------------------------------------------------------------------------------------
# (4) final states
# ----------------------------------------------------------------------------------------------------

FS_NAMES = ["pi0", "K+", "K_1(1270)+", "anti-K*0"]


def multisets(names, max_mult, max_total):
    out = []
    for counts in itertools.product(range(max_mult + 1), repeat=len(names)):
        if sum(counts) <= max_total:
            out.append([n for n, c in zip(names, counts) for _ in range(c)])
    return out


def distinct_orders(items, cap=120):
    seen = []
    for p in itertools.permutations(items):
        if p not in seen:
            seen.append(p)
            if len(seen) >= cap:
                break
    return seen


def check_final_state(items, order_cap=120):
    """All constructions of one final state (``items``: list of names with repetition)."""
    from decaylanguage import DaughtersDict, DecayMode
    out = []
    exp = dict(Counter(items))
    canon = sorted(items)
    n = 0

    def same(dd, how):
        nonlocal n
        n += 1
        probs = []
        if dict(dd) != exp or not isinstance(dd, DaughtersDict):
            probs.append(("final_state.same", DD + ".__init__", "%s: counts %r, expected %r" % (how, dict(dd), exp)))
        if dd.to_list() != canon:
            probs.append(("final_state.canonical_order", DD + ".to_list", "%s: to_list %r, expected %r" % (how, dd.to_list(), canon)))
        if dd.to_string() != " ".join(canon):
            probs.append(("final_state.canonical_order", DD + ".to_string", "%s: to_string %r, expected %r" % (how, dd.to_string(), " ".join(canon))))
        if len(dd) != len(items):
            probs.append(("final_state.len", DD + ".__len__", "%s: len %r, expected %r" % (how, len(dd), len(items))))
        if sorted(iter(dd)) != canon:
            probs.append(("final_state.iter", DD + ".__iter__", "%s: iteration gives %r, expected the names with multiplicity %r" % (how, list(iter(dd)), canon)))
        return probs

    try:
        with cs.time_limit(TIME_LIMIT):
            perms = itertools.permutations(items) if len(items) <= 4 else distinct_orders(items, order_cap)
            seen = set()
            for p in perms:
                if p in seen:
                    continue
                seen.add(p)
                out += same(DaughtersDict(" ".join(p)), "string %r" % (" ".join(p),))
                out += same(DaughtersDict(list(p)), "list %r" % (list(p),))
                out += same(DaughtersDict(tuple(p)), "tuple %r" % (p,))
                if out:
                    return out, n
            out += same(DaughtersDict("  " + " \t ".join(items) + " \n"), "string with irregular blanks")
            keys = sorted(exp)
            for ko in (keys, keys[::-1]):
                m = {}
                m["zero-entry"] = 0
                for k in ko:
                    m[k] = exp[k]
                m["negative-entry"] = -2
                out += same(DaughtersDict(m), "mapping %r" % (m,))
            out += same(DaughtersDict(DaughtersDict(items)), "another DaughtersDict")
            out += same(DecayMode(0.5, items).daughters, "DecayMode(list)")
            out += same(DecayMode(0.5, " ".join(items[::-1])).daughters, "DecayMode(string)")
            out += same(DecayMode(0.5, dict(exp)).daughters, "DecayMode(mapping)")
            if not items:
                out += same(DaughtersDict(), "no argument")
                out += same(DaughtersDict(None), "None")
                out += same(DaughtersDict(""), "empty string")
    except Exception as ex:
        out.append(("final_state.returns", DD + ".__init__", "raised %r for %r" % (ex, items)))
    return out, n


def check_add(a, b):
    from decaylanguage import DaughtersDict
    try:
        x, y = DaughtersDict(a), DaughtersDict(" ".join(b))
        s = x + y
    except Exception as ex:
        return [("final_state.add", DD + ".__add__", "raised %r" % (ex,))]
    exp = dict(Counter(a) + Counter(b))
    out = []
    if dict(s) != exp or not isinstance(s, DaughtersDict) or len(s) != len(a) + len(b):
        out.append(("final_state.add", DD + ".__add__", "%r + %r gives %r, expected %r" % (a, b, dict(s), exp)))
    if dict(x) != dict(Counter(a)) or dict(y) != dict(Counter(b)):
        out.append(("final_state.add", DD + ".__add__", "an operand was changed: %r, %r" % (dict(x), dict(y))))
    return out


_EVTGEN = None
_EVTGEN_MAP = None


def evtgen_table():
    """(PDG ID, EvtGen name) rows of particle's data file -- the table the property refers to."""
    global _EVTGEN
    if _EVTGEN is None:
        from particle import data
        rows = []
        with open(os.path.join(str(data.basepath), "pdgid_to_evtgenname.csv"), newline="") as f:
            for row in csv.reader(line for line in f if not line.startswith("#")):
                if row and row[0] != "PDGID":
                    rows.append((int(row[0]), row[1]))
        _EVTGEN = rows
    return _EVTGEN


def check_pdgids(ids, as_tuple=False, as_pdgid=False):
    """from_pdgids(ids) against the names of the table."""
    from decaylanguage import DaughtersDict, DecayMode
    from particle import PDGID
    global _EVTGEN_MAP
    if _EVTGEN_MAP is None:
        _EVTGEN_MAP = dict(evtgen_table())
    names = _EVTGEN_MAP
    exp_names = [names[i] for i in ids]
    arg = [PDGID(i) for i in ids] if as_pdgid else list(ids)
    arg = tuple(arg) if as_tuple else arg
    try:
        dm = DecayMode.from_pdgids(0.25, arg, model="PHSP", study="toy")
        ref = DecayMode(0.25, exp_names, model="PHSP", study="toy")
    except Exception as ex:
        return [("final_state.from_pdgids", DM + ".from_pdgids", "ids %r: raised %r" % (ids, ex))]
    out = []
    if dict(dm.daughters) != dict(Counter(exp_names)) or dm.daughters != DaughtersDict(" ".join(sorted(exp_names))):
        out.append(("final_state.from_pdgids", DM + ".from_pdgids", "ids %r: final state %r, table gives %r" % (ids, dict(dm.daughters), exp_names)))
    if dm.daughters.to_list() != sorted(exp_names) or len(dm.daughters) != len(ids):
        out.append(("final_state.canonical_order", DM + ".from_pdgids", "ids %r: to_list %r" % (ids, dm.daughters.to_list())))
    if dm.bf != 0.25 or dm.metadata != ref.metadata or not strict_eq(dm.to_dict(), ref.to_dict()):
        out.append(("final_state.from_pdgids", DM + ".from_pdgids", "ids %r: mode %r differs from the mode built from names %r" % (ids, dm.to_dict(), ref.to_dict())))
    return out


def _fs_worker(task):
    what = task[0]
    n = nontriv = 0
    fails = []
    if what == "construct":
        _w, part, nparts, max_total = task
        sets = multisets(FS_NAMES, 4, max_total)
        for i in range(part, len(sets), nparts):
            res, k = check_final_state(sets[i])
            n += k
            nontriv += k if len(set(sets[i])) >= 2 or len(sets[i]) >= 2 else 0
            for c, f, w in res:
                fails.append(_rec(f, c, w, {"kind": "final_state", "items": sets[i]}, (len(sets[i]),)))
    elif what == "add":
        _w, part, nparts, max_total = task
        sets = multisets(FS_NAMES, 3, max_total)
        for i in range(part, len(sets), nparts):
            for b in sets:
                n += 1
                nontriv += 1 if sets[i] and b else 0
                for c, f, w in check_add(sets[i], b):
                    fails.append(_rec(f, c, w, {"kind": "add", "a": sets[i], "b": b}, (len(sets[i]) + len(b),)))
    else:
        _w, part, nparts, all_pairs = task
        table = evtgen_table()
        ids = [i for i, _n in table]
        for j in range(part, len(ids), nparts):
            i = ids[j]
            cases = [([i] * k, k % 2 == 0, k == 3) for k in range(1, 5)]
            nxt = ids[(j + 1) % len(ids)]
            far = ids[(j * 7 + 13) % len(ids)]
            cases += [([i, nxt], False, False), ([nxt, i], True, False), ([i, far, i], False, True), ([far, i, i, nxt], True, False)]
            if all_pairs:
                cases += [([i, o], False, False) for o in ids]
            for c_ids, tup, pdg in cases:
                n += 1
                nontriv += 1
                for c, f, w in check_pdgids(c_ids, tup, pdg):
                    fails.append(_rec(f, c, w, {"kind": "pdgid", "ids": c_ids, "as_tuple": tup, "as_pdgid": pdg}, (len(c_ids),)))
            if len(fails) > 100:
                break
    return dict(kind="fs", what=what, n=n, nontriv=nontriv, fails=_shortest(fails))


# ----------------------------------------------------------------------------------------------------
# common
# ----------------------------------------------------------------------------------------------------


def _rec(func, clause, what, inp, size):
    return {"function": func, "clause": clause, "what": what, "input": inp,
            "replay": {"module": "checks.C11", "function": "replay"}, "_size": tuple(size)}


def _shortest(fails, k=20):
    return sorted(fails, key=lambda f: (f["_size"], f["clause"]))[:k]


def _keep(fails):
    keep, seen = [], set()
    for f in sorted(fails, key=lambda f: (f["_size"], f["clause"])):
        if f["clause"] in seen:
            continue
        seen.add(f["clause"])
        f = dict(f)
        f.pop("_size")
        keep.append(f)
    return keep


def replay(inp):
    kind = inp["kind"]
    if kind == "mode":
        res = check_mode(cs.num_from_json(inp["bf"]), inp["fs"], inp["meta"], inp.get("form", 0))
    elif kind == "chain":
        res = check_chain(cs.chain_from_json(inp["chain"]), inp.get("order"))
    elif kind == "parser":
        res, err = check_parser_text(inp["text"], inp["mother"])
        res = res + [("parser.assumed", "", e) for e in err]
    elif kind == "final_state":
        res, _n = check_final_state(inp["items"])
    elif kind == "add":
        res = check_add(inp["a"], inp["b"])
    elif kind == "pdgid":
        res = check_pdgids(inp["ids"], inp.get("as_tuple", False), inp.get("as_pdgid", False))
    else:
        return False, "unknown kind %r" % (kind,)
    if res:
        return False, "; ".join("%s: %s" % (c, w) for c, _f, w in res)
    return True, "the forms convert into each other without loss for this input"


def _dispatch(task):
    return {"mode": _mode_worker, "chain": _chain_worker, "parser": _parser_worker, "fs": _fs_worker}[task[0]](task[1])


def run(tier: str, seed: int) -> dict:
    t0 = time.time()
    thorough = tier == "thorough"
    tasks = []
    tasks += [("mode", (p, 24)) for p in range(24)]
    tasks += [("chain", (k, s)) for k, s in cs.family_tasks(CHAIN_FAMILIES[tier])]
    nvar = 3 if thorough else 1
    tasks += [("parser", (k, s, nvar)) for k, s in cs.family_tasks(PARSER_FAMILIES[tier])]
    tasks += [("fs", ("construct", p, 16, 7 if thorough else 6)) for p in range(16)]
    tasks += [("fs", ("add", p, 8, 6 if thorough else 5)) for p in range(8)]
    tasks += [("fs", ("pdgid", p, 32, thorough)) for p in range(32)]
    # slow slices (parser) first
    tasks.sort(key=lambda t: 0 if t[0] == "parser" else 1)
    if seed:
        import random
        random.Random(seed).shuffle(tasks)
    agg = {k: dict(n=0, nontriv=0, fails=[], errors=[], samples=[], extra={}) for k in ("mode", "chain", "parser", "construct", "add", "pdgid")}
    crashed = []
    try:
        for r in cs.run_parallel(_dispatch, tasks):
            k = r["kind"] if r["kind"] != "fs" else r["what"]
            a = agg[k]
            a["n"] += r["n"]
            a["nontriv"] += r["nontriv"]
            a["fails"] += r["fails"]
            a["errors"] += r.get("errors", [])
            if r.get("samples") and len(a["samples"]) < 2:
                a["samples"] += r["samples"][:1]
            for x in ("shapes", "repeated"):
                if x in r:
                    a["extra"][x] = a["extra"].get(x, 0) + r[x]
    except Exception as ex:  # pragma: no cover
        crashed.append("enumeration crashed: %r" % (ex,))
    metas = all_metas()
    fss = final_states(NAMES, 3, 4)
    bounded = []
    a = agg["mode"]
    bounded.append({
        "name": "C11.mode.round_trip", "function": DM + ".from_dict",
        "bound": ("all %d metadata combinations (model in %r x model_params in %r x user metadata: none / one of the keys %r with one of %d "
                  "JSON-like values / two keys) x 5 final states x 3 branching fractions, and all %d final states (<= 3 distinct of 5 "
                  "names, multiplicity <= 4, and the empty one) x 6 metadata combinations x %d branching fractions %r; daughters given "
                  "as mapping / list / string / tuple / DaughtersDict in turn"
                  % (len(metas), MODELS, PARAMS, UKEYS, len(UVALUES), len(fss), len(BFS), [str(b) for b in BFS])),
        "evaluations": a["n"], "distinct_nontrivial": a["nontriv"],
        "rule": "one evaluation = one DecayMode built, converted with to_dict, rebuilt with from_dict and compared (dictionary form, bf, daughters, "
                "metadata, second to_dict); all enumerated cases are distinct; non-trivial = cases with given metadata (first product) or a "
                "non-empty final state (second product)",
        "exhaustive": True, "samples": [{"bf": 0.5, "fs": fss[200], "meta": metas[len(metas) // 3 + 11]}],
        "failures": _keep(a["fails"]), "errors": list(crashed),
    })
    a = agg["chain"]
    bounded.append({
        "name": "C11.chain.round_trip", "function": DC + ".from_dict",
        "bound": ("every acyclic reachable chain shape, one per renaming class, of the families (n decaying, stable names, max distinct "
                  "daughters, max multiplicity, max daughters per decay) = %s; metadata per decay from a pool of %d combinations incl. "
                  "nested user metadata and model_params None; two orders of the mapping; daughters given as mapping / list / string / "
                  "tuple / DaughtersDict in turn" % (CHAIN_FAMILIES[tier], len(CHAIN_METAS))),
        "evaluations": a["n"], "distinct_nontrivial": a["nontriv"],
        "rule": ("one evaluation = to_dict compared with the dictionary-form oracle, from_dict compared field by field with the original, "
                 "to_dict again; distinct = shape classes = %d, non-trivial = shapes with at least one sub-decay; of these %d have a decaying "
                 "particle occurring several times in the tree" % (a["extra"].get("shapes", 0), a["extra"].get("repeated", 0))),
        "exhaustive": True, "shapes": a["extra"].get("shapes", 0), "shapes_with_repeated_decaying_particle": a["extra"].get("repeated", 0),
        "samples": a["samples"], "failures": _keep(a["fails"]), "errors": [],
    })
    a = agg["parser"]
    bounded.append({
        "name": "C11.parser.round_trip", "function": DC + ".from_dict",
        "bound": ("one generated .dec text (%d variant(s) of block order / daughter order / models %r) per acyclic reachable chain shape of "
                  "the families %s, exactly one decay line per particle; DecFileParser.from_string -> parse -> build_decay_chains(mother) -> "
                  "DecayChain.from_dict -> to_dict" % (nvar, [m[0] for m in MODEL_LINES], PARSER_FAMILIES[tier])),
        "evaluations": a["n"], "distinct_nontrivial": a["nontriv"],
        "rule": "one evaluation = one generated text parsed and round-tripped, dictionaries compared after putting every fs list into one canonical "
                "order; all texts are distinct; non-trivial = chains with at least one sub-decay (%d shapes)" % a["extra"].get("shapes", 0),
        "exhaustive": True, "samples": a["samples"], "failures": _keep(a["fails"]),
        "errors": sorted(set(a["errors"]))[:3],
    })
    n = agg["construct"]["n"] + agg["add"]["n"] + agg["pdgid"]["n"]
    nt = agg["construct"]["nontriv"] + agg["add"]["nontriv"] + agg["pdgid"]["nontriv"]
    bounded.append({
        "name": "C11.final_state.constructors", "function": DD + ".__init__",
        "bound": ("every final state over %r with multiplicity <= 4 and <= %d particles, in every distinct order (<= 120 orders for more than 4 "
                  "particles), built from a string, a list, a tuple, a mapping with extra entries 0 / -2 in two key orders, another "
                  "DaughtersDict and through DecayMode; a + b for all pairs of final states with multiplicity <= 3 and <= %d particles; "
                  "DecayMode.from_pdgids for every one of the %d PDG IDs of particle's EvtGen table alone (1..4 times) and in 4 "
                  "combinations with other IDs%s, as list / tuple, int / PDGID"
                  % (FS_NAMES, 7 if thorough else 6, 6 if thorough else 5, len(evtgen_table()), " and in every ordered pair" if thorough else "")),
        "evaluations": n, "distinct_nontrivial": nt,
        "rule": ("evaluations = objects constructed and compared with the Counter oracle (%d constructions, %d sums, %d from_pdgids calls); "
                 "non-trivial = constructions of final states with >= 2 particles, sums of two non-empty states, every from_pdgids call"
                 % (agg["construct"]["n"], agg["add"]["n"], agg["pdgid"]["n"])),
        "exhaustive": True, "samples": [{"items": ["K+", "pi0", "K+", "K_1(1270)+"]}, {"ids": [321, -321, 321]}],
        "failures": _keep(agg["construct"]["fails"] + agg["add"]["fails"] + agg["pdgid"]["fails"]), "errors": [],
    })
    bounded[0]["seconds"] = round(time.time() - t0, 2)
    return {"bounded": bounded}
