"""C03 -- CDecay yields the exact charge conjugate of the referenced decay table (bounded stand-in).

Oracle (specs.decrel.expected_tables, written from the property statement): for every CDecay X,
src = conj(X) with conj = ChargeConj statement read in either direction (first match in declaration
order), else decaylanguage.utils.particleutils.charge_conjugate_name; if src has a table (Decay block or
CopyDecay-created) and X has none, X gets src's lines, same order, same bf / PHOTOS / model / parameters,
every daughter mapped through conj; a Decay block for X wins; no source -> nothing; the source and every
other table is exactly what the file states; parse(include_ccdecays=False) adds no such table.
Only the real code of /repo is run (from_string + parse); the files are rendered from abstract
statements, so what they state is known by construction.
"""
from __future__ import annotations

import random
import time

from specs import decrel as R

FN_ADD = "decaylanguage.dec.dec.DecFileParser._add_charge_conjugate_decays"
FN_PARSE = "decaylanguage.dec.dec.DecFileParser.parse"

META = {
    "level": "other",
    "explanation": (
        "Bounded, end-to-end: abstract files combining Decay, Alias, ChargeConj (both orientations), CopyDecay, "
        "CDecay, Define and ModelAlias are rendered to text, parsed by the real DecFileParser with both values of "
        "include_ccdecays, and every table (mother set, every line's bf, daughters, PHOTOS flag, model, parameters) "
        "is compared with the tables the file states under the C03 conjugation rule. Exhaustive over the stated flag "
        "lattice (1620 files, 1..15 tables of up to 7 lines), every permutation of 5 (quick) / 6-7 (thorough) chosen "
        "statements in three statement groups, and files whose daughters run through the EvtGen name table (a "
        "stride sample in the quick tier, all 806 names in the thorough tier). charge_conjugate_name itself is "
        "trusted here (it is the subject of C04). Not covered: files violating the section-7 preconditions "
        "(P-CC, P-CD1, P-SELF, P-MARK, P-COPY1, P-COPY2); warnings are not compared."),
    "assumptions": ["A-CC charge_conjugate_name is the PDG conjugation of the EvtGen name table (checked by C04)",
                    "X-LARK", "X-COPY", "X-PART"],
    "trusted_base": ["specs/decrel.py (renderer, conjugation rule, expected tables)", "particle data tables"],
    "not_applicable_clauses": [],
}


# ------------------------------------------------------------------------------------------ one comparison

def _classify(stmts, include_cc, msg):
    cds = {s[1] for s in stmts if s[0] == "CDecay"}
    blocks = {s[1] for s in stmts if s[0] == "Decay"}
    if not include_cc:
        return FN_PARSE, "parse.no_conjugate_table_when_disabled"
    want = R.expected_tables(stmts, True)
    for x in sorted(cds):
        if f"[{x}]" in msg:
            if x in blocks:
                return FN_ADD, "cdecay.decay_block_takes_precedence"
            return FN_ADD, "cdecay.table_is_conjugate_of_source"
    if "mothers" in msg or "number_of_decays" in msg:
        if any(x not in want for x in cds):
            return FN_ADD, "cdecay.without_source_adds_nothing_or_table_missing"
        return FN_ADD, "cdecay.table_created_once"
    return FN_ADD, "cdecay.source_and_other_tables_untouched"


def check_one(stmts, include_cc):
    """None if the clause holds; else a message."""
    text = R.render(stmts)
    try:
        p = R.parse_text(text, include_cc)
    except Exception as ex:
        return f"parse(include_ccdecays={include_cc}) raised {type(ex).__name__}: {ex}"
    return R.compare_tables(p, R.expected_tables(stmts, include_cc), f"tables(include_ccdecays={include_cc})")


def _interesting(stmts):
    """A case is non-trivial when the file has a CDecay statement whose treatment is observable: a conjugate
    table must be created, or must not be (Decay block present / no source)."""
    return any(s[0] == "CDecay" for s in stmts)


def _minimise(stmts, include_cc):
    """Fewest statements / lines with the same kind of failure (an exception stays an exception, a difference a difference)."""
    first = check_one(stmts, include_cc) or ""
    raised = " raised " in first

    def fails(cand):
        msg = check_one(cand, include_cc)
        return msg is not None and (" raised " in msg) == raised
    return R.minimise_stmts(stmts, fails, budget=60, line_budget=20)


def _work(chunk):
    out = dict(evals=0, hashes=[], failures=[], errors=[])
    for stmts in chunk:
        nontriv = _interesting(stmts)
        for cc in (True, False):
            out["evals"] += 1
            try:
                msg = check_one(stmts, cc)
            except Exception as ex:         # a crash of the oracle itself
                out["errors"].append(f"oracle crashed: {type(ex).__name__}: {ex}")
                continue
            if nontriv:
                out["hashes"].append(R.digest([stmts, cc]))
            if msg and len(out["failures"]) < 3:
                small = _minimise(stmts, cc)
                msg2 = check_one(small, cc) or msg
                fn, clause = _classify(small, cc, msg2)
                out["failures"].append(dict(function=fn, clause=clause, what=msg2,
                                            input={"stmts": small, "include_ccdecays": cc, "text": R.render(small)},
                                            replay={"module": "checks.C03", "function": "replay"}))
            elif msg:
                out["failures"].append(None)    # counted, not detailed
    return out


def replay(input):
    stmts, cc = input["stmts"], input["include_ccdecays"]
    msg = check_one(stmts, cc)
    if msg:
        return False, msg
    return True, f"tables equal the stated ones (include_ccdecays={cc})"


# ------------------------------------------------------------------------------------------ case families

def _lattice(tier, rng):
    for f in R.all_scenarios():
        units = R.scenario(**f)
        yield R.flatten(units)
        if tier == "thorough":
            yield R.flatten(units[::-1])
            u = list(units)
            rng.shuffle(u)
            yield R.flatten(u)


def _find(units, pred):
    return [i for i, u in enumerate(units) if pred(u[0])]


def _permutation_groups(tier):
    """Every permutation of a chosen group of statements inside a large file (>= 8 tables)."""
    k = 5 if tier == "quick" else 6
    groups = []
    for orient in ("fwd", "rev"):
        units = R.scenario(cdecay_db=True, alias_pair=orient, alias_side=0, copy_src=orient, precedence=False,
                           nosrc=1, fillers=1, kpair=orient)
        idx = {
            "db": _find(units, lambda s: s[:2] in (["Decay", "D+"], ["CDecay", "D-"], ["Alias", "MyK-", ], ) or
                        s[0] == "ChargeConj" and "MyK+" in s or s[:2] == ["CDecay", "anti-Lambda_b0"] or
                        s[:2] == ["Decay", "K_S0"] or s[:2] == ["Define", "dm"]),
            "alias": _find(units, lambda s: s[:2] in (["Alias", "MyD+"], ["Alias", "MyD-"], ["Decay", "MyD+"],
                                                      ["CDecay", "MyD-"]) or s[0] == "ChargeConj" and "MyD+" in s
                           or s[:2] == ["Decay", "pi0"] or s[:2] == ["ModelAlias", "MA1"]),
            "copy": _find(units, lambda s: s[0] == "CopyDecay" or s[0] == "ChargeConj" and "MyCp+" in s or
                          s[:2] in (["CDecay", "MyCp-"], ["Decay", "D+"], ["CDecay", "D-"], ["Decay", "J/psi"],
                                    ["Alias", "MyD+"])),
        }
        for name, ix in idx.items():
            kk = k + 1 if (tier == "thorough" and name == "copy" and orient == "fwd") else k
            groups.append((units, ix[:kk]))
    # precedence + both sides of the alias pair, with > 3 tables
    units = R.scenario(cdecay_db=True, alias_pair="rev", alias_side=1, copy_src="none", precedence=True, nosrc=2,
                       fillers=2, kpair="none")
    ix = _find(units, lambda s: s[:2] in (["Decay", "D+"], ["Decay", "D-"], ["CDecay", "D-"], ["Decay", "MyD-"],
                                          ["CDecay", "MyD+"], ["CDecay", "MyNoPartner"], ["Decay", "B0"]) or
               s[0] == "ChargeConj")
    groups.append((units, ix[:k]))
    return groups


def _permutations(tier):
    for units, ix in _permutation_groups(tier):
        for u in R.permute(units, ix):
            yield R.flatten(u)


def _name_table_files(tier, rng):
    """Files whose daughters run through the EvtGen name table: 6 tables x 6 lines x 4 daughters per file,
    mothers = non-self-conjugate data-base particles and one alias pair, CDecay for every conjugate."""
    from decaylanguage.utils.particleutils import charge_conjugate_name as cc
    names = R.evtgen_names()
    mothers = [n for n in ("D+", "B0", "B+", "D0", "Lambda_b0", "D_s+", "B_s0", "Lambda_c+", "Xi_c0", "tau-", "K*+",
                           "Sigma_c++", "B_c+", "Omega_c0", "K+", "D*+") if cc(n) != n and not cc(n).startswith("ChargeConj(")]
    orders = [names]
    if tier == "quick":
        orders = [names[::3] + names[1::40]]
    else:
        for _ in range(3):
            n2 = list(names)
            rng.shuffle(n2)
            orders.append(n2)
    models = [("PHSP", []), ("SVV_HELAMP", ["1.0", "0.0", "dm", "0.0", "-dm", "0.0"]), ("VSS", []), ("MA1", []),
              ("ISGW2", []), ("HQET2", ["1.18", "1.074"])]
    for oi, order in enumerate(orders):
        per_file = 6 * 6 * 4
        for fi, start in enumerate(range(0, len(order), per_file)):
            block = order[start:start + per_file]
            orient = "fwd" if (fi + oi) % 2 == 0 else "rev"
            stmts = list(R.COMMON) + [R._pair("MyD+", "MyD-", orient), R._pair("MyK+", "MyK-", "rev" if orient == "fwd" else "fwd")]
            ms = [mothers[(fi * 5 + j) % len(mothers)] for j in range(5)]
            ms = list(dict.fromkeys(ms)) + ["MyD+"]
            cds = []
            for ti, m in enumerate(ms):
                ds = block[ti * 24:(ti + 1) * 24]
                if not ds:
                    break
                lines = []
                for li in range(0, len(ds), 4):
                    four = ds[li:li + 4]
                    if (li // 4) % 3 == 0:
                        four = four[:3] + ["MyK-" if li % 8 == 0 else "MyK+"] + four[3:]
                    mod, par = models[(li // 4 + ti) % len(models)]
                    lines.append([f"0.{(li // 4) + 1}", four, (li // 4) % 2 == 1, mod, par])
                stmts.append(["Decay", m, lines])
                cds.append(["CDecay", "MyD-" if m == "MyD+" else cc(m)])
            stmts += cds if fi % 2 == 0 else []
            if fi % 2 == 1:
                stmts = stmts[:7] + cds + stmts[7:]       # CDecay statements ahead of the Decay blocks
            yield stmts


def run(tier="quick", seed=0):
    t0 = time.time()
    seed = seed if tier == "thorough" else 0      # VERIF_SEED only matters in the thorough tier (README)
    rng = random.Random(seed)
    families = [
        ("C03.lattice", "every combination of the flags cdecay_db x alias pair (none/fwd/rev, Decay on either member) x "
                        "copied source (none/fwd/rev) x own Decay block for the CDecay subject x CDecay without source "
                        "(known conjugate without table / no conjugate) x 0/3/6(+2 CDecay) further tables x ChargeConj "
                        "orientation of the daughter aliases: 1620 files with 1..15 tables of 1..7 lines"
                        + ("; each in canonical, reversed and one seeded random statement order" if tier == "thorough" else ""),
         list(_lattice(tier, rng)), True),
        ("C03.orders", f"every permutation of {5 if tier == 'quick' else '6 (one group 7)'} chosen statements (Decay source, CDecay, "
                       "ChargeConj, Alias, CopyDecay, Define/ModelAlias, a filler table) in 7 statement groups of files "
                       "with 6..12 tables, both ChargeConj orientations",
         list(_permutations(tier)), True),
        ("C03.name_table", ("daughters running through all 806 names of the EvtGen name table (each name at least four "
                            "times: table order and 3 seeded shuffles)" if tier == "thorough" else
                            "daughters from a stride sample of the EvtGen name table (every 3rd name plus every 40th from 1)")
         + ", 6 tables x 6 lines x 4-5 daughters per file incl. aliased, self-conjugate and unknown names, CDecay of every "
           "mother's conjugate before or after the Decay blocks",
         list(_name_table_files(tier, rng)), tier == "thorough"),
    ]
    bounded = []
    for name, bound, cases, exhaustive in families:
        t1 = time.time()
        res = R.pmap(_work, R.chunks(cases, 8), chunksize=1)
        hashes = set()
        failures, errors, evals, nfail = [], [], 0, 0
        for r in res:
            evals += r["evals"]
            hashes.update(r["hashes"])
            for f in r["failures"]:
                nfail += 1
                if f is not None and len(failures) < 5:
                    failures.append(f)
            errors += r["errors"]
        seen = set()
        uniq = []
        for f in failures:
            k = (f["clause"], R.digest(f["input"]["stmts"]))
            if k not in seen:
                seen.add(k)
                uniq.append(f)
        bounded.append(dict(
            name=name, function=FN_ADD, bound=bound, evaluations=evals, distinct_nontrivial=len(hashes),
            rule="one evaluation = one (file, include_ccdecays) pair: real parse + comparison of all tables with the "
                 "stated ones; distinct_nontrivial = distinct (statement list, switch) pairs whose file contains at "
                 "least one CDecay statement",
            exhaustive=exhaustive, samples=[{"text": R.render(cases[0])[:600]}, {"text": R.render(cases[-1])[:600]}] if cases else [],
            failures=uniq, errors=sorted(set(errors))[:5], failing_evaluations=nfail, seconds=round(time.time() - t1, 1)))
    return {"bounded": bounded, "seconds": round(time.time() - t0, 1)}
