"""C08 -- copied and derived tables are independent; queries never change the parser (bounded stand-in).

Oracles (all relational, from the property statement; only the real code runs):
  copy      CopyDecay NEW OLD: rows(NEW) == rows(OLD) on the same instance; every other table equals the one of
            the same file parsed without that statement (source untouched); NEW serves as the source of a CDecay
            (specs.decrel.expected_tables); the trees of copied / conjugated tables share no mutable object
            (Tree, children list, Token) with any other table of the instance (representation check on
            _parsed_decays -- the state the property names).
  histories after every step of a history of public queries -- with the returned value mutated in place --
            snapshot(instance) == snapshot(fresh instance parsed from the same text).
  reparse   calling parse() again on the same instance gives the same snapshot.
"""
from __future__ import annotations

import random
import time

from specs import decrel as R

P = "decaylanguage.dec.dec.DecFileParser."
SENTINEL = "__MUTATED__"

META = {
    "level": "other",
    "explanation": (
        "Bounded. copy: 1080 lattice files with a CopyDecay plus 14 hand-built copy variants (several copies of one "
        "source, copy of an alias-mother table, copy declared before its source, copy used as CDecay source in both "
        "ChargeConj orientations); rows of NEW and OLD compared, all other tables compared with the parse of the file "
        "without the statement, object-disjointness of copied / conjugated trees from all other tables. histories.pairs: "
        "on one parsed instance, every ordered pair (query A; one in-place mutation of A's result; query B) with A over "
        "all public queries and argument variants, B over one call of every public query, mutations = append / pop / "
        "overwrite first / overwrite last / clear (lists) and add / pop / overwrite / clear (dicts) on the first and last "
        "container of every structural path shape at every depth, plus the unmutated pair; snapshot compared with a "
        "fresh instance after every pair. histories.random: seeded random histories of length <= 8 (queries, mutations, "
        "re-parse), snapshot after every step. reparse: parse() two and three times, and switching include_ccdecays back "
        "and forth. Files combine Decay, CopyDecay, CDecay, ModelAlias and Define (ModelAlias MA1 with the Define'd "
        "parameter dm used in three blocks). Not covered: grammar()/grammar_info()/load_additional_decay_models (not "
        "queries of the parsed content), histories longer than 8, files violating P-COPY1/P-COPY2/P-ACYC."),
    "assumptions": ["X-LARK", "X-COPY", "X-PART", "P-COPY1", "P-COPY2", "P-ACYC"],
    "trusted_base": ["specs/decrel.py (snapshot, renderer, expected tables)"],
    "not_applicable_clauses": [],
}

# ------------------------------------------------------------------------------------------ texts

SMALL = dict(cdecay_db=True, alias_pair="none", copy_src="fwd", fillers=1, others=True)   # 7 tables
TEXT_FLAGS = [
    SMALL,
    dict(cdecay_db=True, alias_pair="fwd", copy_src="fwd", fillers=2, others=True),                       # 14 tables
    dict(cdecay_db=True, alias_pair="rev", alias_side=1, copy_src="rev", precedence=True, nosrc=1, fillers=1, others=True),
    dict(cdecay_db=False, alias_pair="fwd", copy_src="fwd", fillers=2, kpair="none", others=False),
    dict(cdecay_db=True, alias_pair="none", copy_src="rev", fillers=0, others=False, nosrc=2),
]


def _text(flags):
    return R.render(R.flatten(R.scenario(**flags)))


def copy_variants():
    base = R.flatten(R.scenario(cdecay_db=True, alias_pair="fwd", copy_src="none", fillers=1))
    out = []
    out.append(base + [["CopyDecay", "CpA", "D+"], ["CopyDecay", "CpB", "D+"], ["CopyDecay", "CpC", "D+"]])
    out.append([["CopyDecay", "CpA", "D+"]] + base)                                    # copy declared first
    out.append(base + [["CopyDecay", "CpMy", "MyD+"]])                                  # alias mother
    out.append(base + [["CopyDecay", "CpK", "K_S0"], ["CopyDecay", "CpP", "pi0"], ["CopyDecay", "CpJ", "J/psi"]])
    out.append(base + [["CopyDecay", "CpNone", "NoSuchTable"]])                         # miss adds nothing
    out.append(base + [["CopyDecay", "CpA", "D+"], ["CopyDecay", "CpNone", "NoSuchTable"], ["CopyDecay", "CpB", "MyD+"]])
    for orient in ("fwd", "rev"):
        for first in (0, 1):
            extra = [["CopyDecay", "Cp+", "D+"], R._pair("Cp+", "Cp-", orient), ["CDecay", "Cp-"]]
            out.append(base + extra if first == 0 else extra[::-1] + base)
            extra2 = [["CopyDecay", "CpM+", "MyD+"], R._pair("CpM+", "CpM-", orient), ["CDecay", "CpM-"],
                      ["CopyDecay", "Cp2+", "D+"], R._pair("Cp2+", "Cp2-", orient), ["CDecay", "Cp2-"]]
            out.append(base + extra2 if first == 0 else extra2 + base)
    return out


# ------------------------------------------------------------------------------------------ copy clause

def _regions(p):
    """For every table of the instance: the ids of all mutable objects of its tree (Tree nodes, children lists, Tokens)."""
    from lark import Token, Tree
    out = []
    for t in p._parsed_decays:
        ids = set()
        stack = [t]
        while stack:
            n = stack.pop()
            if isinstance(n, Tree):
                ids.add(id(n))
                ids.add(id(n.children))
                stack.extend(n.children)
            elif isinstance(n, Token):
                ids.add(id(n))
        out.append((str(t.children[0].children[0].value), ids))
    return out


def check_copy(stmts):
    """None or (function, clause, message)."""
    text = R.render(stmts)
    p = R.parse_text(text, True)
    copies = [(s[1], s[2]) for s in stmts if s[0] == "CopyDecay"]
    blocks = {s[1] for s in stmts if s[0] == "Decay"}
    mothers = [str(m) for m in p.list_decay_mother_names()]
    for new, old in copies:
        if old not in blocks:
            if new in mothers:
                return P + "_add_decays_to_be_copied", "copy.miss_adds_nothing", f"CopyDecay {new} {old}: {old} has no Decay block but {new} got a table"
            continue
        if mothers.count(new) != 1:
            return P + "_add_decays_to_be_copied", "copy.table_created_once", f"CopyDecay {new} {old}: {new} occurs {mothers.count(new)} times among the mothers {mothers}"
        d = R.first_diff(R.table_rows(p, new), R.table_rows(p, old), f"rows({new}) vs rows({old})")
        if d:
            return P + "_add_decays_to_be_copied", "copy.equal_to_source_but_mother", d
    # everything else as in the same file without the CopyDecay statements (and without the CDecay of copies' conjugates)
    d = R.compare_tables(p, R.expected_tables(stmts, True), "tables")
    if d:
        return P + "_add_decays_to_be_copied", "copy.usable_as_cdecay_source_and_others_untouched", d
    without = [s for s in stmts if s[0] != "CopyDecay"]
    q = R.parse_text(R.render(without), True)
    for m in [str(x) for x in q.list_decay_mother_names()]:
        d = R.first_diff(R.table_rows(p, m), R.table_rows(q, m), f"rows({m}) with vs without CopyDecay")
        if d:
            return P + "_add_decays_to_be_copied", "copy.source_and_other_tables_untouched", d
    # representation: derived tables are disjoint from every other table
    derived = {new for new, old in copies if old in blocks} | ({s[1] for s in stmts if s[0] == "CDecay"} - blocks)
    regs = _regions(p)
    for i, (mi, ri) in enumerate(regs):
        for j, (mj, rj) in enumerate(regs):
            if i < j and (mi in derived or mj in derived) and ri & rj:
                fn = "_add_decays_to_be_copied" if (mi in dict(copies) or mj in dict(copies)) else "_add_charge_conjugate_decays"
                return P + fn, "derived_table_shares_no_state", f"tables {mi} and {mj} share {len(ri & rj)} tree objects (Tree / children list / Token)"
    return None


def _work_copy(chunk):
    out = dict(evals=0, hashes=[], failures=[], nfail=0, errors=[])
    for stmts in chunk:
        out["evals"] += 1
        try:
            res = check_copy(stmts)
        except Exception as ex:
            res = (P + "parse", "copy.parse_raises", f"{type(ex).__name__}: {ex}")
        if any(s[0] == "CopyDecay" for s in stmts):
            out["hashes"].append(R.digest(stmts))
        if res:
            out["nfail"] += 1
            if len(out["failures"]) < 2:
                def fails(st, clause=res[1]):
                    try:
                        r = check_copy(st)
                        return r is not None and r[1] == clause
                    except Exception:
                        return clause == "copy.parse_raises"
                small = R.minimise_stmts(stmts, fails, budget=50, line_budget=16)
                try:
                    res2 = check_copy(small) or res
                except Exception as ex:
                    res2 = (P + "parse", "copy.parse_raises", f"{type(ex).__name__}: {ex}")
                out["failures"].append(dict(function=res2[0], clause=res2[1], what=res2[2],
                                            input={"kind": "copy", "stmts": small, "text": R.render(small)},
                                            replay={"module": "checks.C08", "function": "replay"}))
    return out


# ------------------------------------------------------------------------------------------ histories

def query_list(fresh_snap, n_prim=4):
    """All public queries with argument variants for one text: [(name, args, kwargs)], and the B subset."""
    mothers = fresh_snap["list_decay_mother_names"]
    cds = [m for m in fresh_snap["list_charge_conjugate_decays"] if m in mothers]
    cps = [m for m in (k for k, _ in fresh_snap["dict_decays2copy"]["dict"]) if m in mothers]
    prim = list(dict.fromkeys([mothers[0]] + cds[-1:] + cps[:1] + mothers[-1:]))[:n_prim]
    qs = [(n, [], {}) for n in ("list_decay_mother_names", "number_of_decays", "repr", "str", "dict_decays2copy",
                                "dict_definitions", "dict_model_aliases", "dict_aliases", "dict_charge_conjugates",
                                "get_particle_property_definitions", "dict_pythia_definitions", "dict_jetset_definitions",
                                "dict_lineshape_settings", "list_lineshapePW_definitions", "global_photos_flag",
                                "list_charge_conjugate_decays")]
    b = list(qs)
    rows = dict((a, r) for a, r in fresh_snap["tables"])
    for i, m in enumerate(prim):
        st = sorted({d for r in rows.get(m, []) for d in r["fs"]})[:2]
        per = [("list_decay_modes", [m], {}), ("print_decay_modes", [m], {}),
               ("print_decay_modes", [m], {"normalize": True, "ascending": True}),
               ("print_decay_modes", [m], {"print_model": False, "display_photos_keyword": False, "scale": 0.5}),
               ("build_decay_chains", [m], {}), ("build_decay_chains", [m], {"stable_particles": st}),
               ("expand_decay_modes", [m], {})]
        qs += per
        if i == 0:
            b += [per[0], per[1], per[4], per[5], per[6]]
    extra = [("list_decay_modes", ["NoSuchMother"], {}), ("build_decay_chains", ["NoSuchMother"], {}),
             ("print_decay_modes", [mothers[0]], {"normalize": True, "scale": 0.5}),
             ("list_decay_modes", ["D+"], {"pdg_name": True})]
    qs += extra
    b += extra[:1]
    return qs, b


def _containers(v, path=()):
    if isinstance(v, list):
        yield path, v
        for i, x in enumerate(v):
            yield from _containers(x, path + (i,))
    elif isinstance(v, dict):
        yield path, v
        for k, x in v.items():
            yield from _containers(x, path + (["k", k],))
    elif isinstance(v, tuple):
        for i, x in enumerate(v):
            yield from _containers(x, path + (i,))


def _shape(path):
    return tuple("*" if isinstance(e, int) else ("k", str(e[1])) for e in path)


BOTH_ENDS = [False]      # quick tier: first container of every path shape; thorough: first and last


def mutations_of(value):
    """[{"path", "op"}]: on the first (and, thorough tier, the last) container of every path shape (every depth): all ops."""
    by_shape = {}
    for path, c in _containers(value):
        by_shape.setdefault(_shape(path), []).append((path, c))
    out = []
    for shape, lst in by_shape.items():
        picks = [lst[0]] + ([lst[-1]] if len(lst) > 1 and BOTH_ENDS[0] else [])
        for path, c in picks:
            if isinstance(c, list):
                ops = ["append", "clear"] + (["pop", "set_first", "set_last"] if c else [])
            else:
                ops = ["add", "clear"] + (["pop", "set_first", "set_last"] if c else [])
            for op in ops:
                out.append({"path": [list(e) if isinstance(e, list) else e for e in path], "op": op})
    return out


def apply_mutation(value, mut):
    c = value
    for e in mut["path"]:
        c = c[e[1]] if isinstance(e, list) else c[e]
    op = mut["op"]
    if isinstance(c, list):
        if op == "append":
            c.append(SENTINEL)
        elif op == "clear":
            c.clear()
        elif op == "pop":
            c.pop()
        elif op == "set_first":
            c[0] = SENTINEL
        elif op == "set_last":
            c[-1] = [SENTINEL]
    elif isinstance(c, dict):
        keys = list(c)
        if op == "add":
            c[SENTINEL] = SENTINEL
        elif op == "clear":
            c.clear()
        elif op == "pop":
            c.pop(keys[0])
        elif op == "set_first":
            c[keys[0]] = SENTINEL
        elif op == "set_last":
            c[keys[-1]] = {SENTINEL: [SENTINEL]}
    else:
        raise TypeError("path does not lead to a list or dict")


def run_step(p, step, include_cc=True):
    if step["q"] == "parse":
        R.reparse(p, step.get("include_cc", include_cc))
        return
    st, val, _ = R.call_query(p, step["q"], step.get("args") or [], step.get("kwargs") or {})
    if step.get("mut") and st == "ok":
        try:
            apply_mutation(val, step["mut"])
        except (IndexError, KeyError, TypeError):
            pass     # the path does not exist in this answer (answers already differ: the snapshot will tell)


class Session:
    """One real parser instance that is re-used while every comparison succeeds."""

    def __init__(self, text, include_cc=True, light=False):
        self.text, self.cc = text, include_cc
        fresh = R.parse_text(text, include_cc)
        self.fresh = R.snapshot(fresh)
        self.chain_mothers = self.fresh["chain_mothers"]
        self.printed = True
        if light:
            # same queries, chain building / expansion / printing for the first and the last chain mother only
            self.chain_mothers = list(dict.fromkeys(self.chain_mothers[:1] + self.chain_mothers[-1:]))
            self.printed = list(self.chain_mothers)
            self.fresh = R.snapshot(fresh, chain_mothers=self.chain_mothers, printed=self.printed)
        self.new_instance()

    def new_instance(self):
        self.p = R.parse_text(self.text, self.cc)
        self.log = []

    def compare(self):
        return R.first_diff(R.snapshot(self.p, chain_mothers=self.chain_mothers, printed=self.printed), self.fresh, "snapshot")

    def step(self, step):
        self.log.append(step)
        run_step(self.p, step, self.cc)
        return self.compare()


def replay_history(text, include_cc, history):
    """Fresh instance, the given steps, comparison after every step. Returns (step index, diff) or None."""
    s = Session(text, include_cc)
    for i, st in enumerate(history):
        try:
            d = s.step(st)
        except Exception as ex:
            d = f"step raised {type(ex).__name__}: {ex}"
        if d:
            return i, d
    return None


def _failure_from(sess, history, diff):
    """Isolate: the history alone on a new instance; else the whole log of the shared instance (shrunk)."""
    iso = replay_history(sess.text, sess.cc, history)
    if iso:
        hist = history[: iso[0] + 1]
        what = iso[1]
    else:
        def fails(h):
            return replay_history(sess.text, sess.cc, h) is not None
        hist = R.shrink_list(list(sess.log), fails, budget=40) if fails(list(sess.log)) else list(sess.log)
        r = replay_history(sess.text, sess.cc, hist)
        what = r[1] if r else diff + " (seen only on the shared instance; not reproduced in isolation)"
    first = next((s for s in hist if s["q"] != "parse"), {"q": "parse"})
    qn = first["q"]
    fn = P + ("__repr__" if qn in ("repr", "str") else qn)
    return dict(function=fn, clause="query_history_leaves_answers_equal_to_fresh_instance",
                what=f"after {len(hist)} step(s): {what}",
                input={"kind": "history", "text": sess.text, "include_ccdecays": sess.cc, "history": hist},
                replay={"module": "checks.C08", "function": "replay"})


def _sample_pairs(text):
    fresh = R.parse_text(text)
    qs, bs = query_list(R.snapshot(fresh))
    out = []
    for name, args, kwargs in qs:
        if name in ("build_decay_chains", "dict_jetset_definitions"):
            st, val, _ = R.call_query(fresh, name, args, kwargs)
            muts = mutations_of(val)
            out.append({"history": [{"q": name, "args": args, "kwargs": kwargs, "mut": muts[len(muts) // 2]},
                                    {"q": bs[-2][0], "args": bs[-2][1], "kwargs": bs[-2][2]}], "mutations_of_this_answer": len(muts)})
            if len(out) == 2:
                break
    return out


def _no_session(out, text, cc, ex):
    """The snapshot of a freshly parsed instance cannot even be taken twice with the same result."""
    out["evals"] += 1
    out["nfail"] += 1
    out["failures"].append(dict(function=P + "parse", clause="query_history_leaves_answers_equal_to_fresh_instance",
                                what=f"snapshot of a fresh instance failed: {type(ex).__name__}: {ex}",
                                input={"kind": "history", "text": text, "include_ccdecays": cc, "history": []},
                                replay={"module": "checks.C08", "function": "replay"}))
    return out


def _work_pairs(task):
    """task = (text, [A query indices]) : all (A, mutation, B) for those A."""
    text, a_idx, n_prim, lo, hi = task
    out = dict(evals=0, hashes=[], failures=[], nfail=0, errors=[])
    try:
        sess = Session(text, light=True)
        qs, bs = query_list(R.snapshot(R.parse_text(text)), n_prim)
        if sess.compare():
            raise RuntimeError("two fresh instances differ: " + sess.compare())
    except Exception as ex:
        return _no_session(out, text, True, ex)
    tkey = R.digest(text)
    for ai in a_idx:
        name, args, kwargs = qs[ai]
        st, val, _ = R.call_query(R.parse_text(text), name, args, kwargs)
        muts = [None] + (mutations_of(val) if st == "ok" else [])
        for mut in muts[lo:hi]:
            a_step = {"q": name, "args": args, "kwargs": kwargs, "mut": mut}
            histories = [[a_step]] + [[a_step, {"q": bn, "args": ba, "kwargs": bk, "mut": None}] for bn, ba, bk in bs]
            for h in histories:
                d = None
                try:
                    for stp in h:
                        sess.log.append(stp)
                        run_step(sess.p, stp)
                    d = sess.compare()
                except Exception as ex:
                    d = f"history raised {type(ex).__name__}: {ex}"
                out["evals"] += 1
                out["hashes"].append(R.digest([tkey, h]))
                if d:
                    out["nfail"] += 1
                    if len(out["failures"]) < 2:
                        out["failures"].append(_failure_from(sess, h, d))
                    sess.new_instance()
                elif len(sess.log) > 4000:
                    sess.new_instance()
    return out


def random_history(rng, qs, fresh_values, max_len=8):
    n = rng.randint(2, max_len)
    h = []
    for _ in range(n):
        if rng.random() < 0.06:
            h.append({"q": "parse"})
            continue
        i = rng.randrange(len(qs))
        name, args, kwargs = qs[i]
        muts = fresh_values[i]
        mut = rng.choice(muts) if muts and rng.random() < 0.6 else None
        h.append({"q": name, "args": args, "kwargs": kwargs, "mut": mut})
    return h


def _work_random(task):
    text, cc, seeds = task
    out = dict(evals=0, hashes=[], failures=[], nfail=0, errors=[])
    try:
        sess = Session(text, cc)
        qs, _ = query_list(sess.fresh)
        if sess.compare():
            raise RuntimeError("two fresh instances differ: " + sess.compare())
    except Exception as ex:
        return _no_session(out, text, cc, ex)
    ref = R.parse_text(text, cc)
    fresh_values = []
    for name, args, kwargs in qs:
        st, val, _ = R.call_query(ref, name, args, kwargs)
        fresh_values.append(mutations_of(val) if st == "ok" else [])
    for seed in seeds:
        rng = random.Random(seed)
        h = random_history(rng, qs, fresh_values)
        sess.new_instance()
        for k, stp in enumerate(h):
            try:
                d = sess.step(stp)
            except Exception as ex:
                d = f"step raised {type(ex).__name__}: {ex}"
            out["evals"] += 1
            if d:
                out["nfail"] += 1
                if len(out["failures"]) < 2:
                    out["failures"].append(_failure_from(sess, h[: k + 1], d))
                break
        out["hashes"].append(R.digest([R.digest(text), cc, h]))
    return out


# ------------------------------------------------------------------------------------------ reparse

def check_reparse(text, plan):
    """plan = list of include_ccdecays values for successive parse() calls on ONE instance; after each call the
    snapshot must equal that of a fresh instance parsed once with the same value."""
    p = None
    for k, cc in enumerate(plan):
        if p is None:
            p = R.parse_text(text, cc)
        else:
            R.reparse(p, cc)
        fresh = R.snapshot(R.parse_text(text, cc))
        d = R.first_diff(R.snapshot(p, chain_mothers=fresh["chain_mothers"]), fresh, f"snapshot after parse #{k + 1}")
        if d:
            return d
    return None


PLANS = [[True, True], [True, True, True], [False, False], [True, False, True], [False, True, False, True]]


def _work_reparse(chunk):
    out = dict(evals=0, hashes=[], failures=[], nfail=0, errors=[])
    for text, plan in chunk:
        try:
            d = check_reparse(text, plan)
        except Exception as ex:
            d = f"re-parse raised {type(ex).__name__}: {ex}"
        out["evals"] += 1
        out["hashes"].append(R.digest([text, plan]))
        if d:
            out["nfail"] += 1
            if len(out["failures"]) < 2:
                out["failures"].append(dict(function=P + "parse", clause="parsing_again_gives_same_answers", what=d,
                                            input={"kind": "reparse", "text": text, "plan": plan},
                                            replay={"module": "checks.C08", "function": "replay"}))
    return out


# ------------------------------------------------------------------------------------------ replay / run

def replay(input):
    kind = input.get("kind")
    if kind == "copy":
        try:
            res = check_copy(input["stmts"])
        except Exception as ex:
            return False, f"{type(ex).__name__}: {ex}"
        return (False, f"{res[1]}: {res[2]}") if res else (True, "copied tables equal their sources, others untouched, regions disjoint")
    if kind == "reparse":
        d = check_reparse(input["text"], input["plan"])
        return (False, d) if d else (True, "re-parsing gives the same snapshot")
    try:
        s = Session(input["text"], input.get("include_ccdecays", True))
        d = s.compare()
        if d:
            return False, "two fresh instances differ: " + d
        r = replay_history(input["text"], input.get("include_ccdecays", True), input["history"])
    except Exception as ex:
        return False, f"{type(ex).__name__}: {ex}"
    if r:
        return False, f"after step {r[0] + 1} ({input['history'][r[0]]['q']}): {r[1]}"
    return True, "snapshot equals that of a fresh instance after every step"


def _collect(res):
    hashes, failures, errors, evals, nfail = set(), [], [], 0, 0
    for r in res:
        evals += r["evals"]
        hashes.update(r["hashes"])
        nfail += r["nfail"]
        failures += r["failures"]
        errors += r["errors"]
    seen, uniq = set(), []
    for f in failures:
        k = (f["function"], f["clause"])
        if sum(1 for g in uniq if (g["function"], g["clause"]) == k) < 2 and R.digest(f["input"]) not in seen:
            seen.add(R.digest(f["input"]))
            uniq.append(f)
    return evals, len(hashes), uniq[:6], nfail, sorted(set(errors))[:5]


def run(tier="quick", seed=0):
    t0 = time.time()
    seed = seed if tier == "thorough" else 0      # VERIF_SEED only matters in the thorough tier (README)
    rng = random.Random(seed)
    bounded = []
    BOTH_ENDS[0] = tier == "thorough"

    # ---- copy
    t1 = time.time()
    cases = [R.flatten(R.scenario(**f)) for f in R.all_scenarios() if f["copy_src"] != "none"
             and (tier == "thorough" or (f["fillers"] != 1 and f["kpair"] != "rev"))]
    cases += copy_variants()
    ev, dn, fl, nf, er = _collect(R.pmap(_work_copy, R.chunks(cases, 6), chunksize=1))
    bounded.append(dict(
        name="C08.copy", function=P + "_add_decays_to_be_copied",
        bound=f"{len(cases)} files: every lattice file with a CopyDecay (copy used as CDecay source, both ChargeConj orientations, "
              "1..15 tables of 1..7 lines" + ("" if tier == "thorough" else ", filler levels 0 and 2, daughter-alias pair fwd / absent") + ") + 14 variants (three copies of one "
              "source, copy before its source, copies of alias / self-conjugate mothers, CopyDecay of a missing table)",
        evaluations=ev, distinct_nontrivial=dn,
        rule="one evaluation = one file: rows(NEW)==rows(OLD) for every CopyDecay, all tables == stated tables, all non-copied "
             "tables == those of the file parsed without CopyDecay, object-disjointness of every copied / conjugated tree; "
             "distinct_nontrivial = distinct files containing a CopyDecay statement",
        exhaustive=True, samples=[{"text": R.render(cases[-1])[:500]}], failures=fl, failing_evaluations=nf, errors=er,
        seconds=round(time.time() - t1, 1)))

    # ---- pairs
    t1 = time.time()
    texts = [_text(TEXT_FLAGS[0])] + ([_text(TEXT_FLAGS[4])] if tier == "thorough" else [])
    tasks = []
    n_prim = 2 if tier == "quick" else 4
    for text in texts:
        ref = R.parse_text(text)
        qs, bs = query_list(R.snapshot(ref), n_prim)
        for i, (name, args, kwargs) in enumerate(qs):
            st, val, _ = R.call_query(ref, name, args, kwargs)
            n_mut = 1 + (len(mutations_of(val)) if st == "ok" else 0)
            tasks += [(text, [i], n_prim, lo, lo + 8) for lo in range(0, n_mut, 8)]
    rng.shuffle(tasks)
    ev, dn, fl, nf, er = _collect(R.pmap(_work_pairs, tasks, chunksize=1))
    bounded.append(dict(
        name="C08.histories.pairs", function=P + "build_decay_chains",
        bound=f"{len(texts)} generated file(s) (7 tables incl. CopyDecay, CDecay, ModelAlias with Define'd parameter, every other "
              f"statement kind): A over {len(qs)} query calls (all public queries, {n_prim} mothers, argument variants, failing calls), "
              f"every mutation (5 list ops / 5 dict ops on the first{' and last' if tier == 'thorough' else ''} container of every path shape at every depth, or none), "
              f"B over {len(bs)} query calls (every public query once) or no B",
        evaluations=ev, distinct_nontrivial=dn,
        rule="one evaluation = one history (A, mutation of A's result, [B]) run on the shared instance followed by the full "
             "snapshot comparison (all tables and declaration queries; chains / expansion / printing for the first and last "
             "chain mother) with a fresh instance; distinct_nontrivial = distinct (file, history) inputs",
        exhaustive=True, samples=_sample_pairs(texts[0]),
        failures=fl, failing_evaluations=nf, errors=er, seconds=round(time.time() - t1, 1)))

    # ---- random histories
    t1 = time.time()
    n = 24 if tier == "quick" else 400
    tasks = []
    for ti, fl_ in enumerate(TEXT_FLAGS):
        text = _text(fl_)
        for cc in (True, False):
            seeds = [seed * 1000003 + ti * 10007 + (0 if cc else 5003) + k for k in range(n if cc else n // 4)]
            for ch in R.chunks(seeds, 5):
                tasks.append((text, cc, ch))
    ev, dn, fl, nf, er = _collect(R.pmap(_work_random, tasks, chunksize=1))
    bounded.append(dict(
        name="C08.histories.random", function=P + "expand_decay_modes",
        bound=f"{len(TEXT_FLAGS)} generated files (5..14 tables), include_ccdecays on/off, {n}+{n // 4} seeded random histories each, "
              "length 2..8, steps = any public query call with (60 %) a random in-place mutation of its result, or (6 %) parse() again",
        evaluations=ev, distinct_nontrivial=dn,
        rule="one evaluation = one step of a history followed by the full snapshot comparison with a fresh instance; "
             "distinct_nontrivial = distinct (file, switch, history) inputs",
        exhaustive=False, samples=[], failures=fl, failing_evaluations=nf, errors=er, seconds=round(time.time() - t1, 1)))

    # ---- reparse
    t1 = time.time()
    scen = [f for i, f in enumerate(R.all_scenarios()) if i % (20 if tier == "quick" else 2) == 0]
    cases = [(R.render(R.flatten(R.scenario(**f))), PLANS[i % len(PLANS)]) for i, f in enumerate(scen)]
    cases += [(_text(f), pl) for f in TEXT_FLAGS for pl in PLANS]
    ev, dn, fl, nf, er = _collect(R.pmap(_work_reparse, R.chunks(cases, 3), chunksize=1))
    bounded.append(dict(
        name="C08.reparse", function=P + "parse",
        bound=f"{len(cases)} (file, plan) pairs: every {20 if tier == 'quick' else 2}th lattice file with one of the plans "
              f"{PLANS} (values of include_ccdecays for successive parse() calls on one instance) and the 5 history files with every plan",
        evaluations=ev, distinct_nontrivial=dn,
        rule="one evaluation = one plan: after each parse() call the full snapshot is compared with a fresh instance parsed once "
             "with the same switch; distinct_nontrivial = distinct (text, plan)",
        exhaustive=True, samples=[{"plan": PLANS[3]}], failures=fl, failing_evaluations=nf, errors=er,
        seconds=round(time.time() - t1, 1)))
    return {"bounded": bounded, "seconds": round(time.time() - t0, 1)}
