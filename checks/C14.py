"""C14 -- descriptor format settings are scoped and validated (bounded stand-in).

Every sequence (up to a length bound) of operations on the real ``DescriptorFormat`` is executed with
real ``with`` statements and compared, after every step, with the stack model
``specs.chainshapes.FormatModel`` written from the property.
"""
from __future__ import annotations

import time

from specs import chainshapes as cs

QN = "decaylanguage.utils.utilities.DescriptorFormat"

META = {
    "level": "other",
    "explanation": (
        "Bounded stand-in: every sequence up to the length bound (quick 6, thorough 7 and, over a reduced alphabet, 8) of the "
        "operations {create a context object with pattern pair A / B / an invalid pair; enter an existing object (real `with`); "
        "leave the innermost context normally; leave it by an exception; DescriptorFormat.set_config with the valid pairs C / D or "
        "with an invalid pair (placeholder missing / foreign placeholder); render with DescriptorFormat.format_descriptor at top "
        "and nested level} is run on the real class; after every step DescriptorFormat.config must equal the format of the stack "
        "model (leaving restores exactly the format in force when THAT context was entered, for fresh and re-used objects, also "
        "the same object entered again while active; an invalid pattern raises ValueError -- also from __enter__ -- and changes "
        "nothing). Contexts still open at the end of a sequence are left normally and checked too. A second stand-in runs a "
        "table of 24 x 24 pattern pairs through set_config and through `with` and compares acceptance with a brace scanner."),
    "assumptions": ["contexts are left in LIFO order (as `with` statements do)", "single-threaded use of the class-level format"],
    "trusted_base": ["specs/chainshapes.py (FormatModel, placeholders scanner)"],
    "not_applicable_clauses": [],
}

PAIRS = {
    "A": ("{mother} --> {daughters}", "[{mother} --> {daughters}]"),
    "B": ("{mother} => {daughters}", "{mother} (=> {daughters})"),
    "C": ("{daughters} <- {mother}", "<{daughters} <- {mother}>"),
    "D": ("{mother} : {daughters}", "({mother} : {daughters})"),
    "BAD": ("{mother} -> {daughters}", "({mother} -> )"),                 # second pattern lacks a placeholder
    "BAD1": ("{mother} -> {daughters} {extra}", "({mother} -> {daughters})"),  # first pattern has a foreign one
    "BAD2": ("{mother} -> {daughters}", "({} -> {daughters})"),           # positional placeholder
}
ALPHABET = {
    "full": dict(new=["A", "B", "BAD"], set=["C", "D", "BAD1", "BAD2"], render=True, max_objects=3),
    "reduced": dict(new=["A", "BAD"], set=["C", "BAD1"], render=False, max_objects=3),
}
LENGTHS = {"quick": [("full", 6)], "thorough": [("full", 7), ("reduced", 8)]}


class _Leave(Exception):
    """The exception by which a context is left in a 'raise' step."""


def _default():
    return {"decay_pattern": cs.DEFAULT_FORMAT[0], "sub_decay_pattern": cs.DEFAULT_FORMAT[1]}


def _restore():
    from decaylanguage.utils import DescriptorFormat
    DescriptorFormat.config = _default()


def execute(seq):
    """Run one sequence on the real class (starting from the default format) -> list of problems
    (clause, function, what).  The default format is restored afterwards."""
    from decaylanguage.utils import DescriptorFormat
    model = cs.FormatModel()
    objs = []
    problems = []
    pos = [0]

    def observe(what, when=None):
        cfg = DescriptorFormat.config
        cur = (cfg.get("decay_pattern"), cfg.get("sub_decay_pattern")) if isinstance(cfg, dict) else cfg
        if cur != model.current or (isinstance(cfg, dict) and len(cfg) != 2):
            when = when or "after step %d %r" % (pos[0], seq[pos[0] - 1] if pos[0] else None)
            problems.append((what[0], what[1], "%s of %r: format in force is %r, expected %r" % (when, seq, cur, model.current)))
            return False
        return True

    def block():
        while pos[0] < len(seq) and not problems:
            op = seq[pos[0]]
            pos[0] += 1
            kind = op[0]
            if kind == "new":
                objs.append((PAIRS[op[1]], DescriptorFormat(*PAIRS[op[1]])))
                observe(("init.changes_nothing", QN + ".__init__"))
            elif kind == "enter":
                pair, obj = objs[op[1]]
                ok = model.enter(pair)
                entered = False
                at = pos[0]
                how = "end"
                try:
                    with obj:
                        entered = True
                        if not ok:
                            problems.append(("enter.rejects_invalid", QN + ".__enter__", "context with invalid patterns %r entered without ValueError in %r" % (pair, seq)))
                        if not observe(("enter.sets_format", QN + ".__enter__")):
                            return "end"
                        how = block()
                        if how == "raise":
                            raise _Leave()
                except _Leave:
                    pass
                except ValueError as ex:
                    if entered:
                        problems.append(("exit.restores", QN + ".__exit__", "ValueError %s while inside/leaving the context in %r" % (ex, seq)))
                    elif ok:
                        problems.append(("enter.accepts_valid", QN + ".__enter__", "valid patterns %r rejected: %s in %r" % (pair, ex, seq)))
                if problems:
                    return "end"
                if ok:
                    model.leave()
                    when = "after leaving (%s) the context entered at step %d" % (
                        {"exit": "normally", "raise": "by an exception", "end": "normally, at the end of the sequence"}[how], at)
                    if not observe(("exit.restores", QN + ".__exit__"), when):
                        return "end"
                else:
                    if not observe(("enter.invalid_changes_nothing", QN + ".__enter__")):
                        return "end"
            elif kind == "exit":
                return "exit"
            elif kind == "raise":
                return "raise"
            elif kind == "set":
                pair = PAIRS[op[1]]
                ok = model.set(pair)
                try:
                    DescriptorFormat.set_config(*pair)
                    raised = False
                except ValueError:
                    raised = True
                if ok and raised:
                    problems.append(("set_config.accepts_valid", QN + ".set_config", "valid patterns %r rejected in %r" % (pair, seq)))
                elif not ok and not raised:
                    problems.append(("set_config.rejects_invalid", QN + ".set_config", "invalid patterns %r accepted in %r" % (pair, seq)))
                else:
                    observe(("set_config.sets_format" if ok else "set_config.invalid_changes_nothing", QN + ".set_config"))
            elif kind == "render":
                for top in (True, False):
                    got = DescriptorFormat.format_descriptor("K_1(1270)+", "a (b -> c) d", top)
                    exp = cs.render_one(model.current[0 if top else 1], "K_1(1270)+", "a (b -> c) d")
                    if got != exp:
                        problems.append(("format_descriptor.uses_format_in_force", QN + ".format_descriptor",
                                         "step %d of %r: rendered %r, expected %r" % (pos[0], seq, got, exp)))
                observe(("format_descriptor.changes_nothing", QN + ".format_descriptor"))
            else:
                raise ValueError("unknown operation %r" % (op,))
        return "end"

    try:
        _restore()
        while pos[0] < len(seq) and not problems:
            how = block()
            if how in ("exit", "raise") and not problems:
                problems.append(("sequence", QN, "sequence %r leaves a context that is not open" % (seq,)))
    finally:
        _restore()
    return problems


def replay(inp):
    if "patterns" in inp:
        probs = check_pair(tuple(inp["patterns"]), inp["route"])
    else:
        probs = execute([list(op) for op in inp["sequence"]])
    if probs:
        return False, "; ".join("%s: %s" % (c, w) for c, _f, w in probs)
    return True, "the format in force follows the stack model"


# ----------------------------------------------------------------------------------------------------
# enumeration of sequences
# ----------------------------------------------------------------------------------------------------


def extensions(state, alpha):
    """Operations possible in ``state`` = (tuple of pair names of the objects created, depth)."""
    created, depth = state
    ops = []
    if len(created) < alpha["max_objects"]:
        ops += [("new", k) for k in alpha["new"]]
    ops += [("enter", i) for i in range(len(created))]
    if depth > 0:
        ops += [("exit",), ("raise",)]
    ops += [("set", k) for k in alpha["set"]]
    if alpha["render"]:
        ops.append(("render",))
    return ops


def step_state(state, op):
    created, depth = state
    if op[0] == "new":
        return (created + (op[1],), depth)
    if op[0] == "enter":
        return (created, depth + (0 if created[op[1]].startswith("BAD") else 1))
    if op[0] in ("exit", "raise"):
        return (created, depth - 1)
    return state


def sequences(prefix, state, alpha, maxlen):
    """All valid sequences of length len(prefix)..maxlen that start with ``prefix`` (DFS)."""
    yield prefix
    if len(prefix) >= maxlen:
        return
    for op in extensions(state, alpha):
        yield from sequences(prefix + [op], step_state(state, op), alpha, maxlen)


def _worker(task):
    aname, maxlen, prefix = task
    alpha = ALPHABET[aname]
    state = ((), 0)
    for op in prefix:
        state = step_state(state, op)
    n = 0
    per_len = {}
    ent_len = {}
    fails = []
    sample = None
    try:
        for seq in sequences([tuple(o) for o in prefix], state, alpha, maxlen):
            if not seq:
                continue
            n += 1
            per_len[len(seq)] = per_len.get(len(seq), 0) + 1
            created = []
            nontrivial = False
            for op in seq:
                if op[0] == "new":
                    created.append(op[1])
                elif op[0] == "enter" and not created[op[1]].startswith("BAD"):
                    nontrivial = True
            if nontrivial:
                ent_len[len(seq)] = ent_len.get(len(seq), 0) + 1
            probs = execute(seq)
            if probs:
                for c, f, w in probs[:1]:
                    fails.append({"function": f, "clause": c, "what": w, "input": {"sequence": [list(o) for o in seq]},
                                  "replay": {"module": "checks.C14", "function": "replay"}, "_size": len(seq)})
                if len(fails) > 40:      # keep the shortest ones
                    fails.sort(key=lambda f: f["_size"])
                    del fails[20:]
            if sample is None and len(seq) == maxlen and nontrivial and any(o[0] == "raise" for o in seq):
                sample = [list(o) for o in seq]
    finally:
        _restore()
    fails.sort(key=lambda f: f["_size"])
    return dict(alphabet=aname, n=n, ent_len=ent_len, per_len=per_len, fails=fails[:20], sample=sample)


# ----------------------------------------------------------------------------------------------------
# validation table
# ----------------------------------------------------------------------------------------------------

TABLE = [
    "{mother} -> {daughters}", "({mother} -> {daughters})", "{daughters} <- {mother}", "{mother}{daughters}",
    "{mother} {mother} {daughters}", "{{x}} {mother} {daughters}", "{mother!s} -> {daughters:>5}", "[{mother} => {daughters}]",
    "", "abc", "{mother}", "{daughters}", "{mother} -> ", "{mother} -> {daughters} {x}", "{} -> {daughters}",
    "{0} {mother} {daughters}", "{mother} -> {daughter}", "{Mother} {daughters}", "{mother.x} {daughters}",
    "{mother[0]} {daughters}", "{mother} {daughters} {", "} {mother} {daughters}", "{mother } {daughters}", "{{mother}} {daughters}",
]
BASE = ("<{mother} ~ {daughters}>", "<<{mother} ~ {daughters}>>")


def check_pair(pair, route):
    """Acceptance of one pattern pair through ``set_config`` or through ``with`` (starting from BASE)."""
    from decaylanguage.utils import DescriptorFormat
    probs = []
    valid = cs.pattern_is_valid(pair[0]) and cs.pattern_is_valid(pair[1])
    try:
        DescriptorFormat.set_config(*BASE)
        inside = None
        raised = None
        try:
            if route == "set_config":
                DescriptorFormat.set_config(*pair)
                inside = dict(DescriptorFormat.config)
            else:
                with DescriptorFormat(*pair):
                    inside = dict(DescriptorFormat.config)
        except ValueError as ex:
            raised = ex
        except Exception as ex:
            probs.append(("validation.raises_ValueError", QN + ".set_config", "patterns %r (%s): raised %r instead of ValueError" % (list(pair), route, ex)))
            raised = ex
        after = dict(DescriptorFormat.config)
        base = {"decay_pattern": BASE[0], "sub_decay_pattern": BASE[1]}
        new = {"decay_pattern": pair[0], "sub_decay_pattern": pair[1]}
        if valid:
            if raised is not None:
                probs.append(("validation.accepts_valid", QN + ".set_config", "patterns %r (%s) have exactly the two placeholders but were rejected: %s" % (list(pair), route, raised)))
            elif inside != new:
                probs.append(("validation.accepts_valid", QN + ".set_config", "patterns %r (%s): format in force %r" % (list(pair), route, inside)))
            elif after != (new if route == "set_config" else base):
                probs.append(("exit.restores", QN + ".__exit__", "patterns %r (%s): format afterwards %r" % (list(pair), route, after)))
        else:
            if raised is None:
                probs.append(("validation.rejects_invalid", QN + ".set_config", "patterns %r (%s) lack a placeholder or have a foreign one but were accepted" % (list(pair), route)))
            if after != base:
                probs.append(("validation.invalid_changes_nothing", QN + ".set_config", "patterns %r (%s) rejected but the format in force is now %r (was %r)" % (list(pair), route, after, base)))
    finally:
        _restore()
    return probs


def run(tier: str, seed: int) -> dict:
    t0 = time.time()
    entries = []
    errors = []
    tot = dict(n=0, entered=0)
    per_len = {}
    fails = []
    samples = []
    tasks = []
    for aname, maxlen in LENGTHS[tier]:
        alpha = ALPHABET[aname]
        # slices: every valid prefix of length 2 (the sequences of length 1 are run with the first slice of each first op)
        for op1 in extensions(((), 0), alpha):
            s1 = step_state(((), 0), op1)
            tasks.append((aname, 1, [op1]))
            for op2 in extensions(s1, alpha):
                s2 = step_state(s1, op2)
                tasks.append((aname, 2, [op1, op2]))
                for op3 in extensions(s2, alpha):
                    tasks.append((aname, maxlen, [op1, op2, op3]))
    if seed:
        import random
        random.Random(seed).shuffle(tasks)
    full_len = max(l for a, l in LENGTHS[tier] if a == "full")
    try:
        for r in cs.run_parallel(_worker, tasks):
            # the reduced alphabet is a subset of the full one: its sequences up to the full bound are not counted again
            reduced = r["alphabet"] == "reduced"
            for l, c in r["per_len"].items():
                if reduced and l <= full_len:
                    continue
                tot["n"] += c
                tot["entered"] += r["ent_len"].get(l, 0)
                k = ("%d (reduced alphabet)" % l) if reduced else str(l)
                per_len[k] = per_len.get(k, 0) + c
            fails += r["fails"]
            if r["sample"] and len(samples) < 3:
                samples.append(r["sample"])
    except Exception as ex:  # pragma: no cover
        errors.append("enumeration crashed: %r" % (ex,))
    finally:
        _restore()
    fails.sort(key=lambda f: (f["_size"], f["clause"], str(f["input"])))
    keep, seen = [], set()
    for f in fails:
        if f["clause"] in seen:
            continue
        seen.add(f["clause"])
        f = dict(f)
        f.pop("_size")
        keep.append(f)
    entries.append({
        "name": "C14.format.stack_model", "function": QN + ".__exit__",
        "bound": ("all operation sequences of length <= %s over the alphabet {new A|B|BAD (<= 3 objects), enter i, exit, raise, "
                  "set C|D|BAD1|BAD2, render}%s; pattern pairs: %s"
                  % (max(l for a, l in LENGTHS[tier] if a == "full"),
                     "".join("; and of length <= %d over the reduced alphabet {new A|BAD, enter i, exit, raise, set C|BAD1}" % l
                             for a, l in LENGTHS[tier] if a == "reduced"),
                     {k: list(v) for k, v in PAIRS.items()})),
        "evaluations": tot["n"], "distinct_nontrivial": tot["entered"],
        "rule": ("evaluations = distinct valid sequences executed from the default format (exit/raise only with an open context, "
                 "enter only of an existing object), the format compared with the model after every step; non-trivial = sequences in "
                 "which at least one context with valid patterns is entered; sequences per length: %s" % (dict(sorted(per_len.items())),)),
        "exhaustive": True, "samples": samples, "failures": keep, "errors": errors,
    })

    # validation table
    n = nontriv = 0
    vfails = []
    for a in TABLE:
        for b in TABLE:
            for route in ("set_config", "with"):
                n += 1
                if not (cs.pattern_is_valid(a) and cs.pattern_is_valid(b)):
                    nontriv += 1
                for c, f, w in check_pair((a, b), route):
                    if len(vfails) < 50:
                        vfails.append({"function": f, "clause": c, "what": w, "input": {"patterns": [a, b], "route": route},
                                       "replay": {"module": "checks.C14", "function": "replay"}})
    keep2, seen = [], set()
    for f in sorted(vfails, key=lambda f: (len(f["input"]["patterns"][0]) + len(f["input"]["patterns"][1]), f["clause"])):
        if f["clause"] not in seen:
            seen.add(f["clause"])
            keep2.append(f)
    _restore()
    entries.append({
        "name": "C14.patterns.validation", "function": QN + ".set_config",
        "bound": "every ordered pair of the %d patterns of checks.C14.TABLE, through set_config and through `with`, starting from a non-default format" % len(TABLE),
        "evaluations": n, "distinct_nontrivial": nontriv,
        "rule": "one evaluation per (pattern pair, route); non-trivial = pairs with at least one invalid pattern (must raise ValueError and change nothing)",
        "exhaustive": True, "samples": [{"patterns": [TABLE[4], TABLE[13]], "route": "with", "expected": "ValueError, format unchanged"}],
        "failures": keep2, "errors": [],
    })
    entries[0]["seconds"] = round(time.time() - t0, 2)
    return {"bounded": entries}
