"""Shared driver of the bounded stand-ins C01 / C05 / C07.

Runs the REAL decaylanguage.DecFileParser on a text and compares every relevant public answer with the
answers prescribed by specs.decfile_reader (the oracle, written from the property statements).  Nothing here
re-implements or stubs code of /repo; warnings of the real code are silenced, exceptions are recorded.
"""
from __future__ import annotations

import glob
import hashlib
import multiprocessing as mp
import os
import time
import traceback
import warnings

from specs import decfile_reader as R

DEC = "decaylanguage.dec.dec."
PARSER = DEC + "DecFileParser."

QUERY_FUNCTION = {      # public query -> repo function whose contract clause is evaluated
    "dict_definitions": DEC + "get_definitions",
    "dict_aliases": DEC + "get_aliases",
    "dict_charge_conjugates": DEC + "get_charge_conjugate_defs",
    "dict_decays2copy": DEC + "get_decays2copy_statements",
    "list_charge_conjugate_decays": DEC + "get_charge_conjugate_decays",
    "dict_model_aliases": DEC + "get_model_aliases",
    "get_particle_property_definitions": DEC + "get_particle_property_definitions",
    "dict_pythia_definitions": DEC + "get_pythia_definitions",
    "dict_jetset_definitions": DEC + "get_jetset_definitions",
    "dict_lineshape_settings": DEC + "get_lineshape_settings",
    "list_lineshapePW_definitions": DEC + "get_lineshapePW_definitions",
    "global_photos_flag": DEC + "get_global_photos_flag",
}
GLOBAL_QUERIES = tuple(QUERY_FUNCTION)


# ------------------------------------------------------------------------------------------ real code

def real_parser(text=None, path=None):
    """The real parser after parse(); raises whatever the real code raises."""
    from decaylanguage import DecFileParser
    with warnings.catch_warnings():
        warnings.simplefilter("ignore")
        p = DecFileParser.from_string(text) if path is None else DecFileParser(path)
        p.parse()
    return p


def observe_tables(p, stable=()):
    """Every table-related public answer of a parsed instance."""
    with warnings.catch_warnings():
        warnings.simplefilter("ignore")
        mothers = list(p.list_decay_mother_names())
        obs = dict(mothers=mothers, number_of_decays=p.number_of_decays, tables={})
        for m in mothers:
            if m in obs["tables"]:
                continue
            modes = p._find_decay_modes(m)
            obs["tables"][m] = dict(
                list_decay_modes=p.list_decay_modes(m),
                with_photos=[dict(p._decay_mode_details(mode, True)) for mode in modes],
                plain=[dict(p._decay_mode_details(mode, False)) for mode in modes],
                chain=p.build_decay_chains(m, stable_particles=stable),
            )
    return obs


def observe_globals(p):
    from decaylanguage.dec.enums import PhotosEnum
    out = {}
    with warnings.catch_warnings():
        warnings.simplefilter("ignore")
        for q in GLOBAL_QUERIES:
            try:
                v = getattr(p, q)()
                if q == "global_photos_flag":
                    v = (v == PhotosEnum.yes) if isinstance(v, PhotosEnum) else f"not a PhotosEnum: {v!r}"
                out[q] = ("value", v)
            except Exception as ex:  # noqa: BLE001 - the real code's exception is the observation
                out[q] = ("error", f"{type(ex).__name__}: {ex}")
    return out


# ------------------------------------------------------------------------------------------ comparison

def same(a, b) -> bool:
    """Equality that also distinguishes int / float / bool / str; list and tuple are both sequences."""
    if isinstance(a, dict) or isinstance(b, dict):
        return isinstance(a, dict) and isinstance(b, dict) and a.keys() == b.keys() and \
            all(same(a[k], b[k]) for k in a)
    if isinstance(a, (list, tuple)) or isinstance(b, (list, tuple)):
        return isinstance(a, (list, tuple)) and isinstance(b, (list, tuple)) and len(a) == len(b) and \
            all(same(x, y) for x, y in zip(a, b))
    if isinstance(a, str) or isinstance(b, str):
        return isinstance(a, str) and isinstance(b, str) and str(a) == str(b)
    return type(a) is type(b) and a == b


def norm_params(p):
    """P-NUM: an absent and an empty parameter list are the same 'empty'."""
    return "" if (p is None or p == "" or p == []) else p


def short(x, n=300):
    s = repr(x)
    return s if len(s) <= n else s[:n] + "..."


def fail(function, clause, what):
    return dict(function=function, clause=clause, what=what)


def all_daughters(f):
    return sorted({d for s in f.of("Decay") for line in s[2] for d in line[1]})


def compare_line(m, i, exp, act_photos, act_plain, out, check_fs=True):
    where = f"table {m!r} line {i}"
    if not same(act_photos["bf"], exp["bf"]):
        out.append(fail(DEC + "get_branching_fraction", "bf == float(literal)",
                        f"{where}: expected {exp['bf']!r}, got {act_photos['bf']!r}"))
    if check_fs and not same(act_photos["fs"], exp["fs"]):
        out.append(fail(DEC + "get_final_state_particle_names", "daughters verbatim and in order",
                        f"{where}: expected {exp['fs']!r}, got {short(act_photos['fs'])}"))
    if not check_fs and len(act_photos["fs"]) != len(exp["fs"]):
        out.append(fail(DEC + "get_final_state_particle_names", "number of daughters",
                        f"{where}: expected {len(exp['fs'])}, got {len(act_photos['fs'])}"))
    want = ("PHOTOS " if exp["photos"] else "") + exp["model"]
    if not same(act_photos["model"], want):
        out.append(fail(PARSER + "_decay_mode_details", "model == ('PHOTOS ' if line has PHOTOS) + model name",
                        f"{where}: expected {want!r}, got {act_photos['model']!r}"))
    if not same(act_plain["model"], exp["model"]):
        out.append(fail(DEC + "get_model_name", "model name",
                        f"{where}: expected {exp['model']!r}, got {act_plain['model']!r}"))
    for a in (act_photos, act_plain):
        if not same(norm_params(a["model_params"]), exp["model_params"]):
            out.append(fail(DEC + "get_model_parameters",
                            "parameters in order: literals as floats, Define'd names by value, words verbatim",
                            f"{where}: expected {short(exp['model_params'])}, got {short(a['model_params'])}"))
            break


def compare_tables(f, obs, derived="names"):
    """C01 (+ C05 when derived == 'content'): observed tables vs reader-based tables."""
    out = []
    exp = R.tables(f)
    exp_names = [m for m, _ in exp]
    mothers = obs["mothers"]
    if not same(mothers[:len(exp_names)], exp_names):
        out.append(fail(PARSER + "_check_parsed_decays", "one table per distinct mother, file order, first block kept",
                        f"expected mothers {exp_names!r}, got {short(mothers)}"))
        return out
    copies, conj = R.derived_tables(f)
    extras = mothers[len(exp_names):]
    for x in extras:
        if x not in copies and x not in conj:
            out.append(fail(PARSER + "list_decay_mother_names", "no table without a Decay/CopyDecay/CDecay statement",
                            f"unexpected table {x!r}; mothers {short(mothers)}"))
    if obs["number_of_decays"] != len(mothers) or type(obs["number_of_decays"]) is not int:
        out.append(fail(PARSER + "number_of_decays", "number_of_decays == number of tables",
                        f"{obs['number_of_decays']!r} vs {len(mothers)} mothers"))
    by_name = dict(exp)
    for m, lines in exp:
        t = obs["tables"][m]
        if len(t["with_photos"]) != len(lines):
            out.append(fail(PARSER + "_find_decay_modes", "every decay line once (first block of the mother)",
                            f"table {m!r}: expected {len(lines)} lines, got {len(t['with_photos'])}"))
            continue
        if not same(t["list_decay_modes"], [l["fs"] for l in lines]):
            out.append(fail(PARSER + "list_decay_modes", "daughter lists of every line in file order",
                            f"table {m!r}: expected {short([l['fs'] for l in lines])}, got {short(t['list_decay_modes'])}"))
        for i, l in enumerate(lines):
            compare_line(m, i, l, t["with_photos"][i], t["plain"][i], out)
        want_chain = {m: [dict(bf=l["bf"], fs=l["fs"], model=l["model"], model_params=l["model_params"]) for l in lines]}
        got = {k: [dict(d, model_params=norm_params(d.get("model_params"))) for d in v] for k, v in t["chain"].items()}
        if not same(got, want_chain):
            out.append(fail(PARSER + "build_decay_chains", "chain with all daughters stable == the table",
                            f"table {m!r}: expected {short(want_chain)}, got {short(got)}"))
    if derived == "content":
        for new, old in copies.items():
            if old in by_name and new not in by_name and new not in extras:
                out.append(fail(PARSER + "_add_decays_to_be_copied", "CopyDecay NEW OLD gives NEW a table",
                                f"no table {new!r}; mothers {short(mothers)}"))
        for n, src in conj.items():
            if src in by_name and n not in by_name and n not in copies and n not in extras:
                out.append(fail(PARSER + "_add_charge_conjugate_decays", "CDecay X gives X a table",
                                f"no table {n!r}; mothers {short(mothers)}"))
        for x in dict.fromkeys(extras):
            t = obs["tables"][x]
            if x in copies and copies[x] in by_name:
                lines, check_fs = by_name[copies[x]], True
            elif x in conj and conj[x] in by_name:
                lines, check_fs = by_name[conj[x]], False
            else:
                continue
            if len(t["with_photos"]) != len(lines):
                out.append(fail(PARSER + "parse", "derived table has the lines of its source",
                                f"table {x!r}: expected {len(lines)} lines, got {len(t['with_photos'])}"))
                continue
            for i, l in enumerate(lines):
                compare_line(x, i, l, t["with_photos"][i], t["plain"][i], out, check_fs=check_fs)
    return out


def compare_globals(f, got, queries=GLOBAL_QUERIES):
    out = []
    exp = R.global_answers(f)
    for q in queries:
        e, a = exp[q], got[q]
        if e[0] == "value" and a[0] == "value":
            if not same(a[1], e[1]):
                out.append(fail(QUERY_FUNCTION[q], f"{q}() reports every statement, later declaration winning",
                                f"expected {short(e[1])}, got {short(a[1])}"))
        elif e[0] == "error" and a[0] == "error":
            pass
        elif e[0] == "error":
            out.append(fail(QUERY_FUNCTION[q], f"{q}() reports an error", f"expected an error ({e[1]}), got {short(a[1])}"))
        else:
            out.append(fail(QUERY_FUNCTION[q], f"{q}() answers", f"expected {short(e[1])}, got exception {a[1]}"))
    return out


def snapshot(p, stable=()):
    return dict(tables=observe_tables(p, stable), globals=observe_globals(p))


# ------------------------------------------------------------------------------------------ one text

def n_lines(f):
    return sum(len(s[2]) for s in f.of("Decay"))


def check_text(check: str, text: str = None, path: str = None):
    """-> dict(failures=[...], skipped=reason|None, lines=int, stmts=int, nontrivial=bool)"""
    res = dict(failures=[], skipped=None, lines=0, stmts=0, nontrivial=False)
    src = text
    if path is not None:
        with open(path, encoding="utf_8_sig") as fh:
            src = fh.read()
    try:
        f = R.read(src)
    except R.ReaderError as ex:
        res["skipped"] = f"reader: {ex}"
        return res
    res["lines"], res["stmts"] = n_lines(f), len(f.statements)
    stable = all_daughters(f)
    try:
        p = real_parser(text=text, path=path)
    except Exception as ex:  # noqa: BLE001
        try:
            R.tables(f)
        except R.OracleError as oe:
            res["skipped"] = f"oracle prescribes no tables ({oe}); real code raised {type(ex).__name__}"
            return res
        res["failures"].append(fail(PARSER + "parse", "every text of the statement language is parsed",
                                    f"parse() raised {type(ex).__name__}: {short(str(ex), 400)}"))
        return res
    if check == "C01":
        res["nontrivial"] = res["lines"] > 0
        res["failures"] += compare_tables(f, observe_tables(p, stable))
    elif check == "C07":
        res["nontrivial"] = any(s[0] not in ("Decay",) for s in f.statements)
        res["failures"] += compare_globals(f, observe_globals(p))
    elif check == "C05":
        used = [u for u in f.uses if f.statements[u[4]][0] == "Decay"]
        defs, mals = R.definitions(f), R.model_alias_defs(f)
        res["nontrivial"] = any((u[3] == "label") or u[2] in defs or (u[2][:1] == "-" and u[2][1:] in defs)
                                for u in used)
        snap = snapshot(p, stable)
        res["failures"] += compare_tables(f, snap["tables"], derived="content")
        res["failures"] += compare_globals(f, snap["globals"], ("dict_definitions", "dict_model_aliases"))
        if path is None:
            expanded = R.expand_text(f)
            try:
                p2 = real_parser(text=expanded)
                snap2 = snapshot(p2, stable)
            except Exception as ex:  # noqa: BLE001
                res["failures"].append(fail(PARSER + "parse", "the expanded text is parsed",
                                            f"parse(expand(text)) raised {type(ex).__name__}: {short(str(ex), 300)}"))
                return res
            if not same(snap["tables"], snap2["tables"]):
                diff = first_difference(snap["tables"], snap2["tables"])
                res["failures"].append(fail(PARSER + "parse", "tables(text) == tables(text with Define/ModelAlias uses expanded)",
                                            f"differs at {diff}"))
            if not same(snap["globals"], snap2["globals"]):
                res["failures"].append(fail(PARSER + "parse", "global declarations unchanged by expansion",
                                            f"differs at {first_difference(snap['globals'], snap2['globals'])}"))
    else:
        raise ValueError(check)
    return res


def first_difference(a, b, path="$"):
    if isinstance(a, dict) and isinstance(b, dict):
        if a.keys() != b.keys():
            return f"{path}: keys {short(sorted(map(str, a)))} vs {short(sorted(map(str, b)))}"
        for k in a:
            if not same(a[k], b[k]):
                return first_difference(a[k], b[k], f"{path}[{k!r}]")
    if isinstance(a, (list, tuple)) and isinstance(b, (list, tuple)):
        if len(a) != len(b):
            return f"{path}: length {len(a)} vs {len(b)}"
        for i, (x, y) in enumerate(zip(a, b)):
            if not same(x, y):
                return first_difference(x, y, f"{path}[{i}]")
    return f"{path}: {short(a, 120)} vs {short(b, 120)}"


# ------------------------------------------------------------------------------------------ shrinking

def shrink(check, text, clause, budget=200):
    """Greedy removal of statements / decay lines while the same clause keeps failing."""
    def still(t):
        try:
            r = check_text(check, t)
        except Exception:  # noqa: BLE001
            return False
        return r["skipped"] is None and any(x["clause"] == clause for x in r["failures"])

    trials = 0
    changed = True
    while changed and trials < budget:
        changed = False
        try:
            f = R.read(text)
        except R.ReaderError:
            break
        spans = list(f.spans)
        for idx, ls in f.line_spans.items():
            spans += ls
        for sp in sorted(set(spans), key=lambda s: (s[1] - s[0]), reverse=True):
            if trials >= budget:
                break
            cand = R.remove_span(text, sp)
            trials += 1
            if cand != text and still(cand):
                text, changed = cand, True
                break
    return text


# ------------------------------------------------------------------------------------------ driver

def _work(item):
    check, family, text, path = item
    t0 = time.time()
    try:
        r = check_text(check, text=text, path=path)
    except Exception:  # noqa: BLE001 - a crash of the harness is a checker error, not a verdict
        r = dict(failures=[], skipped=None, lines=0, stmts=0, nontrivial=False,
                 crash=traceback.format_exc(limit=8))
    r["family"], r["text"], r["path"], r["seconds"] = family, text, path, time.time() - t0
    return r


def run_items(check, items, jobs=None):
    """items: [(family, text, path|None)] -> list of results (same order)."""
    work = [(check, fam, text, path) for fam, text, path in items]
    jobs = jobs or min(16, os.cpu_count() or 1, max(1, len(work)))
    if jobs <= 1 or len(work) <= 2:
        return [_work(w) for w in work]
    ctx = mp.get_context("fork")
    with ctx.Pool(jobs) as pool:
        return pool.map(_work, work, chunksize=max(1, min(16, len(work) // (jobs * 8) or 1)))


def dedupe(pairs):
    seen, out = set(), []
    for fam, text in pairs:
        h = hashlib.sha1(text.encode()).digest()
        if h in seen:
            continue
        seen.add(h)
        out.append((fam, text))
    return out


def shipped_files():
    return sorted(glob.glob("/repo/tests/data/*.dec")) + [
        "/repo/src/decaylanguage/data/DECAY_LHCB.DEC", "/repo/src/decaylanguage/data/DECAY_BELLE2.DEC"]


def summarise(check, name, function, bound, rule, results, exhaustive, max_failures=6):
    """One 'bounded' entry of checks/README.md from the per-text results."""
    failures, errors, skipped = [], [], []
    seen = {}
    evaluations = distinct = lines = 0
    fam_counts = {}
    for r in results:
        if r.get("crash"):
            errors.append(f"harness crashed on a {r['family']} input: {r['crash']}")
            continue
        if r["skipped"]:
            skipped.append(dict(input=r["path"] or r["text"][:200], family=r["family"], reason=r["skipped"]))
            if r["path"] is None:
                errors.append(f"generated text of family {r['family']} is outside the reader's language: {r['skipped']}: {r['text'][:300]!r}")
            continue
        evaluations += 1
        distinct += 1 if r["nontrivial"] else 0
        lines += r["lines"]
        fam_counts[r["family"]] = fam_counts.get(r["family"], 0) + 1
        for x in r["failures"]:
            key = (x["function"], x["clause"])
            seen[key] = seen.get(key, 0) + 1
            if seen[key] > 2 or len(failures) >= max_failures:
                continue
            inp = dict(check=check, family=r["family"])
            if r["path"] is not None:
                inp["path"] = r["path"]
            else:
                inp["text"] = shrink(check, r["text"], x["clause"])
                again = check_text(check, inp["text"])
                x = next((y for y in again["failures"] if y["clause"] == x["clause"]), x)
            rec = dict(function=x["function"], clause=x["clause"], what=x["what"], input=inp,
                       replay={"module": f"checks.{check}", "function": "replay"})
            if not any(o["clause"] == rec["clause"] and o["input"] == inp for o in failures):
                failures.append(rec)
    entry = dict(name=name, function=function, bound=bound, evaluations=evaluations, distinct_nontrivial=distinct,
                 rule=rule, exhaustive=exhaustive, decay_lines_compared=lines, families=fam_counts,
                 failure_counts={f"{k[0]} :: {k[1]}": v for k, v in seen.items()},
                 skipped=skipped, failures=failures, errors=errors)
    return entry


def samples_of(items, k=3):
    out, fams = [], set()
    for fam, text, path in items:
        if fam in fams or path is not None:
            continue
        fams.add(fam)
        out.append(dict(family=fam, text=text if len(text) < 600 else text[:600] + "..."))
    return out[:max(k, 8)]


def replay(check, inp):
    r = check_text(check, text=inp.get("text"), path=inp.get("path"))
    if r["skipped"]:
        return True, "input no longer comparable: " + r["skipped"]
    if r["failures"]:
        x = r["failures"][0]
        return False, f"{x['function']} :: {x['clause']} :: {x['what']}"
    return True, f"all answers of the real parser agree with the reference reader ({r['lines']} decay lines, {r['stmts']} statements)"
