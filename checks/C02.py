"""C02 -- layout, comments, line ends and file packaging never change what is parsed (bounded stand-in).

Oracle (relational, from the property statement): for a base text T and a rewrite R made only of the edits the
property lists -- comments added/removed (end of a statement line, own lines, after Enddecay), blank lines,
indentation, amount of spaces/tabs between tokens, LF -> CRLF, a model's parameter list wrapped over several
lines or its items separated by commas, repeated terminating semicolons, a final End line, a leading UTF-8 BOM in
an input FILE, the text split over 1..3 files passed in order (each possibly closed by its own End), file-based
versus string-based construction --   snapshot(parse(R(T))) == snapshot(parse(T)),   snapshot = every public query
(specs.decrel.snapshot).  Only the real DecFileParser is run.  The line scanner below only *locates* places where
the listed edits apply (it never decides what a file means); `render(scan(T)) == T` is checked on every base text.
Preconditions (DESIGN section 7): P-NL (a string input ends with a newline), P-END, P-KW.
"""
from __future__ import annotations

import glob
import os
import random
import re
import time

from specs import decrel as R

P = "decaylanguage.dec.dec.DecFileParser."
FN_INIT, FN_PARSE, FN_FROMSTR = P + "__init__", P + "parse", P + "from_string"

META = {
    "level": "other",
    "explanation": (
        "Bounded: relational comparison of the full query snapshot before/after layout rewrites on the real parser. "
        "Base texts: generated files (Decay, Alias, ChargeConj, CopyDecay, CDecay, Define, ModelAlias and one statement of "
        "every other kind; 7..14 tables of up to 7 lines), every .dec file under /repo/tests/data, and (thorough tier) the "
        "two shipped master files. For every base text: every single rewrite kind applied at every line / statement "
        "boundary (one case per position for texts of <= 45 lines, positions grouped into <= 16 (quick) / 60 (thorough) interleaved strides "
        "for longer texts so that every position is exercised), whole-file variants, every 2-file split position with "
        "rotating End/BOM variants, seeded 3-file splits, and seeded random compositions of all kinds in string and file "
        "mode. The paper lemma of DESIGN C02 (LALR token-stream argument) is not machine-checked; this is its bounded stand-in."),
    "assumptions": ["X-LARK", "X-STD universal-newline text files", "P-NL", "P-END", "P-KW"],
    "trusted_base": ["specs/decrel.py (snapshot)", "checks/C02.py line scanner (round-trip checked on every base text)"],
    "not_applicable_clauses": [],
}

# ------------------------------------------------------------------------------------------ layout model

TOK = re.compile(r"[;,]|[^\s;,]+")
NUMBER = re.compile(r"[+-]?(\d+\.?\d*|\.\d+)([eE][+-]?\d+)?\Z")


class Line:
    __slots__ = ("indent", "toks", "gaps", "trail", "comment", "eol", "kind", "stmt", "pre", "dead")

    def __init__(self, raw):
        m = re.match(r"(.*?)(\r?\n)?\Z", raw, re.S)
        body, self.eol = m.group(1), m.group(2) or ""
        h = body.find("#")
        code, self.comment = (body, None) if h < 0 else (body[:h], body[h:])
        self.indent = re.match(r"[ \t]*", code).group(0)
        rest = code[len(self.indent):]
        self.toks, self.gaps = [], []
        pos = 0
        for mt in TOK.finditer(rest):
            if self.toks:
                self.gaps.append(rest[pos:mt.start()])
            self.toks.append(mt.group(0))
            pos = mt.end()
        self.trail = rest[pos:]
        self.kind = None      # top | block | cont   (what the line is part of)
        self.stmt = None      # index of the ';'-terminated statement the line belongs to
        self.pre = []         # raw lines inserted before this line
        self.dead = False     # the physical line was removed by an edit (later edits leave it alone)

    def render(self):
        out = "".join(self.pre) + self.indent
        for i, t in enumerate(self.toks):
            out += t + (self.gaps[i] if i < len(self.gaps) else "")
        return out + self.trail + (self.comment or "") + self.eol


class Layout:
    """Physical lines of a text plus the (purely lexical) statement structure needed to place the edits."""

    def __init__(self, text, models):
        self.lines = [Line(r) for r in text.splitlines(keepends=True)]
        self.tail = []                     # raw lines appended at the very end
        self.bound_kind = []               # kind of boundary i (before line i; i == n is the end): top | block | cont
        self.stmts = []                    # ';'-terminated statements: dict(lines=[...], model=(li, ti), params=[(li, ti)...], semi=(li, ti))
        in_block, cur = False, None
        for li, ln in enumerate(self.lines):
            self.bound_kind.append("cont" if cur is not None else ("block" if in_block else "top"))
            ln.kind = self.bound_kind[-1]
            if cur is None and ln.toks:
                first = ln.toks[0]
                if not in_block and first == "Decay":
                    in_block = True
                elif in_block and first == "Enddecay":
                    in_block = False
                elif (in_block and NUMBER.match(first)) or (not in_block and first == "ModelAlias"):
                    cur = dict(lines=[], toks=[], head=2 if first == "ModelAlias" else 1)
            if cur is not None:
                cur["lines"].append(li)
                ln.stmt = len(self.stmts)
                for ti, t in enumerate(ln.toks):
                    cur["toks"].append((li, ti, t))
                if ";" in ln.toks:
                    self._close(cur, models)
                    cur = None
        self.bound_kind.append("cont" if cur is not None else ("block" if in_block else "top"))
        self.has_end = any(l.toks[:1] == ["End"] for l in self.lines)

    def _close(self, cur, models):
        toks = cur["toks"]
        words = [t for _, _, t in toks]
        semi = words.index(";")
        mi = None
        if "PHOTOS" in words[:semi]:
            mi = words.index("PHOTOS") + 1
        else:
            for k in range(cur["head"], semi):
                if words[k] in models:
                    mi = k
                    break
        params = [k for k in range(mi + 1, semi) if words[k] != ","] if mi is not None and mi < semi else []
        self.stmts.append(dict(lines=cur["lines"], toks=toks, model=mi, params=params, semi=semi,
                               has_comma="," in words[:semi]))

    def render(self):
        return "".join(l.render() for l in self.lines) + "".join(self.tail)

    # ---- positions at which each edit kind applies -------------------------------------------------------
    def positions(self, kind):
        n = len(self.lines)
        if kind in ("comment_eol",):
            return [i for i, l in enumerate(self.lines) if l.comment is None and l.eol]
        if kind == "comment_strip":
            return [i for i, l in enumerate(self.lines) if l.comment is not None]
        if kind in ("comment_line", "blank_add"):
            return list(range(n + 1))
        if kind == "blank_del":
            return [i for i, l in enumerate(self.lines) if not l.toks and l.comment is None and l.eol]
        if kind in ("indent", "crlf"):
            return [i for i, l in enumerate(self.lines) if l.eol]
        if kind == "dedent":
            return [i for i, l in enumerate(self.lines) if l.indent]
        if kind == "spaces":
            return [i for i, l in enumerate(self.lines) if l.toks]
        if kind == "semis":
            return list(range(len(self.stmts)))
        if kind == "wrap":
            return [i for i, s in enumerate(self.stmts) if s["params"]]
        if kind == "commas":
            return [i for i, s in enumerate(self.stmts) if len(s["params"]) >= 2 and not s["has_comma"]]
        if kind == "split":
            return [i for i in range(1, n) if self.bound_kind[i] != "cont"]
        raise KeyError(kind)


COMMENTS = ["# c", "#", "## Decay X ; End", "#\tEnddecay", "# 1.0 a b PHSP;"]
BLANKS = ["\n", "   \n", "\t\n", "\n\n"]
INDENTS = ["  ", "\t", " \t  "]
SEPS = ["  ", "\t", " \t ", "     "]
LINE_KINDS = ["comment_eol", "comment_strip", "comment_line", "blank_add", "blank_del", "indent", "dedent", "spaces",
              "crlf", "semis", "wrap", "commas"]


def apply_op(lay, op):
    """One edit on the layout (in place). op = {"k": kind, "at": position, "v": variant}."""
    k, at, v = op["k"], op.get("at"), op.get("v", 0)
    if isinstance(at, int) and k not in ("comment_line", "blank_add", "semis", "wrap", "commas") and lay.lines[at].dead:
        return
    if k == "comment_eol":
        ln = lay.lines[at]
        if ln.comment is None:
            ln.comment = ("" if v % 2 else " ") + COMMENTS[v % len(COMMENTS)]
    elif k == "comment_strip":
        ln = lay.lines[at]
        if ln.comment is not None:
            if v % 2 == 1 and not ln.toks and ln.stmt is None and not ln.pre:
                ln.comment, ln.indent, ln.trail, ln.eol, ln.dead = None, "", "", "", True        # the whole comment line disappears
            else:
                ln.comment = None
    elif k in ("comment_line", "blank_add"):
        raw = (INDENTS[v % 3] if v % 2 else "") + COMMENTS[v % len(COMMENTS)] + "\n" if k == "comment_line" else BLANKS[v % len(BLANKS)]
        if at >= len(lay.lines):
            lay.tail.append(raw)
        else:
            lay.lines[at].pre.append(raw)
    elif k == "blank_del":
        ln = lay.lines[at]
        if not ln.toks and ln.comment is None:
            ln.indent, ln.trail, ln.eol, ln.dead = "", "", "", True
    elif k == "indent":
        ln = lay.lines[at]
        if ln.toks or ln.comment is not None or ln.eol:
            ln.indent = ln.indent + INDENTS[v % len(INDENTS)] if v < 3 else INDENTS[v % len(INDENTS)]
    elif k == "dedent":
        lay.lines[at].indent = ""
    elif k == "spaces":
        ln = lay.lines[at]
        sep = SEPS[v % len(SEPS)]
        for i, g in enumerate(ln.gaps):
            if g and "\n" not in g:
                ln.gaps[i] = sep if (v // 4) % 2 == 0 or i % 2 == 0 else " "
            elif not g and ln.toks[i + 1] == ";" and v % 2 == 0:
                ln.gaps[i] = " "                           # space before the terminating semicolon
        if ln.toks:
            ln.trail = ln.trail + sep if v % 3 else ""
    elif k == "crlf":
        ln = lay.lines[at]
        if ln.eol == "\n":
            ln.eol = "\r\n"
        ln.pre = [p[:-1] + "\r\n" if p.endswith("\n") and not p.endswith("\r\n") else p for p in ln.pre]
    elif k == "semis":
        st = lay.stmts[at]
        li, ti, _ = st["toks"][st["semi"]]
        lay.lines[li].toks[ti] = [";;", "; ;", ";;;", ";\t;"][v % 4]
    elif k == "commas":
        st = lay.stmts[at]
        if not st["has_comma"]:
            for a, b in zip(st["params"], st["params"][1:]):
                li, ti, _ = st["toks"][a]
                ln = lay.lines[li]
                sep = [",", " ,", ", ", " , "][v % 4]
                if ti < len(ln.gaps):
                    ln.gaps[ti] = sep + (ln.gaps[ti] if "\n" in ln.gaps[ti] else ("" if sep.endswith(" ") or v % 4 == 0 else " "))
                else:
                    ln.trail = sep.rstrip(" ") + ln.trail      # item is last on its physical line: comma before the line end
    elif k == "wrap":
        st = lay.stmts[at]
        mi, semi = st["model"], st["semi"]
        cands = list(range(mi, semi))        # gap after token index g: after the model name, between items, before ';'
        mode = v % 4
        if mode == 0:
            chosen = cands
        elif mode == 1:
            chosen = cands[:1]
        elif mode == 2:
            chosen = cands[-1:]
        else:
            chosen = cands[(v // 4) % len(cands)::2]
        nl = "\n" + INDENTS[(v // 4) % 3] * (1 + v % 2)
        for g in chosen:
            li, ti, _ = st["toks"][g]
            ln = lay.lines[li]
            if ti < len(ln.gaps) and "\n" not in ln.gaps[ti]:
                ln.gaps[ti] = (ln.gaps[ti].rstrip(" \t") if v % 3 == 0 else ln.gaps[ti]) + nl
    elif k == "crlf_all":
        for i in range(len(lay.lines)):
            apply_op(lay, {"k": "crlf", "at": i})
        lay.tail = [p[:-1] + "\r\n" if p.endswith("\n") and not p.endswith("\r\n") else p for p in lay.tail]
    elif k == "end_add":
        if not lay.has_end:
            lay.tail.append(["End\n", "End\n\n", "End # done\n", "  End  \n# bye\n"][v % 4])
    else:
        raise KeyError(k)


ORDER = {k: i for i, k in enumerate(["comment_strip", "blank_del", "dedent", "spaces", "commas", "semis", "wrap", "indent",
                                     "comment_eol", "comment_line", "blank_add", "end_add", "crlf", "crlf_all"])}


def rewrite(text, ops, models):
    lay = Layout(text, models)
    for op in sorted((o for o in ops if o["k"] in ORDER), key=lambda o: ORDER[o["k"]]):
        if "ats" in op:
            for j, a in enumerate(op["ats"]):
                apply_op(lay, dict(op, at=a, v=op.get("v", 0) + j))        # variants rotate along the positions
        else:
            apply_op(lay, op)
    return lay


def split_text(lay, cuts):
    """Pieces of the rewritten text cut before the given original line indices."""
    pieces, cur = [], []
    cutset = set(cuts)
    for i, ln in enumerate(lay.lines):
        if i in cutset and cur is not None:
            pieces.append("".join(cur))
            cur = []
        cur.append(ln.render())
    pieces.append("".join(cur) + "".join(lay.tail))
    return pieces


# ------------------------------------------------------------------------------------------ sources and cases

SOURCES = {}          # name -> dict(text, models, extra_models, base_snapshot)   (filled in the parent before forking)


def _models_for(extra):
    from decaylanguage.dec.enums import known_decay_models
    return set(known_decay_models) | set(extra)


def source_text(src):
    """Base text of a source: a generated text, or a file of /repo decoded as UTF-8 (P-NL: final newline ensured)."""
    if "text" in src:
        return src["text"]
    with open(src["path"], encoding="utf-8", newline="") as f:
        t = f.read()
    return t if t.endswith("\n") else t + "\n"


def construct(src, ops, mode, tmpdir):
    """Build the real parser for one case.
    mode = {"how": "string"} | {"how": "file", "cuts": [...], "ends": [..], "boms": [..], "nonl": [..]} (per file: own End
    line variant, leading BOM, last line without terminator -- the constructor separates the files by a newline)."""
    extra = src.get("extra_models", [])
    text = source_text(src)
    lay = rewrite(text, ops, _models_for(extra))
    if mode["how"] == "string":
        return R.parse_text(lay.render(), True, extra_models=extra), [lay.render()]
    pieces = split_text(lay, mode.get("cuts", []))
    ends, boms = mode.get("ends", []), mode.get("boms", [])
    paths, contents = [], []
    for i, piece in enumerate(pieces):
        if i < len(ends) and ends[i] and not (i == len(pieces) - 1 and lay.has_end):
            piece = piece + ["End\n", "End # end of part\n", "  End\n"][ends[i] % 3]
        if i < len(mode.get("nonl", [])) and mode["nonl"][i] and piece.endswith("\n") and not piece.endswith("\r\n"):
            piece = piece[:-1]                     # the file does not end with a line terminator
        data = piece.encode("utf-8")
        if i < len(boms) and boms[i]:
            data = b"\xef\xbb\xbf" + data
        path = os.path.join(tmpdir, f"part{i}.dec")
        with open(path, "wb") as f:
            f.write(data)
        paths.append(path)
        contents.append(data.decode("utf-8"))
    return R.parse_files(paths, True, extra_models=extra), contents


def evaluate(case, tmpdir, base=None):
    """None when the rewritten input gives the base snapshot; else a message."""
    src = case["source"]
    if base is None:
        try:
            base = R.snapshot(R.parse_text(source_text(src), True, extra_models=src.get("extra_models", [])))
        except Exception as ex:
            base = {"parse_raises": type(ex).__name__}
    try:
        p, contents = construct(src, case["ops"], case["mode"], tmpdir)
    except Exception as ex:
        if "parse_raises" in base:
            return None, None
        return f"rewritten input does not parse: {type(ex).__name__}: {str(ex).splitlines()[0][:160]}", None
    if "parse_raises" in base:
        return f"base text is rejected ({base['parse_raises']}) but the rewritten input is accepted", contents
    snap = R.snapshot(p, chain_mothers=base["chain_mothers"])
    return R.first_diff(snap, base, "snapshot"), contents


def _fn_of(case):
    if case["mode"]["how"] == "file":
        return FN_INIT
    return FN_PARSE


def replay(input):
    with R.scratch_dir() as d:
        msg, _ = evaluate(input, d)
    return (False, msg) if msg else (True, "snapshot of the rewritten input equals the snapshot of the base text")


def _minimise(case, tmpdir, base):
    """Fewest ops / positions (and simplest packaging) that still fail."""
    def fails(c):
        return evaluate(c, tmpdir, base)[0] is not None
    ops = []
    for o in case["ops"]:                    # explode strided ops into single positions
        if "ats" in o:
            ops += [dict({k: v for k, v in o.items() if k != "ats"}, at=a) for a in o["ats"]]
        else:
            ops.append(o)
    c = dict(case, ops=ops)
    if not fails(c):
        return case
    if len(ops) > 24:                          # bisect first
        lo = ops
        while len(lo) > 24:
            half = len(lo) // 2
            a, b = lo[:half], lo[half:]
            if fails(dict(c, ops=a)):
                lo = a
            elif fails(dict(c, ops=b)):
                lo = b
            else:
                break
        ops = lo
    ops = R.shrink_list(ops, lambda o: fails(dict(c, ops=o)), budget=60)
    c = dict(c, ops=ops)
    if c["mode"]["how"] == "file":
        for simpler in ({"how": "string"}, {"how": "file"}, dict(c["mode"], boms=[], nonl=[]), dict(c["mode"], ends=[], nonl=[]),
                        dict(c["mode"], ends=[], boms=[]), dict(c["mode"], nonl=[]), dict(c["mode"], boms=[]), dict(c["mode"], ends=[])):
            if fails(dict(c, mode=simpler)):
                c = dict(c, mode=simpler)
                break
    return c


def _work(chunk):
    out = dict(evals=0, hashes=[], failures=[], nfail=0, errors=[])
    with R.scratch_dir() as tmp:
        for case in chunk:
            src = case["source"]
            base = SOURCES[src["name"]]["base"]
            out["evals"] += 1
            try:
                msg, contents = evaluate(case, tmp, base)
            except Exception as ex:
                out["errors"].append(f"oracle crashed on {src['name']} {case['ops'][:1]}: {type(ex).__name__}: {ex}")
                continue
            changed = contents is None or contents != [SOURCES[src["name"]]["text"]] or case["mode"]["how"] == "file"
            if changed and SOURCES[src["name"]]["nontrivial"]:
                out["hashes"].append(R.digest([contents, case["mode"]["how"]]) if contents is not None else R.digest(case))
            if msg:
                out["nfail"] += 1
                if len(out["failures"]) < 2:
                    small = _minimise(case, tmp, base)
                    msg2, cont2 = evaluate(small, tmp, base)
                    inp = dict(source={k: v for k, v in src.items()}, ops=small["ops"], mode=small["mode"])
                    if cont2 is not None and sum(len(c) for c in cont2) < 4000:
                        inp["rewritten_input"] = cont2
                    out["failures"].append(dict(function=_fn_of(small), clause="layout_rewrite_leaves_every_answer_unchanged:" +
                                                "+".join(sorted({o["k"] for o in small["ops"]} | ({"file"} if small["mode"]["how"] == "file" else set()))),
                                                what=msg2 or msg, input=inp, replay={"module": "checks.C02", "function": "replay"}))
    return out


# ------------------------------------------------------------------------------------------ case generation

GEN_FLAGS = [
    dict(cdecay_db=True, alias_pair="fwd", copy_src="fwd", fillers=1, others=True),
    dict(cdecay_db=True, alias_pair="rev", alias_side=1, copy_src="rev", precedence=True, nosrc=1, fillers=2, others=True),
    dict(cdecay_db=False, alias_pair="none", copy_src="none", fillers=0, others=False, kpair="none"),
]
MULTILINE = """# generated: statements already wrapped, with commas, CRLF-free, comments in odd places
Define dm 0.5   # a definition
ModelAlias MA2 SVV_HELAMP 1.0, 0.0,
     dm  0.0
     -dm 0.0 ;;
Alias MyK+ K+
Alias MyK- K-
ChargeConj MyK+ MyK-

Decay B0   # mother
0.5  MyK+ pi-   PHOTOS SVS_CP beta dm -1
        1.0 0.0
        1.0 0.0 ;   # tail comment
0.25 D- pi+ MA2;
# comment line inside a block
0.125 K+ K- pi0   PHSP ;
0.0625 J/psi K_S0 pi0 pi0 PHSP;  ;
0.0625 rho0 gamma HELAMP 1.0 0.0
 1.0 0.0;
Enddecay   # after Enddecay
CDecay anti-B0
Decay D-
1.0 K+ pi- pi- D_DALITZ;
Enddecay
CopyDecay MyDm D-
Define beta 0.39
"""


def sources(tier):
    out = []
    for i, f in enumerate(GEN_FLAGS):
        out.append(dict(name=f"generated-{i}", text=R.render(R.flatten(R.scenario(**f)))))
    out.append(dict(name="generated-multiline", text=MULTILINE))
    for path in sorted(glob.glob("/repo/tests/data/*.dec")):
        s = dict(name=os.path.basename(path), path=path)
        if os.path.basename(path) == "test_custom_decay_model.dec":
            s["extra_models"] = ["CUSTOM_MODEL1", "CUSTOM_MODEL2"]
        out.append(s)
    if tier == "thorough":
        for path in sorted(glob.glob("/repo/src/decaylanguage/data/*.DEC")):
            out.append(dict(name=os.path.basename(path), path=path, big=True))
    return out


def _prepare(src):
    """Base snapshot of a source (run in a worker); also the scanner round-trip check."""
    text = source_text(src)
    extra = src.get("extra_models", [])
    err = None
    try:
        lay = Layout(text, _models_for(extra))
        if lay.render() != text:
            err = f"scanner round trip differs for {src['name']}"
    except Exception as ex:
        err = f"scanner crashed on {src['name']}: {type(ex).__name__}: {ex}"
    if err is None:     # P-END: only the End statement (and Enddecay) may start with the letters "End"
        bad = [l.toks[0] for l in lay.lines if l.toks and l.toks[0].startswith("End") and l.toks[0] not in ("End", "Enddecay")]
        if bad:
            err = f"{src['name']} violates precondition P-END (lines starting with {bad[:3]})"
    try:
        base = R.snapshot(R.parse_text(text, True, extra_models=extra))
    except Exception as ex:      # e.g. tests/data/test_issue90.dec, invalid on purpose: every rewrite must be rejected as well
        return dict(name=src["name"], text=text, base={"parse_raises": type(ex).__name__, "tables": []}, err=err, nontrivial=False)
    return dict(name=src["name"], text=text, base=base, err=err, nontrivial=R.snapshot_nontrivial(base))


def _strides(positions, max_cases):
    """Partition positions into interleaved groups: every position in exactly one group."""
    if len(positions) <= max_cases:
        return [[p] for p in positions]
    return [positions[j::max_cases] for j in range(max_cases)]


def cases_for(src, tier, rng):
    text = SOURCES[src["name"]]["text"]
    lay = Layout(text, _models_for(src.get("extra_models", [])))
    n = len(lay.lines)
    big = src.get("big", False)
    max_cases = 12 if big else (16 if tier == "quick" else 60)
    small = n <= 45
    ref = dict(name=src["name"], **({"path": src["path"]} if "path" in src else {"text": src["text"]}),
               **({"extra_models": src["extra_models"]} if "extra_models" in src else {}))
    S, F = {"how": "string"}, {"how": "file"}
    single, whole, packaging, compo = [], [], [], []
    # 1. every single rewrite kind at every position
    for kind in LINE_KINDS:
        pos = lay.positions(kind)
        groups = [[p] for p in pos] if small else _strides(pos, max_cases)
        for gi, g in enumerate(groups):
            op = {"k": kind, "v": gi} if len(g) > 1 else {"k": kind, "at": g[0], "v": gi}
            if len(g) > 1:
                op["ats"] = g
            mode = F if kind == "crlf" and gi % 2 else S
            single.append(dict(source=ref, ops=[op], mode=mode))
    # 2. whole-file variants
    for kind in LINE_KINDS:
        pos = lay.positions(kind)
        if pos:
            for v in range(2 if big else 4):
                whole.append(dict(source=ref, ops=[{"k": kind, "ats": pos, "v": v}], mode=S if v % 2 == 0 else F))
    for v in range(4):
        whole.append(dict(source=ref, ops=[{"k": "end_add", "v": v}], mode=S if v % 2 == 0 else F))
    whole.append(dict(source=ref, ops=[{"k": "crlf_all"}], mode=S))
    whole.append(dict(source=ref, ops=[{"k": "crlf_all"}], mode=F))
    whole.append(dict(source=ref, ops=[{"k": "crlf_all"}, {"k": "end_add", "v": 0}], mode=dict(F, boms=[1])))
    # 3. packaging: file vs string, BOM, splits
    packaging.append(dict(source=ref, ops=[], mode=F))
    packaging.append(dict(source=ref, ops=[], mode=dict(F, boms=[1])))
    packaging.append(dict(source=ref, ops=[], mode=dict(F, ends=[1])))
    packaging.append(dict(source=ref, ops=[], mode=dict(F, ends=[2], boms=[1])))
    packaging.append(dict(source=ref, ops=[], mode=dict(F, nonl=[1])))
    cuts = lay.positions("split")
    cut_groups = [[c] for c in cuts] if small else [[c] for c in cuts[:: max(1, len(cuts) // max_cases)]]
    for gi, (c,) in enumerate(cut_groups):
        ends = [(gi // 1) % 2 * (1 + gi % 3), (gi // 2) % 2 * (1 + gi % 3)]
        boms = [(gi // 4) % 2, (gi // 8) % 2 if gi % 3 else 1 - (gi // 4) % 2]
        packaging.append(dict(source=ref, ops=[], mode=dict(F, cuts=[c], ends=ends, boms=boms, nonl=[(gi // 2) % 2, (gi // 3) % 2])))
    for _ in range(min(len(cuts) * (len(cuts) - 1) // 2, 6 if big else (12 if tier == "quick" else 40))):
        c2 = sorted(rng.sample(cuts, 2))
        packaging.append(dict(source=ref, ops=[], mode=dict(F, cuts=c2, ends=[rng.randrange(4) for _ in range(3)],
                                                             boms=[rng.randrange(2) for _ in range(3)],
                                                             nonl=[rng.randrange(2) for _ in range(3)])))
    # 4. seeded random compositions of all kinds
    n_comp = (6 if big else 12) if tier == "quick" else (20 if big else 60)
    for _ in range(n_comp):
        ops = []
        for kind in LINE_KINDS:
            pos = lay.positions(kind)
            if pos and rng.random() < 0.8:
                k = max(1, int(len(pos) * rng.choice([0.1, 0.3, 0.6, 1.0])))
                ops.append({"k": kind, "ats": sorted(rng.sample(pos, k)), "v": rng.randrange(16)})
        if rng.random() < 0.4:
            ops.append({"k": "end_add", "v": rng.randrange(4)})
        if rng.random() < 0.3:
            ops.append({"k": "crlf_all"})
        if rng.random() < 0.5 or not cuts:
            mode = S if rng.random() < 0.5 else dict(F, boms=[rng.randrange(2)], ends=[rng.randrange(4)])
        else:
            k = rng.choice([1, 2]) if len(cuts) >= 2 else 1
            mode = dict(F, cuts=sorted(rng.sample(cuts, k)), ends=[rng.randrange(4) for _ in range(k + 1)],
                        boms=[rng.randrange(2) for _ in range(k + 1)], nonl=[rng.randrange(2) for _ in range(k + 1)])
        compo.append(dict(source=ref, ops=ops, mode=mode))
    return single, whole, packaging, compo


def run(tier="quick", seed=0):
    t0 = time.time()
    seed = seed if tier == "thorough" else 0      # VERIF_SEED only matters in the thorough tier (README)
    rng = random.Random(seed)
    srcs = sources(tier)
    errors = []
    for prep in R.pmap(_prepare, srcs, chunksize=1):
        if prep.get("err"):
            errors.append(prep["err"])
        if prep["base"] is not None:
            SOURCES[prep["name"]] = prep
    fams = {"single": [], "whole": [], "packaging": [], "compositions": []}
    per_source = {}
    for src in srcs:
        if src["name"] not in SOURCES:
            continue
        s, w, pk, c = cases_for(src, tier, rng)
        fams["single"] += s
        fams["whole"] += w
        fams["packaging"] += pk
        fams["compositions"] += c
        per_source[src["name"]] = len(s) + len(w) + len(pk) + len(c)
    n_lines = sum(len(SOURCES[s]["text"].splitlines()) for s in SOURCES)
    n_tables = sum(len(SOURCES[s]["base"]["tables"]) for s in SOURCES)
    what = (f"{len(SOURCES)} base texts ({n_lines} lines, {n_tables} tables): 4 generated files, every .dec file under /repo/tests/data"
            + (", DECAY_LHCB.DEC and DECAY_BELLE2.DEC" if tier == "thorough" else "") + "; ")
    bounds = {
        "single": what + "each of the 12 line-level rewrite kinds (comment at line end / stripped / own line, blank line added / removed, "
                  "indent / dedent, spaces-tabs between tokens, LF->CRLF, repeated semicolons, parameter list wrapped, commas between "
                  "items) at every position where it applies: one case per position for texts <= 45 lines, interleaved strides "
                  "(every position in exactly one case) otherwise",
        "whole": what + "each rewrite kind at all its positions at once (4 variants, string and file mode), final End line (4 variants), "
                 "whole file CRLF (string, file, file+BOM+End)",
        "packaging": what + "file-based vs from_string; BOM; own End; last line without terminator; every 2-file split position (every line boundary outside a wrapped "
                     "statement; sampled evenly for texts > 45 lines) with rotating End / BOM / unterminated-last-line variants per file; seeded 3-file splits",
        "compositions": what + "seeded random compositions: each kind with probability 0.8 at a random 10..100 % of its positions, random "
                        "variants, optional End / CRLF, random construction (string, file, 2-3 files with End/BOM per file)",
    }
    bounded = []
    big_names = {s["name"] for s in srcs if s.get("big")}
    for name, cases in fams.items():
        t1 = time.time()
        cases.sort(key=lambda c: c["source"]["name"] in big_names, reverse=True)      # long cases first
        chunked = [[c] for c in cases if c["source"]["name"] in big_names] + R.chunks([c for c in cases if c["source"]["name"] not in big_names], 6)
        res = R.pmap(_work, chunked, chunksize=1)
        hashes, failures, errs, evals, nfail = set(), [], [], 0, 0
        for r in res:
            evals += r["evals"]
            hashes.update(r["hashes"])
            nfail += r["nfail"]
            failures += r["failures"]
            errs += r["errors"]
        seen, uniq = set(), []
        for f in failures:
            k = f["clause"]
            if sum(1 for g in uniq if g["clause"] == k) < 2 and R.digest(f["input"]) not in seen:
                seen.add(R.digest(f["input"]))
                uniq.append(f)
        bounded.append(dict(
            name=f"C02.{name}", function=FN_INIT if name == "packaging" else FN_PARSE, bound=bounds[name], evaluations=evals,
            distinct_nontrivial=len(hashes),
            rule="one evaluation = one rewritten input constructed and parsed by the real code and its full snapshot compared with "
                 "the base snapshot; distinct_nontrivial = distinct (rewritten file contents, construction mode) whose contents differ "
                 "from the base text (or are read from files) and whose base snapshot has at least one non-empty answer",
            exhaustive=name != "compositions",
            samples=[{"source": c["source"]["name"], "ops": [{k: (v if k != "ats" else v[:6]) for k, v in o.items()} for o in c["ops"]][:3],
                      "mode": c["mode"]} for c in (cases[:1] + cases[-1:])],
            failures=uniq[:6], failing_evaluations=nfail, errors=sorted(set(errs + (errors if name == "single" else [])))[:6],
            seconds=round(time.time() - t1, 1)))
    return {"bounded": bounded, "cases_per_source": per_source, "seconds": round(time.time() - t0, 1)}
