"""C15 -- the chain graph has one node and one labelled edge per decay line (bounded stand-in).

The real ``DecayChainViewer`` is built for chain dictionaries from generated table sets (directly, and
through the real parser for a sample) and from ``DecayChain.to_dict()``; ``viewer.graph.source`` (DOT
text) is parsed into nodes / edges and compared with ``specs.chainshapes.graph_spec``.
Shown names are compared after applying the same public helper chain of the ``particle`` package the
viewer documents (EvtGen name -> LaTeX name -> ``latex_to_html_name``; the raw name when there is none).
"""
from __future__ import annotations

import itertools
import re
import shutil
import subprocess
import time

from specs import chainshapes as cs

VIEWER = "decaylanguage.decay.viewer.DecayChainViewer._build_decay_graph"

META = {
    "level": "other",
    "explanation": (
        "Bounded stand-in: DecayChainViewer is built for every chain dictionary of (a) the table-set family (<= 3 decaying particles "
        "quick / <= 4 thorough, 0,1,2,4(,3,5,6) lines per particle incl. empty tables, lines drawn from per-rank menus with repeated "
        "decaying daughters and non-sorted daughter orders, three name pools incl. EvtGen spellings and names unknown to the PDG "
        "table), (b) DecayChain.to_dict() of every chain shape of the listed families, (c) the real parser's build_decay_chains on "
        "generated .dec texts of a sample of (a). The DOT source is parsed; checked: one root node showing the mother; per decay "
        "line exactly one node listing the daughters in the given order and one edge labelled str(bf) from the root or from port "
        "p<position> of the decaying daughter in its parent node; no other nodes / edges; every port is p<index of its cell>; node "
        "ids unique in a graph and the dec* ids disjoint between 3 consecutive viewers of one process; `dot -Tsvg` exits 0 on a "
        "sample of the sources (when the binary exists). Names are compared after the public helper chain of `particle` "
        "(DirectionalMaps('EvtGenName','LaTexName') + latex_to_html_name, raw name as fallback)."),
    "assumptions": ["the HTML conversion of names (particle.latex_to_html_name) is trusted", "the root node id 'mother' is the same constant in every graph by design; uniqueness across graphs is about the per-line node ids",
                    "graphviz.Digraph.source lists one statement per line (graphviz 0.2x)"],
    "trusted_base": ["specs/chainshapes.py (chain_dict_from_tables, graph_spec)", "the DOT line parser of checks/C15.py", "Graphviz `dot` (exit status only)"],
    "not_applicable_clauses": ["what Graphviz draws (layout, colours) is not covered"],
}

TIME_LIMIT = 20.0

# per-rank menus of decay lines: symbols >= 0 decaying particle of that rank, negative: stable name
MENUS = [
    [[-1, -2], [-2], [-3, -1, -1], [-2, -1], [-1], [-3, -2, -1, -2]],
    [[0, -1], [-2, 0], [0, 0], [-1, 0, -2, 0], [-2, -1], [-3], [0]],
    [[1, -1], [-2, 1, 0], [1, 1], [0, -1, 1], [-1, -2], [0, 1, 0, 1], [1]],
    [[2, 0], [-1, 2, 1], [2, 2, -2], [1, 0], [-2, -1, -1], [2]],
]
LINES = {"quick": {1: [0, 1, 2, 4, 5, 6], 2: [0, 1, 2, 4, 5], 3: [0, 1, 2, 4]},
         "thorough": {1: [0, 1, 2, 3, 4, 5, 6], 2: [0, 1, 2, 3, 4, 5, 6], 3: [0, 1, 2, 3, 4, 5], 4: [0, 1, 4]}}
POOLS15 = [
    dict(decaying=["pi0", "K_S0", "D0", "D*+"], stable=["gamma", "e+", "e-"]),
    dict(decaying=["anti-K*0", "K_1(1270)+", "anti-B_s0", "Upsilon(4S)"], stable=["anti-nu_e", "mu+", "K-"]),
    dict(decaying=["MyPi0", "cs_0", "MyD0", "B0sig"], stable=["pi+", "f'_0", "chi_c1"]),
]
BFS15 = [0.5, 0.25, 0.125, 1.0, 1e-05, 0.0124, 0.3333333333333333, 2, 0.692, 0.98823, 0.0625, 3.3392e-05, 0.75, 0.1]
MODELS15 = [("PHSP", ""), ("VSS", ""), ("HELAMP", [1.0, 0.0]), ("SVS", "")]
CLASS_FAMILIES = {"quick": [(1, 2, 3, 3, 9), (2, 2, 3, 3, 9), (3, 2, 3, 2, 3), (4, 1, 2, 2, 2), (5, 1, 2, 1, 2)],
                  "thorough": [(1, 2, 3, 3, 9), (2, 2, 3, 3, 9), (3, 2, 3, 3, 4), (4, 1, 3, 2, 3), (5, 1, 3, 1, 3), (6, 1, 2, 1, 2)]}
N_PARSER = {"quick": 160, "thorough": 1200}
N_DOT = {"quick": 48, "thorough": 320}

_show_map = None


def show(name):
    """The name as the viewer documents to show it (public helpers of `particle`)."""
    global _show_map
    if _show_map is None:
        from particle.converters.bimap import DirectionalMaps
        _show_map = DirectionalMaps("EvtGenName", "LaTexName")[0]
    from particle import latex_to_html_name
    try:
        return latex_to_html_name(_show_map[name])
    except Exception:
        return name


# ----------------------------------------------------------------------------------------------------
# table sets
# ----------------------------------------------------------------------------------------------------


def table_set(n, ks, offs, pool_i):
    """Table set of ``n`` decaying particles (rank n-1 = mother): particle of rank i has ``ks[i]`` lines, the
    menu lines ``offs[i], offs[i]+1, ...`` (cyclically) of its rank."""
    pool = POOLS15[pool_i % len(POOLS15)]
    dn, sn = pool["decaying"], pool["stable"]
    tables = {}
    for i in range(n):
        menu = MENUS[i]
        lines = []
        for j in range(ks[i]):
            syms = menu[(offs[i] + j) % len(menu)]
            names = [dn[s] if s >= 0 else sn[-s - 1] for s in syms]
            bf = BFS15[(5 * i + j + offs[i]) % len(BFS15)]
            model, params = MODELS15[(i + j) % len(MODELS15)]
            lines.append([bf, names, model, params])
        tables[dn[i]] = lines
    return tables, dn[n - 1]


def table_params(n, allowed_k):
    """All (ks, offs) of the family for n particles."""
    per_rank = []
    for i in range(n):
        opts = []
        for k in allowed_k:
            if k == 0:
                opts.append((0, 0))
            else:
                opts += [(k, o) for o in range(len(MENUS[i]))]
        per_rank.append(opts)
    for combo in itertools.product(*per_rank):
        yield [c[0] for c in combo], [c[1] for c in combo]


def dec_text_of_tables(tables):
    out = ["# generated by checks.C15"]
    for name, lines in tables.items():
        out.append("Decay %s" % name)
        for bf, names, model, params in lines:
            ptxt = (" " + " ".join(repr(p) for p in params)) if params else ""
            out.append("  %r   %s   %s%s;" % (float(bf), "  ".join(names), model, ptxt))
        out.append("Enddecay")
    out.append("End")
    return "\n".join(out) + "\n"


# ----------------------------------------------------------------------------------------------------
# reading the DOT source
# ----------------------------------------------------------------------------------------------------

_NODE = re.compile(r'^\t("[^"]+"|[A-Za-z_0-9]+) \[(.*)\]$')
_EDGE = re.compile(r'^\t("[^"]+"|[^\s]+) -> ("[^"]+"|[^\s]+)(?: \[(.*)\])?$')
_CELL = re.compile(r'<TD([^>]*)>(.*?)</TD>', re.S)
_PORT = re.compile(r'PORT="([^"]*)"')


def _unquote(s):
    if len(s) >= 2 and s[0] == '"' and s[-1] == '"':
        return s[1:-1].replace('\\"', '"')
    return s


def parse_dot(source):
    """-> (nodes: list of (id, cells, ports), edges: list of (tail id, tail port|None, head id, label), problems)."""
    nodes, edges, problems = [], [], []
    lines = source.split("\n")
    body = [l for l in lines if l.startswith("\t")]
    for l in body:
        if l.startswith("\tgraph [") or l.startswith("\tnode [") or l.startswith("\tedge ["):
            continue
        m = _EDGE.match(l)
        if m and " -> " in l.split("[", 1)[0]:
            tail, head, attrs = _unquote(m.group(1)), _unquote(m.group(2)), m.group(3) or ""
            lab = re.search(r'label=("(?:[^"\\]|\\.)*"|[^\s\]]+)', attrs)
            label = _unquote(lab.group(1)) if lab else None
            tid, _, tport = tail.partition(":")
            hid, _, hport = head.partition(":")
            if hport:
                problems.append("edge head with a port: %r" % l)
            edges.append((tid, tport or None, hid, label))
            continue
        m = _NODE.match(l)
        if m:
            nid, attrs = _unquote(m.group(1)), m.group(2)
            i = attrs.find("label=<")
            j = attrs.rfind("</TABLE>>")
            if i < 0 or j < 0:
                problems.append("node without an HTML table label: %r" % l)
                nodes.append((nid, None, None))
                continue
            html = attrs[i + 7:j + 8]
            cells, ports = [], []
            for a, text in _CELL.findall(html):
                cells.append(text)
                p = _PORT.search(a)
                ports.append(p.group(1) if p else None)
            nodes.append((nid, cells, ports))
            continue
        problems.append("statement not understood: %r" % l)
    return nodes, edges, problems


def graph_of_source(source):
    """Canonical tree of the graph in the form of specs.chainshapes.graph_spec + structural problems."""
    nodes, edges, problems = parse_dot(source)
    ids = [n[0] for n in nodes]
    dup = sorted({i for i in ids if ids.count(i) > 1})
    if dup:
        problems.append("node identifiers defined more than once: %r" % dup)
    table = {n[0]: n for n in nodes}
    if "mother" not in table:
        problems.append("no root node 'mother'")
        return None, ids, len(nodes), len(edges), problems
    indeg = {}
    out = {}
    for tid, tport, hid, label in edges:
        if tid not in table or hid not in table:
            problems.append("edge %s -> %s between undefined nodes" % (tid, hid))
            continue
        indeg[hid] = indeg.get(hid, 0) + 1
        pos = None
        if tport is not None:
            cells, ports = table[tid][1], table[tid][2]
            if ports is None or tport not in ports:
                problems.append("edge leaves from port %s:%s which the node does not have" % (tid, tport))
                continue
            pos = ports.index(tport)
        elif tid != "mother":
            problems.append("edge from %s does not start from a slot of the node" % tid)
            continue
        out.setdefault((tid, pos if tid != "mother" else None), []).append((hid, label))
    for nid, cells, ports in nodes:
        if cells is None:
            continue
        for k, p in enumerate(ports):
            if p is not None and p != "p%d" % k:
                problems.append("node %s: cell %d carries port %r, expected p%d" % (nid, k, p, k))
        want = 0 if nid == "mother" else 1
        if indeg.get(nid, 0) != want:
            problems.append("node %s has %d incoming edges, expected %d" % (nid, indeg.get(nid, 0), want))
    if problems:
        return None, ids, len(nodes), len(edges), problems
    visited = set()

    def kids(nid, pos):
        res = []
        for hid, label in out.get((nid, pos), []):
            if hid in visited:
                problems.append("node %s reached twice" % hid)
                continue
            visited.add(hid)
            cells = table[hid][1]
            slots = []
            for k in range(len(cells)):
                if (hid, k) in out:
                    slots.append((k, kids(hid, k)))
            res.append((label, tuple(cells), tuple(slots)))
        res.sort(key=repr)
        return tuple(res)

    visited.add("mother")
    tree = (table["mother"][1][0] if table["mother"][1] else None, kids("mother", None))
    if len(table["mother"][1] or []) != 1:
        problems.append("root node lists %r, expected the mother only" % (table["mother"][1],))
    if len(visited) != len(table):
        problems.append("nodes not connected to the root: %r" % sorted(set(table) - visited))
    return tree, ids, len(nodes), len(edges), problems


# ----------------------------------------------------------------------------------------------------
# comparison
# ----------------------------------------------------------------------------------------------------


def view(chain_dict):
    from decaylanguage import DecayChainViewer
    with cs.time_limit(TIME_LIMIT):
        v = DecayChainViewer(chain_dict)
        return v.graph.source, v.to_string()


def check_graph(chain_dict, earlier_ids=()):
    """-> (problems [(clause, what)], ids of this graph, source)."""
    import copy
    before = repr(chain_dict)
    try:
        src, src2 = view(chain_dict)
    except Exception as ex:
        return [("viewer.returns", "raised %r" % (ex,))], [], None
    out = []
    if src != src2:
        out.append(("viewer.to_string", "to_string() differs from graph.source"))
    if repr(chain_dict) != before:
        out.append(("viewer.keeps_input", "the chain dictionary was changed"))
    exp, n_nodes, n_edges = cs.graph_spec(chain_dict, show)
    tree, ids, nn, ne, problems = graph_of_source(src)
    for p in problems:
        out.append(("graph.well_formed", p))
    if tree is not None and not problems:
        if nn != n_nodes or ne != n_edges:
            out.append(("graph.one_node_and_edge_per_line", "%d nodes / %d edges, expected %d / %d" % (nn, ne, n_nodes, n_edges)))
        if tree != exp:
            out.append((_diff_clause(tree, exp), "graph %r, expected %r" % (tree, exp)))
    clash = sorted(set(i for i in ids if i != "mother") & set(earlier_ids))
    if clash:
        out.append(("graph.ids_unique_across_graphs", "node ids %r were already used by an earlier graph of this process" % clash[:5]))
    return out, ids, src


def _diff_clause(got, exp):
    """Name the clause: labels, daughter order, or structure."""
    def strip(t, what):
        def k(ch):
            return tuple(sorted(((lab if what != "labels" else None,
                                  tuple(sorted(cells)) if what == "order" else cells,
                                  tuple((p, k(c)) for p, c in slots)) for lab, cells, slots in ch), key=repr))
        return (t[0], k(t[1]))
    if strip(got, "labels") == strip(exp, "labels"):
        return "graph.edge_label_is_line_bf"
    if strip(got, "order") == strip(exp, "order"):
        return "graph.daughters_in_given_order"
    return "graph.one_node_and_edge_per_line"


def replay(inp):
    chains = inp["chains"]
    earlier = []
    res = []
    for cd in chains:
        res, ids, _src = check_graph(cd, earlier)
        earlier += [i for i in ids if i != "mother"]
    if inp.get("dot_source"):
        rc = run_dot(inp["dot_source"])
        if rc not in (0, None):
            res = res + [("graph.accepted_by_graphviz", "dot exit status %r" % rc)]
    if res:
        return False, "; ".join("%s: %s" % r for r in res)
    return True, "the graph of the (last) chain dictionary has one node and one labelled edge per decay line"


def run_dot(source):
    exe = shutil.which("dot")
    if not exe:
        return None
    try:
        p = subprocess.run([exe, "-Tsvg"], input=source.encode("utf-8"), stdout=subprocess.DEVNULL, stderr=subprocess.PIPE, timeout=120)
        return p.returncode
    except subprocess.TimeoutExpired:
        return "timeout"


# ----------------------------------------------------------------------------------------------------
# workers
# ----------------------------------------------------------------------------------------------------


def _rec(clause, what, chains, size):
    import copy
    return {"function": VIEWER, "clause": clause, "what": what[:2000], "input": {"chains": copy.deepcopy(chains)},
            "replay": {"module": "checks.C15", "function": "replay"}, "_size": size}


def _dict_size(cd):
    return len(repr(cd))


def _worker(task):
    kind = task[0]
    n = nontriv = 0
    fails, errors, sources = [], [], []
    recent = []          # (chain dict, ids) of the previous two viewers of this process
    groups = 0

    def one(cd, tag):
        nonlocal n, nontriv, groups
        earlier = [i for _c, ids in recent for i in ids if i != "mother"]
        res, ids, src = check_graph(cd, earlier)
        n += 1
        spec, nn, ne = cs.graph_spec(cd, show)
        if any(slots for _l, _c, slots in spec[1]):
            nontriv += 1
        for clause, what in res:
            chains = [c for c, _i in recent] + [cd] if clause.endswith("across_graphs") else [cd]
            fails.append(_rec(clause, what, chains, sum(_dict_size(c) for c in chains)))
        recent.append((cd, ids))
        if len(recent) > 2:
            recent.pop(0)
            groups += 1
        if src is not None and n % 23 == 5 and len(sources) < 6:
            sources.append((tag, src, cd))

    if kind == "tables":
        _k, nn_, allowed, part, nparts, via_parser = task
        for idx, (ks, offs) in enumerate(table_params(nn_, allowed)):
            if idx % nparts != part:
                continue
            tables, mother = table_set(nn_, ks, offs, idx)
            cd = cs.chain_dict_from_tables(tables, mother)
            one(cd, "tables")
            if via_parser and (idx // nparts) % via_parser == 0:
                from decaylanguage.dec.dec import DecFileParser
                try:
                    with cs.time_limit(TIME_LIMIT):
                        p = DecFileParser.from_string(dec_text_of_tables(tables))
                        p.parse()
                        d0 = p.build_decay_chains(mother)
                except Exception as ex:
                    errors.append("parser route: %r on %r" % (ex, dec_text_of_tables(tables)))
                    d0 = None
                if d0 is not None:
                    one(d0, "parser")
            if len(fails) > 60:
                break
    else:
        _k, key, sl = task
        from decaylanguage import DecayChain, DecayMode
        for idx, shape in enumerate(cs.family_shapes(cs.Family(*key), sl)):
            k = len(shape)
            pool = cs.POOLS[(idx + sl) % len(cs.POOLS)]
            chain = cs.instantiate(shape, pool, bfs=[BFS15[(i + idx) % len(BFS15)] for i in range(k)],
                                   metas=[{"model": MODELS15[i % 4][0]} for i in range(k)])
            dc = DecayChain(chain["mother"], {nm: DecayMode(b, {d: m for d, m in fs}, **meta) for nm, b, fs, meta in chain["decays"]})
            one(dc.to_dict(), "class")
            if len(fails) > 60:
                break
    fails.sort(key=lambda f: (f["_size"], f["clause"]))
    return dict(kind=kind, n=n, nontriv=nontriv, groups=groups, fails=fails[:20], errors=errors[:2], sources=sources)


def run(tier: str, seed: int) -> dict:
    t0 = time.time()
    tasks = []
    lines = LINES[tier]
    # spread the parser route over about N_PARSER table sets
    sizes = {n: sum(1 for _ in table_params(n, allowed)) for n, allowed in lines.items()}
    total = sum(sizes.values())
    every = max(1, total // N_PARSER[tier])
    for n, allowed in lines.items():
        nparts = max(1, min(48, sizes[n] // 40))
        for part in range(nparts):
            tasks.append(("tables", n, allowed, part, nparts, every))
    tasks += [("class", k, s) for k, s in cs.family_tasks(CLASS_FAMILIES[tier])]
    if seed:
        import random
        random.Random(seed).shuffle(tasks)
    agg = {"tables": dict(n=0, nontriv=0), "class": dict(n=0, nontriv=0)}
    fails, errors, sources = [], [], []
    groups = 0
    try:
        for r in cs.run_parallel(_worker, tasks):
            a = agg[r["kind"]]
            a["n"] += r["n"]
            a["nontriv"] += r["nontriv"]
            groups += r["groups"]
            fails += r["fails"]
            errors += r["errors"]
            sources += r["sources"]
    except Exception as ex:  # pragma: no cover
        errors.append("enumeration crashed: %r" % (ex,))
    # Graphviz on a sample of the sources
    dot_note = ""
    dot_runs = dot_ok = 0
    if shutil.which("dot"):
        from concurrent.futures import ThreadPoolExecutor
        by_tag = {}
        for tag, src, cd in sources:
            by_tag.setdefault(tag, []).append((src, cd))
        sample = []
        for tag in sorted(by_tag):
            lst = sorted(by_tag[tag], key=lambda x: -len(x[0]))
            sample += lst[:N_DOT[tier] // 3]
        sample = sample[:N_DOT[tier]]
        with ThreadPoolExecutor(16) as ex:
            codes = list(ex.map(lambda sc: run_dot(sc[0]), sample))
        for (src, cd), rc in zip(sample, codes):
            dot_runs += 1
            if rc == 0:
                dot_ok += 1
            else:
                f = _rec("graph.accepted_by_graphviz", "dot -Tsvg exit status %r" % (rc,), [cd], _dict_size(cd))
                f["input"]["dot_source"] = src
                fails.append(f)
        dot_note = "dot -Tsvg run on %d sources, exit status 0 for %d" % (dot_runs, dot_ok)
    else:
        dot_note = "the `dot` binary is not installed: acceptance by Graphviz was NOT checked in this run"
    keep, seen = [], set()
    for f in sorted(fails, key=lambda f: (f["_size"], f["clause"])):
        if f["clause"] in seen:
            continue
        seen.add(f["clause"])
        f = dict(f)
        f.pop("_size")
        keep.append(f)
    n = agg["tables"]["n"] + agg["class"]["n"]
    smp = []
    def nested(cd):
        return any(isinstance(d, dict) for line in list(cd.values())[0] for d in line["fs"])

    for want in ("tables", "parser", "class"):
        for tag, src, cd in sources:
            if tag == want and nested(cd) and 300 < len(repr(cd)) < 1500:
                smp.append({"from": tag, "chain_dict": cd, "dot_source_lines": src.count("\n")})
                break
    entry = {
        "name": "C15.viewer.graph_structure", "function": VIEWER,
        "bound": ("table sets: n decaying particles with the number of lines per particle from %s (n: allowed line counts), the lines of the "
                  "particle of rank i being consecutive entries (every start offset) of the menu checks.C15.MENUS[i] (repeated decaying "
                  "daughters, non-sorted orders, 1-4 daughters), 3 name pools, %d distinct branching fractions assigned per (particle, line); "
                  "every %d-th table set additionally through the real parser; DecayChain.to_dict() of every chain shape of the families %s"
                  % (lines, len(BFS15), every, CLASS_FAMILIES[tier])),
        "evaluations": n, "distinct_nontrivial": agg["tables"]["nontriv"] + agg["class"]["nontriv"],
        "rule": ("one evaluation = one DecayChainViewer built, its DOT source parsed and compared with the graph oracle (%d from table sets incl. "
                 "the parser route, %d from DecayChain.to_dict); all chain dictionaries are distinct (the parser route repeats the dictionary "
                 "of its table set through another producer); non-trivial = graphs with at least one edge leaving from a port (a nested "
                 "table with lines); %d windows of 3 consecutive viewers in one process checked for disjoint dec* ids; %s"
                 % (agg["tables"]["n"], agg["class"]["n"], groups, dot_note)),
        "exhaustive": True, "graphviz": dot_note, "dot_runs": dot_runs, "samples": smp, "failures": keep, "errors": errors[:3],
        "seconds": round(time.time() - t0, 2),
    }
    return {"bounded": [entry]}
