"""C18 - each amplitude is emitted with exactly its Bose-symmetrised permutations (bounded stand-in).

Real code executed: ModelDecay.list_structure, GooFitChain/GooFitPyChain.read_ampgen, .to_goofit,
ampgen2goofit / ampgen2goofitpy.  Oracle: brute force over index permutations (specs/ampgen_reader.assignments),
the reference reader's trees, and small extractors of the generated text written from the property
(this module; also used by C19 and C20).
"""
from __future__ import annotations

import itertools
import multiprocessing as mp
import os
import re
import time
from collections import Counter
from fractions import Fraction

from specs import ampgen_gen as G
from specs import ampgen_reader as R

Q_LIST = "decaylanguage.modeling.decay.ModelDecay.list_structure"
Q_CPP = "decaylanguage.modeling.goofit.GooFitChain.to_goofit"
Q_PY = "decaylanguage.modeling.goofit.GooFitPyChain.to_goofit"
Q_A2G = "decaylanguage.modeling.ampgen2goofit.ampgen2goofit"
Q_A2GPY = "decaylanguage.modeling.ampgen2goofit.ampgen2goofitpy"

META = {
    "level": "other",
    "explanation": (
        "Bounded. (a) ModelDecay.list_structure on every binary tree shape with 2..4 leaves, every labelling of the leaves "
        "over 4 particle kinds (hence every multiplicity pattern) and every final-state list of the same length over those "
        "kinds (thorough: also one longer), against a brute-force oracle (all injective index tuples with equal particles), "
        "as multisets (each assignment exactly once). (b) generated four-body option files over the supported spin "
        "structures (VV in S/P/D wave, VS, SS, A->VP (S,D), A->SP, T->VP, pseudoscalar->SP, ->VP), both topologies, "
        "lineshape kinds RBW/GSpline.EFF/kMatrix.pole|prod.N/FOCUS.*, 6 event types with identical particles at different "
        "positions, complete and partial notation, both output classes: per amplitude the generated text must contain, per "
        "oracle permutation, every spin factor of the amplitude with exactly that index tuple and one lineshape per resonance "
        "(declared kind and its parameters, orbital momentum = written wave tag else the lowest L allowed by the spins, "
        "invariant-mass symbol whose indices are that permutation's positions of the resonance's own leaves) and must declare "
        "n = number of permutations; in ampgen2goofit/ampgen2goofitpy output the amplitudes appear once each in input order. "
        "The names of an amplitude's spin factors are taken from the real accessor line.spinfactors (the property does not "
        "name them) and additionally checked against GooFit's naming scheme for the structure class."),
    "assumptions": [
        "particle_from_string_name memoised per (name, particle-table size) as in C17",
        "index order inside a mass symbol is not compared (M_31 and M_13 denote the same pair); descending pairs are counted "
        "as an observation because GooFit only defines ascending pair symbols (belongs to the not-applicable GooFit-API clause)",
        "unsupported structures (LineFailure) are outside the property; when code is produced for them it is checked the same way",
    ],
    "trusted_base": ["specs/ampgen_reader.py", "specs/ampgen_gen.py", "extractors of generated text in checks/C18.py",
                     "particle package (names, pdgid)"],
    "not_applicable_clauses": [],
}

# --------------------------------------------------------------------------------------------------------
# extractors of the generated text (regex / bracket scanner), written from the property, for both languages
# --------------------------------------------------------------------------------------------------------
_OPEN = {"(": ")", "{": "}", "[": "]"}


def scan_args(text, i):
    """text[i] is an opening bracket: returns (list of top-level comma separated arguments, index after the
    closing bracket); double-quoted strings are opaque."""
    close = _OPEN[text[i]]
    stack = [close]
    args, cur = [], []
    j = i + 1
    n = len(text)
    while j < n:
        c = text[j]
        if c == '"':
            k = text.index('"', j + 1)
            cur.append(text[j:k + 1])
            j = k + 1
            continue
        if c in _OPEN:
            stack.append(_OPEN[c])
            cur.append(c)
        elif c in ")}]":
            if c != stack[-1]:
                raise ValueError(f"unbalanced bracket at {j}")
            stack.pop()
            if not stack:
                last = "".join(cur).strip()
                if last or args:
                    args.append(last)
                return args, j + 1
            cur.append(c)
        elif c == "," and len(stack) == 1:
            args.append("".join(cur).strip())
            cur = []
        else:
            cur.append(c)
        j += 1
    raise ValueError("unclosed bracket")


def unquote(s):
    s = s.strip()
    if len(s) >= 2 and s[0] == '"' and s[-1] == '"':
        return s[1:-1]
    raise ValueError(f"string literal expected: {s!r}")


MARK = {
    "cpp": dict(spin="spin_factor_list.push_back(", line="line_factor_list.push_back(", amp="amplitudes_list.push_back("),
    "py": dict(spin="spin_factor_list.append(", line="line_factor_list.append(", amp="amplitudes_list.append("),
}
_SF_RE = re.compile(r'SpinFactor\(\s*"SF"\s*,\s*SF_4Body(?:::|\.)(\w+)\s*,\s*(\d+)\s*,\s*(\d+)\s*,\s*(\d+)\s*,\s*(\d+)\s*\)')
_LS_RE = re.compile(r"Lineshapes(?:::|\.)(\w+)\(")
_MASS_RE = re.compile(r"^M_(\d)(\d)(?:_(\d))?$")


def parse_spinfactors(block):
    return [(m.group(1), tuple(int(m.group(k)) for k in range(2, 6))) for m in _SF_RE.finditer(block)]


def parse_lineshapes(block):
    out = []
    pos = 0
    while True:
        m = _LS_RE.search(block, pos)
        if not m:
            break
        args, end = scan_args(block, m.end() - 1)
        pos = end
        kind = m.group(1)
        d = dict(kind=kind, name=unquote(args[0]), args=args, detail=None, L=None, mass=None, mass_symbol=None)
        for k, a in enumerate(args):
            mm = _MASS_RE.match(a)
            if mm:
                d["mass_symbol"] = a
                d["mass"] = (frozenset((int(mm.group(1)), int(mm.group(2)))), int(mm.group(3)) if mm.group(3) else None)
                d["mass_digits"] = (int(mm.group(1)), int(mm.group(2)))
                try:
                    d["L"] = Fraction(args[k - 1])
                except (ValueError, ZeroDivisionError):
                    d["L"] = Fraction(float(args[k - 1])).limit_denominator(1000)
                break
        if kind == "kMatrix":
            d["detail"] = (int(args[1]), args[2].lower() == "true")
        elif kind == "FOCUS":
            d["detail"] = re.split(r"::|\.", args[1])[-1]
        out.append(d)
    return out


def _num(s):
    return float(s.strip())


def parse_amplitude(block, lang):
    """-> dict(name, re=(name, fixed, value, error|None), im=..., n)"""
    if lang == "cpp":
        i = block.index("new Amplitude{") + len("new Amplitude")
        args, _ = scan_args(block, i)
        coefs = []
        for a in args[1:3]:
            if not a.startswith("mkvar("):
                raise ValueError(f"mkvar expected: {a}")
            va, _ = scan_args(a, len("mkvar"))
            coefs.append((unquote(va[0]), va[1] == "true", _num(va[2]), _num(va[3])))
            if va[1] not in ("true", "false"):
                raise ValueError(f"bool expected: {va[1]}")
        refs = (args[3], args[4])
        if refs != ("line_factor_list.back()", "spin_factor_list.back()"):
            raise ValueError(f"unexpected factor references {refs}")
    else:
        i = block.index("Amplitude(") + len("Amplitude")
        args, _ = scan_args(block, i)
        coefs = []
        for a in args[1:3]:
            if not a.startswith("Variable("):
                raise ValueError(f"Variable expected: {a}")
            va, _ = scan_args(a, len("Variable"))
            if len(va) == 2:
                coefs.append((unquote(va[0]), True, _num(va[1]), None))
            elif len(va) == 5:
                coefs.append((unquote(va[0]), False, _num(va[1]), _num(va[2])))
            else:
                raise ValueError(f"Variable with {len(va)} arguments")
        refs = (args[3], args[4])
        if refs != ("line_factor_list[-1]", "spin_factor_list[-1]"):
            raise ValueError(f"unexpected factor references {refs}")
    return dict(name=unquote(args[0]), re=coefs[0], im=coefs[1], n=int(args[5]))


def amplitude_blocks(text, lang):
    """Split generated text into per-amplitude records, in textual order.  Raises ValueError when the text is
    not a sequence of (spin factor list, lineshape list, amplitude) triples."""
    mk = MARK[lang]
    marks = []
    for kind, s in mk.items():
        for m in re.finditer(re.escape(s), text):
            marks.append((m.start(), kind))
    marks.sort()
    kinds = [k for _, k in marks]
    if len(kinds) % 3 or kinds != ["spin", "line", "amp"] * (len(kinds) // 3):
        raise ValueError(f"blocks are not (spin, line, amp) triples: {kinds[:12]}")
    out = []
    for t in range(0, len(marks), 3):
        s0, s1, s2 = marks[t][0], marks[t + 1][0], marks[t + 2][0]
        s3 = marks[t + 3][0] if t + 3 < len(marks) else len(text)
        rec = parse_amplitude(text[s2:s3], lang)
        rec["spin"] = parse_spinfactors(text[s0:s1])
        rec["lines"] = parse_lineshapes(text[s1:s2])
        rec["span"] = (s0, s3)
        out.append(rec)
    return out


# --------------------------------------------------------------------------------------------------------
# oracle of one amplitude
# --------------------------------------------------------------------------------------------------------
KIND = {None: ("RBW", None)}


def declared_kind(tag):
    if not tag:
        return ("RBW", None)
    if tag == "GSpline.EFF":
        return ("GSpline", None)
    parts = tag.split(".")
    if parts[0] == "kMatrix" and len(parts) == 3 and parts[1] in ("pole", "prod"):
        return ("kMatrix", (int(parts[2]), parts[1] == "pole"))
    if parts[0] == "FOCUS" and len(parts) == 2:
        return ("FOCUS", parts[1])
    raise ValueError(f"lineshape tag {tag!r} is not one of the four kinds")


def lowest_L(node):
    """written wave tag, else the lowest orbital momentum allowed by angular-momentum addition"""
    if node["spin"]:
        return "SPD".index(node["spin"])
    J = G.spin_J(node["name"])
    j1, j2 = (G.spin_J(d["name"]) for d in node["daughters"])
    return min(abs(J - s) for s in range(abs(j1 - j2), j1 + j2 + 1))


def resonances(tree):
    spans, _ = R.leaf_spans(tree)
    return [(node, span) for node, span in spans[1:] if node["daughters"]]


def expected_groups(tree, final_states):
    """-> (permutations, Counter of per-permutation lineshape groups)"""
    perms = R.assignments(R.leaves(tree), final_states)
    res = resonances(tree)
    groups = Counter()
    for p in perms:
        g = []
        for node, (a, b) in res:
            d1, d2 = node["daughters"]
            if not d1["daughters"] and not d2["daughters"]:
                mass = (frozenset((p[a] + 1, p[a + 1] + 1)), None)
            else:
                sub = d1 if d1["daughters"] else d2
                sspans, _ = R.leaf_spans(node, a)
                (sa, sb) = next(sp for nd, sp in sspans if nd is sub)
                if sb - sa != 2 or (d1["daughters"] and d2["daughters"]):
                    raise ValueError("not a four-body topology")
                third = a if sa != a else b - 1
                mass = (frozenset((p[sa] + 1, p[sa + 1] + 1)), p[third] + 1)
            kind, detail = declared_kind(node["lineshape"])
            g.append((node["name"], kind, detail, Fraction(lowest_L(node)), mass))
        groups[tuple(sorted(g, key=repr))] += 1
    return perms, groups


SF_PREFIX = {
    ("two", ("V", "V")): lambda wave: ["DtoV1V2_V1toP1P2_V2toP3P4_" + (wave or "S")],
    ("two", ("V", "S")): lambda wave: ["DtoVS_VtoP1P2_StoP3P4"],
    ("two", ("S", "S")): lambda wave: ["ONE"],
    ("cascade", ("A", "V")): lambda wave: (["DtoAP1_AtoVP2Dwave_VtoP3P4"] if wave == "D" else
                                           ["DtoAP1_AtoVP2_VtoP3P4", "DtoAP1_AtoVP2Dwave_VtoP3P4"]),
    ("cascade", ("A", "S")): lambda wave: ["DtoAP1_AtoSP2_StoP3P4"],
    ("cascade", ("T", "V")): lambda wave: ["DtoTP1_TtoVP2_VtoP3P4"],
    ("cascade", ("s", "S")): lambda wave: ["DtoPP1_PtoSP2_StoP3P4"],
    ("cascade", ("s", "V")): lambda wave: ["DtoPP1_PtoVP2_VtoP3P4"],
}


def printed_name(name):
    from particle import Particle
    return str(Particle.from_pdgid(G.pdgid(name)))


def printed(tree):
    return R.render(tree, names=printed_name)


def check_amplitude(line, tree, final_states, all_states, lang, code=None):
    """All C18 clauses for one amplitude; -> (list of (clause, what), info)"""
    from decaylanguage.utils import LineFailure
    fails = []
    info = dict(nperm=0, supported=G.is_supported(tree), descending=0, generated=False)
    perms, groups = expected_groups(tree, final_states)
    info["nperm"] = len(perms)
    got = [tuple(x) for x in line.list_structure(all_states[1:])]
    if Counter(got) != Counter(perms):
        fails.append(("list_structure.exact_assignments", f"{R.render(tree)} in {final_states}: expected {sorted(perms)}, got {sorted(got)}"))
    try:
        if code is None:
            code = line.to_goofit(all_states[1:])
        sf_names = [sf.name for sf in line.spinfactors]
    except LineFailure as ex:
        if info["supported"]:
            fails.append(("to_goofit.supported_structure_converts", f"{R.render(tree)}: LineFailure {ex}"))
        return fails, info
    info["generated"] = True
    try:
        recs = amplitude_blocks(code, lang)
        if len(recs) != 1:
            raise ValueError(f"{len(recs)} amplitude blocks")
    except (ValueError, IndexError) as ex:
        fails.append(("to_goofit.shape", f"{R.render(tree)}: generated text not understood: {ex}"))
        return fails, info
    rec = recs[0]
    # spin factors: per permutation each factor with exactly that index tuple
    exp_sf = Counter((nm, p) for p in perms for nm in sf_names)
    if Counter(rec["spin"]) != exp_sf:
        fails.append(("spinfactors.per_permutation", f"{R.render(tree)} in {final_states}: expected {sorted(exp_sf.elements())}, got {sorted(rec['spin'])}"))
    sc = G.structure_class(tree)
    if info["supported"] and sc is not None:
        topo, classes, wave = sc
        allowed = SF_PREFIX[(topo, classes)](wave)
        Lroot = lowest_L(tree)
        ff = [] if Lroot == 0 else [("FF_12_34_L" if topo == "two" else "FF_123_4_L") + str(Lroot)]
        if not sf_names or sf_names[0] not in allowed or sf_names[1:] != ff:
            fails.append(("spinfactors.of_structure", f"{R.render(tree)}: structure {sc}: expected one of {allowed} + {ff}, amplitude has {sf_names}"))
    # lineshapes: per permutation one per resonance
    nres = len(resonances(tree))
    flat = rec["lines"]
    if nres == 0 or len(flat) % nres:
        fails.append(("lineshapes.per_permutation", f"{R.render(tree)}: {len(flat)} lineshapes for {nres} resonances"))
    else:
        got_groups = Counter()
        for k in range(0, len(flat), nres):
            g = [(d["name"], d["kind"], d["detail"], d["L"], d["mass"]) for d in flat[k:k + nres]]
            got_groups[tuple(sorted(g, key=repr))] += 1
        if got_groups != groups:
            missing = list((groups - got_groups).elements())[:2]
            extra = list((got_groups - groups).elements())[:2]
            fails.append(("lineshapes.per_permutation", f"{R.render(tree)} in {final_states}: permutations {perms}; missing groups {missing}; unexpected groups {extra}"))
    info["descending"] = sum(1 for d in flat if d.get("mass_digits") and d["mass_digits"][0] > d["mass_digits"][1])
    if rec["n"] != len(perms):
        fails.append(("amplitude.declares_n", f"{R.render(tree)} in {final_states}: {len(perms)} permutations, declared {rec['n']}"))
    if rec["name"] != printed(tree):
        fails.append(("amplitude.name", f"expected {printed(tree)}, got {rec['name']}"))
    return fails, info


CLASSES = {"cpp": ("decaylanguage.modeling.goofit", "GooFitChain"), "py": ("decaylanguage.modeling.goofit", "GooFitPyChain")}


def reader_class(lang):
    import importlib
    mod, cls = CLASSES[lang]
    return getattr(importlib.import_module(mod), cls)


def convert(path, lang):
    from decaylanguage.modeling.ampgen2goofit import ampgen2goofit, ampgen2goofitpy
    return (ampgen2goofit if lang == "cpp" else ampgen2goofitpy)(path, ret_output=True)


def check_model(text, lang, whole=True, workdir=None, only_index=None):
    """-> (fails, stats) for one option text and one output language."""
    ref = R.read(text)
    fs = ref["event_type"][1:]
    cls = reader_class(lang)
    stats = dict(amps=0, nontrivial=0, multi=0, unsupported=0, descending=0, keys=[])
    fails = []
    try:
        lines, all_states = cls.read_ampgen(text=text)
    except Exception as ex:                                     # noqa: BLE001
        return [("read", f"{type(ex).__name__}: {ex}"[:300])], stats
    exp = ref["amplitudes"]
    if len(lines) != len(exp):
        return [("amplitudes.once_in_input_order", f"{len(exp)} amplitudes expected, {len(lines)} read")], stats
    for i, (ln, a) in enumerate(zip(lines, exp)):
        if only_index is not None and i != only_index:
            continue
        try:
            f, info = check_amplitude(ln, a["tree"], fs, all_states, lang)
        except Exception as ex:                                 # noqa: BLE001
            f, info = [("to_goofit.no_internal_error", f"{R.render(a['tree'])}: {type(ex).__name__}: {ex}"[:300])], dict(nperm=0, supported=False, descending=0, generated=False)
        fails += [(c, w, i) for c, w in f]
        stats["amps"] += 1
        if info["generated"]:
            stats["nontrivial"] += 1
            stats["multi"] += info["nperm"] > 1
            stats["keys"].append((lang, R.render(a["tree"]), tuple(fs)))
        stats["unsupported"] += not info["supported"]
        stats["descending"] += info["descending"]
    if whole and only_index is None and all(G.is_supported(a["tree"]) for a in exp):
        own = None
        if workdir is None:
            own = G.work_dir()
            workdir = own.name
        try:
            path = os.path.join(workdir, f"model-{os.getpid()}-{lang}.txt")
            with open(path, "w", encoding="utf_8") as fh:
                fh.write(text)
            try:
                out = convert(path, lang)
                recs = amplitude_blocks(out, lang)
                names = [r["name"] for r in recs]
                want = [printed(a["tree"]) for a in exp]
                if names != want:
                    fails.append(("amplitudes.once_in_input_order", f"expected {want}, output has {names}", None))
                nums = [int(x) for x in re.findall(r"^\s*(?://|#) Line (\d+)\s*$", out, flags=re.M)]
                if nums != list(range(len(want))):
                    fails.append(("amplitudes.once_in_input_order", f"line comments numbered {nums}", None))
                for i, (r, a) in enumerate(zip(recs, exp)):
                    perms = R.assignments(R.leaves(a["tree"]), fs)
                    if r["n"] != len(perms) or Counter(p for _, p in r["spin"]) != Counter({p: len(r["spin"]) // max(1, len(perms)) for p in perms}):
                        fails.append(("output.per_amplitude_permutations", f"amplitude {i} {want[i]}: permutations {perms}, output declares {r['n']} with spin-factor indices {sorted(set(p for _, p in r['spin']))}", i))
            except Exception as ex:                             # noqa: BLE001
                fails.append(("convert.no_internal_error", f"{type(ex).__name__}: {ex}"[:300], None))
            finally:
                if os.path.exists(path):
                    os.remove(path)
        finally:
            if own is not None:
                own.cleanup()
    return fails, stats


# --------------------------------------------------------------------------------------------------------
# (a) list_structure, exhaustively
# --------------------------------------------------------------------------------------------------------
KINDS = ["pi+", "pi-", "K-", "K+"]


def shapes(n):
    if n == 1:
        return [None]
    out = []
    for k in range(1, n):
        for a in shapes(k):
            for b in shapes(n - k):
                out.append((a, b))
    return out


def _build(shape, labels, parts, top=True):
    from decaylanguage.modeling.decay import ModelDecay
    if shape is None:
        return ModelDecay(parts[labels.pop(0)])
    a = _build(shape[0], labels, parts, False)
    b = _build(shape[1], labels, parts, False)
    return ModelDecay(parts["D0" if top else "rho(770)0"], [a, b])


def _parts():
    from particle import Particle
    return {n: Particle.from_pdgid(G.pdgid(n)) for n in KINDS + ["D0", "rho(770)0"]}


def check_structure(shape, labels, fs, parts=None):
    parts = parts or _parts()
    tree = _build(shape, list(labels), parts)
    exp = R.assignments(list(labels), list(fs))
    try:
        got = [tuple(x) for x in tree.list_structure([parts[f] for f in fs])]
    except RuntimeError as ex:
        if set(labels) - set(fs):
            return None, exp                 # documented: a leaf that is no final state
        return f"RuntimeError {ex}", exp
    if Counter(got) != Counter(exp):
        return f"expected {sorted(exp)}, got {sorted(got)}", exp
    return None, exp


def _structure_task(args):
    n, si, first, extra = args
    parts = _parts()
    shape = shapes(n)[si]
    ev = nontrivial = multi = 0
    fails = []
    for rest in itertools.product(KINDS, repeat=n - 1):
        labels = (first,) + rest
        for m in range(n, n + 1 + extra):
            for fs in itertools.product(KINDS, repeat=m):
                ev += 1
                err, exp = check_structure(shape, labels, fs, parts)
                if exp:
                    nontrivial += 1
                    multi += len(exp) > 1
                if err and len(fails) < 3:
                    fails.append(dict(shape=repr(shape), shape_index=si, leaves=list(labels), final_states=list(fs), what=err))
    return ev, nontrivial, multi, fails


# --------------------------------------------------------------------------------------------------------
def _model_task(case):
    res = []
    with G.work_dir() as wd:
        for lang in ("cpp", "py"):
            try:
                fails, stats = check_model(case["text"], lang, workdir=wd)
                res.append((case["label"], lang, fails, stats, None))
            except (R.OptionSyntaxError, KeyError) as ex:
                res.append((case["label"], lang, [], {}, f"generator/reference error: {ex!r}"))
    return case, res


def replay(input):                                              # noqa: A002
    if input.get("kind") == "structure":
        shape = shapes(len(input["leaves"]))[input["shape_index"]]
        err, _ = check_structure(shape, tuple(input["leaves"]), tuple(input["final_states"]))
        return (err is None), (err or "list_structure returns exactly the oracle's assignments")
    G.install_lookup_memo()
    fails, _ = check_model(input["text"], input["lang"])
    fails = [f for f in fails if input.get("clause") in (None, f[0])]
    if fails:
        return False, "; ".join(f"{c}: {w}" for c, w, *_ in fails[:4])
    return True, "generated code carries exactly the oracle's permutations"


def run(tier="quick", seed=0):
    t0 = time.time()
    errors = list(G.check_pool())
    memo = G.install_lookup_memo()
    G.prewarm_memo(memo)
    procs = min(16, os.cpu_count() or 1)
    ctx = mp.get_context("fork")
    extra = 1 if tier == "thorough" else 0
    stasks = [(n, si, first, extra) for n in (2, 3, 4) for si in range(len(shapes(n))) for first in KINDS]
    cases = list(G.fourbody_models(tier, seed, supported=True)) + list(G.fourbody_models(tier, seed, supported=False))
    with ctx.Pool(procs) as pool:
        s_async = pool.map_async(_structure_task, stasks, chunksize=1)
        m_res = pool.map(_model_task, cases, chunksize=2)
        s_res = s_async.get()
    # (a)
    ev = sum(r[0] for r in s_res)
    nt = sum(r[1] for r in s_res)
    multi = sum(r[2] for r in s_res)
    s_fail = [f for r in s_res for f in r[3]]
    entry_a = dict(
        name="C18.list_structure.exhaustive", function=Q_LIST,
        bound=(f"all binary tree shapes with 2..4 leaves ({sum(len(shapes(n)) for n in (2, 3, 4))} shapes) x all leaf labellings over "
               f"{len(KINDS)} particle kinds x all final-state lists of length n" + (" and n+1" if extra else "") + " over the same kinds"),
        evaluations=ev, distinct_nontrivial=nt,
        rule=("one evaluation = one (shape, labelling, final-state list); all are distinct by construction; non-trivial = the oracle "
              f"has >= 1 assignment ({multi} of them have >= 2, i.e. identical particles to symmetrise)"),
        exhaustive=True,
        samples=[dict(shape=repr(shapes(4)[2]), leaves=["pi+", "K-", "pi+", "pi-"], final_states=["K-", "pi+", "pi+", "pi-"]),
                 dict(shape=repr(shapes(3)[0]), leaves=["pi+", "pi+", "pi-"], final_states=["pi+", "pi-", "pi+"])],
        failures=[dict(function=Q_LIST, clause="list_structure.exact_assignments", what=f["what"],
                       input=dict(kind="structure", shape=f["shape"], shape_index=f["shape_index"], leaves=f["leaves"], final_states=f["final_states"]),
                       replay={"module": "checks.C18", "function": "replay"}) for f in s_fail[:5]],
        errors=[],
    )
    # (b)
    evb = 0
    keys = set()
    multi_b = unsupported = descending = files = 0
    failures = []
    for case, res in m_res:
        files += 1
        for label, lang, fails, stats, err in res:
            if err:
                errors.append(f"{label}: {err}")
                continue
            evb += stats["amps"]
            keys.update(stats["keys"])
            multi_b += stats["multi"]
            unsupported += stats["unsupported"]
            descending += stats["descending"]
            for f in fails:
                failures.append(dict(label=label, lang=lang, text=case["text"], clause=f[0], what=f[1]))
    out_fail = []
    per_clause = {}
    for f in failures:
        k = (f["clause"], f["lang"])
        per_clause[k] = per_clause.get(k, 0) + 1
        if per_clause[k] > 2 or len(out_fail) >= 10:
            continue
        clause, lang = f["clause"], f["lang"]

        def still(t, clause=clause, lang=lang):
            return any(c == clause for c, *_ in check_model(t, lang)[0])
        small = G.shrink_lines(f["text"], still, max_tries=60)
        fl = [x for x in check_model(small, lang)[0] if x[0] == clause]
        fn = {"cpp": Q_CPP, "py": Q_PY}[lang]
        if clause.startswith("list_structure"):
            fn = Q_LIST
        elif clause.startswith(("amplitudes.once", "output.", "convert.")):
            fn = {"cpp": Q_A2G, "py": Q_A2GPY}[lang]
        out_fail.append(dict(function=fn, clause=clause, what=(fl[0][1] if fl else f["what"]),
                             input=dict(kind="model", text=small, lang=lang, clause=clause),
                             replay={"module": "checks.C18", "function": "replay"}))
    entry_b = dict(
        name="C18.generated_code.permutations", function=Q_CPP + " / " + Q_PY,
        bound=(f"{len(G.FOURBODY_EVENT_TYPES)} four-body event types; every two-resonance and cascade structure over the resonance pool "
               "(7 K-pi+, 10 pi+pi-, 1 K+pi-, 1 K+K- two-body and 11 three-body resonances) with every wave tag None/S/P/D that is in "
               "the supported list, lineshape kinds "
               + ("9x9 grid cycled over resonance choices" if tier == "thorough" else "5x5 grid cycled over resonance choices")
               + "; files of 1..7 amplitudes in complete / partial notation; plus unsupported structures (every "
               + ("one" if tier == "thorough" else "5th") + ") checked only if code is produced; both output classes"),
        evaluations=evb, distinct_nontrivial=len(keys),
        rule=("one evaluation = one (amplitude, output class): list_structure, to_goofit text parsed and compared with the oracle; "
              "distinct = distinct (class, amplitude text, event type); non-trivial = code was generated (supported structure). "
              f"{multi_b} evaluations have >= 2 permutations; {unsupported} evaluations on unsupported structures; {files} files converted "
              f"whole by ampgen2goofit and ampgen2goofitpy for the order clause; observation: {descending} lineshapes carry a mass symbol "
              "with descending pair digits (e.g. M_31)"),
        exhaustive=False,
        samples=[dict(label=c["label"], text=c["text"]) for c in cases[:: max(1, len(cases) // 2)][:2]],
        failures=out_fail, errors=errors, failures_total=len(failures),
        observations=dict(descending_pair_symbols=descending),
        wall_s=round(time.time() - t0, 1),
    )
    return {"bounded": [entry_a, entry_b]}


# --------------------------------------------------------------------------------------------------------
# whole-output readers shared with C19 / C20 (written from the statements of C19 and C20)
# --------------------------------------------------------------------------------------------------------
def strip_timestamp(text):
    return "\n".join(l for l in text.split("\n") if not l.startswith("Generated on"))


def split_output(text, lang):
    """-> (header comment lines, code lines).  The header is the leading comment block of the output."""
    lines = text.split("\n")
    if lang == "cpp":
        end = next(i for i, l in enumerate(lines) if l.strip() == "*/")
    else:
        q = [i for i, l in enumerate(lines) if l.strip() == "'''"]
        end = q[1]
    return lines[:end + 1], lines[end + 1:]


_NUMLIT = r"[-+]?(?:\d+\.?\d*|\.\d+)(?:[eE][-+]?\d+)?"


def canonical_output(text, lang):
    """The output modulo what C20 exempts: the timestamp line and the relative order of mutually independent
    declarations (header groups per spin configuration, mass constants, resonance mass/width variables,
    parameter-array blocks).  Everything else stays in order.  JSON-able."""
    header, code = split_output(strip_timestamp(text), lang)
    # header: groups "<configuration> : <factors>" + indented member lines, up to the spin-type table
    tbl = next((i for i, l in enumerate(header) if re.match(r"^\s*Scalar:", l)), len(header))
    first = next((i for i, l in enumerate(header[:tbl]) if " : " in l and not l.startswith(" ")), tbl)
    groups, cur = [], None
    for l in header[first:tbl]:
        if not l.strip():
            continue
        if not l.startswith(" "):
            cur = [l, []]
            groups.append(cur)
        elif cur is not None:
            cur[1].append(l)
    # code: intro up to particle_masses, parameters up to the "Lines" comment
    pm = next((i for i, l in enumerate(code) if "particle_masses" in l), len(code) - 1)
    consts, resv, rest = [], [], []
    for l in code[:pm + 1]:
        if lang == "cpp" and l.strip().startswith("constexpr fptype"):
            consts.append(l.strip())
        elif lang == "py" and re.match(r"^\w+\s*=\s*" + _NUMLIT + r"\s*$", l):
            consts.append(l.strip())
        elif (lang == "cpp" and re.match(r"^\s*Variable\s+\w+\s*\{", l)) or (lang == "py" and re.match(r"^\w+\s*=\s*Variable\(", l)):
            resv.append(l.strip())
        else:
            rest.append(l)
    blocks, cur = [], None
    for l in code[pm + 1:]:
        if cur is not None:
            cur.append(l)
            if (lang == "cpp" and l.strip().startswith("}}")) or (lang == "py" and l.rstrip().endswith("]")):
                blocks.append(cur)
                cur = None
            continue
        if (lang == "cpp" and "std::vector<Variable>" in l) or (lang == "py" and re.match(r"^\w+\s*=\s*\[\s*$", l)):
            cur = [l]
            continue
        rest.append(l)
    if cur is not None:
        blocks.append(cur)
    return dict(header_groups=sorted([g[0], g[1]] for g in groups), header_rest=header[:first] + header[tbl:],
                mass_constants=sorted(consts), resonance_variables=sorted(resv), array_blocks=sorted(blocks), rest=rest)
