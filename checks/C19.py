"""C19 - C++ and Python GooFit outputs describe the same, self-contained model (bounded stand-in).

Real code executed: ampgen2goofit / ampgen2goofitpy (ret_output True and False) and
``python -m decaylanguage -G goofit|goofitpy file``.  The abstract model is read back from both generated
texts with the extractors of checks/C18.py plus the declaration readers below (all written from the
property statement).
"""
from __future__ import annotations

import contextlib
import io
import multiprocessing as mp
import os
import re
import subprocess
import sys
import time
from concurrent.futures import ThreadPoolExecutor

from checks import C18 as X
from specs import ampgen_gen as G
from specs import ampgen_reader as R

Q_CPP = "decaylanguage.modeling.ampgen2goofit.ampgen2goofit"
Q_PY = "decaylanguage.modeling.ampgen2goofit.ampgen2goofitpy"
Q_MAIN = "decaylanguage.__main__.DecayLanguageDecay.main"
SHIPPED = "/repo/models/DtoKpipipi_v2.txt"

META = {
    "level": "other",
    "explanation": (
        "Bounded: models/DtoKpipipi_v2.txt and generated four-body option files (all supported spin structures, both "
        "topologies, four lineshape kinds with the spline / K-matrix parameter families they need, extra fit parameters, "
        "fixed and free couplings, polar and cartesian) are converted by ampgen2goofit and ampgen2goofitpy; both texts are "
        "read back into an abstract model (event type, mass constants, particle_masses, resonance mass/width variables, "
        "fit parameters (symbol, name, value, error, fixed), parameter arrays, amplitudes (name, *_r/*_i coefficient names, "
        "values, errors when free, fixedness, spin factors with indices, lineshapes with all arguments, n)) and the two "
        "models must be equal; coefficient names *_r / *_i distinct; every non-API identifier used in the code part is "
        "declared earlier in the same output; the Python output compiles; ret_output=True string == captured stdout of "
        "ret_output=False apart from the timestamp line; `python -m decaylanguage -G goofit|goofitpy file` prints the text the "
        "function returns: for the generated files both are produced in fresh interpreters with PYTHONHASHSEED=0 and compared "
        "exactly apart from the timestamp; for the shipped model (40 s per uncached conversion) the CLI text is compared with the "
        "in-process result modulo timestamp and the order of mutually independent declarations (other process, other hash seed)."),
    "assumptions": [
        "particle_from_string_name memoised per (name, particle-table size) in the in-process conversions (not in the CLI subprocesses)",
        "GooFit API / host identifiers are not model symbols: std vector Lineshape SpinFactor Amplitude Variable constexpr fptype new "
        "Lineshapes FF SF_4Body true false True False mkvar DecayInfo4 from goofit import, mass enumerators M_ab / M_ab_c, and DK3P_DI in "
        "the C++ fragment (supplied by the host program; declared in the Python output)",
        "premise 'the file defines the parameters its lineshapes need': a K-matrix/spline symbol without any defining line in the input "
        "is recorded as premise-unmet for the shipped model only (generated files define everything, nothing is excused there)",
    ],
    "trusted_base": ["checks/C18.py extractors", "specs/ampgen_gen.py", "specs/ampgen_reader.py", "CPython compile()"],
    "not_applicable_clauses": ["the Python output runs against the GooFit API (GooFit is not installed; only compile() and declared-before-used are checked)"],
}

# --------------------------------------------------------------------------------------------------------
# declaration readers
# --------------------------------------------------------------------------------------------------------
API = {"std", "vector", "Lineshape", "SpinFactor", "Amplitude", "Variable", "constexpr", "fptype", "new", "Lineshapes", "FF",
       "SF_4Body", "true", "false", "True", "False", "mkvar", "DecayInfo4", "from", "goofit", "import"}
HOST = {"cpp": {"DK3P_DI"}, "py": set()}
_IDENT = re.compile(r"(?<![\w.])[A-Za-z_]\w*")
_MASS = re.compile(r"^M_\d\d(?:_\d)?$")


def _blank_strings_comments(code, lang):
    """same length text with string literals and comments blanked"""
    out = list(code)
    i, n = 0, len(code)
    while i < n:
        c = code[i]
        if c == '"':
            j = code.index('"', i + 1)
            for k in range(i, j + 1):
                out[k] = " "
            i = j + 1
            continue
        if (lang == "cpp" and code.startswith("//", i)) or (lang == "py" and c == "#"):
            j = code.find("\n", i)
            j = n if j < 0 else j
            for k in range(i, j):
                out[k] = " "
            i = j
            continue
        i += 1
    return "".join(out)


def declared_before_used(text, lang):
    """-> list of (identifier, line number in code part) used before (or without) declaration"""
    _, code_lines = X.split_output(text, lang)
    code = _blank_strings_comments("\n".join(code_lines), lang)
    decl_at = {}                     # token start -> position from which the name is available
    if lang == "cpp":
        for m in re.finditer(r"(?:\bVariable|\bfptype|>)\s+([A-Za-z_]\w*)\s*(?=\{|;)", code):
            end = code.find(";", m.end())
            decl_at[m.start(1)] = end if end >= 0 else m.end()
    else:
        for m in re.finditer(r"^([A-Za-z_]\w*)\s*=(?!=)", code, flags=re.M):
            depth, j = 0, m.end()
            while j < len(code) and not (code[j] == "\n" and depth == 0):
                depth += code[j] in "([{"
                depth -= code[j] in ")]}"
                j += 1
            decl_at[m.start(1)] = j
    pending = sorted((avail, code[s:_IDENT.match(code, s).end()]) for s, avail in decl_at.items())
    declared = set()
    bad = []
    pi = 0
    for m in _IDENT.finditer(code):
        while pi < len(pending) and pending[pi][0] <= m.start():
            declared.add(pending[pi][1])
            pi += 1
        if m.start() in decl_at:
            continue
        tok = m.group(0)
        if code[max(0, m.start() - 2):m.start()] == "::":
            continue                                            # qualified member
        if tok in API or tok in HOST[lang] or _MASS.match(tok):
            continue
        if tok not in declared:
            bad.append((tok, code.count("\n", 0, m.start()) + 1))
    return bad


def _find_calls(code, regex):
    for m in re.finditer(regex, code, flags=re.M):
        args, end = X.scan_args(code, m.end() - 1)
        yield m, args, end


def read_model(text, lang):
    """Abstract model of one output."""
    header, code_lines = X.split_output(text, lang)
    code = "\n".join(code_lines)
    M = {}
    ev = re.search(r"Event type:\s*(\S+)\s*->\s*(.*)$", code, flags=re.M)
    M["event_type"] = (ev.group(1), re.findall(r"(\S+)\s+\((\d+)\)", ev.group(2))) if ev else None
    pm = code.index("particle_masses")
    intro, after = code[:pm], code[pm:]
    if lang == "cpp":
        M["mass_constants"] = {m.group(1): float(m.group(2)) for m in
                               re.finditer(r"constexpr\s+fptype\s+(\w+)\s*\{\s*(" + X._NUMLIT + r")\s*\}\s*;", intro)}
        pmm = re.search(r"particle_masses\s*=\s*\{([^}]*)\}", after)
        var_re = r"\bVariable\s+(\w+)\s*\{"
        arr_re = r"std::vector<Variable>\s+(\w+)\s*\{\{"
    else:
        M["mass_constants"] = {m.group(1): float(m.group(2)) for m in
                               re.finditer(r"^(\w+)\s*=\s*(" + X._NUMLIT + r")\s*$", intro, flags=re.M)}
        pmm = re.search(r"particle_masses\s*=\s*\(([^)]*)\)", after)
        var_re = r"^(\w+)\s*=\s*Variable\("
        arr_re = r"^(\w+)\s*=\s*\["
    M["particle_masses"] = [x.strip() for x in pmm.group(1).split(",")] if pmm else None
    mr = re.search(r"meson_radius\s*=\s*(" + X._NUMLIT + ")", code)
    M["meson_radius"] = float(mr.group(1)) if mr else None

    def variables(region):
        out = []
        for m, args, _ in _find_calls(region, var_re):
            if len(args) not in (2, 3):
                raise ValueError(f"Variable {m.group(1)} with {len(args)} arguments")
            out.append((m.group(1), X.unquote(args[0]), float(args[1]), float(args[2]) if len(args) == 3 else None))
        return out
    M["resonance_variables"] = sorted(variables(intro))
    lines_at = re.search(r"(?://|#) Lines", after)
    par_region = after[:lines_at.start()] if lines_at else after
    M["fit_parameters"] = variables(par_region)
    arrays = {}
    for m in re.finditer(arr_re, par_region, flags=re.M):
        args, _ = X.scan_args(par_region, m.end() - 1)
        arrays[m.group(1)] = args
    M["arrays"] = arrays
    amps = []
    for r in X.amplitude_blocks(code, lang):
        amps.append(dict(name=r["name"], re=r["re"], im=r["im"], n=r["n"], spin=r["spin"],
                         lines=[norm_lineshape(d) for d in r["lines"]]))
    M["amplitudes"] = amps
    return M


def norm_arg(a):
    a = a.strip()
    if a.startswith("new "):
        a = a[4:].strip()
    if a.startswith('"'):
        return ("str", X.unquote(a))
    if a in ("true", "True"):
        return ("bool", True)
    if a in ("false", "False"):
        return ("bool", False)
    try:
        return ("num", float(a))
    except ValueError:
        pass
    a = a.replace("::", ".")
    if a.startswith("Lineshapes.spline_t("):
        a = a[len("Lineshapes.spline_t"):]
    if a.startswith("(") and a.endswith(")"):
        return ("tuple", tuple(float(x) for x in a[1:-1].split(",")))
    if a.startswith(("Lineshapes.FOCUS.Mod.", "Lineshapes.FocusMod.")):
        return ("focusmod", a.rsplit(".", 1)[1])
    return ("sym", a)


def norm_lineshape(d):
    return (d["kind"], tuple(norm_arg(a) for a in d["args"]))


def compare_models(A, B):
    """-> list of (clause, what) where the C++ model A and the Python model B differ"""
    fails = []
    for key, clause in (("event_type", "same.event_type"), ("mass_constants", "same.mass_constants"),
                        ("particle_masses", "same.mass_constants"), ("meson_radius", "same.mass_constants"),
                        ("resonance_variables", "same.resonance_variables"), ("fit_parameters", "same.fit_parameters"),
                        ("arrays", "same.fit_parameters")):
        if A[key] != B[key]:
            fails.append((clause, f"{key}: C++ {str(A[key])[:300]} / Python {str(B[key])[:300]}"))
    if len(A["amplitudes"]) != len(B["amplitudes"]):
        fails.append(("same.amplitudes", f"{len(A['amplitudes'])} amplitudes in C++, {len(B['amplitudes'])} in Python"))
        return fails
    for i, (a, b) in enumerate(zip(A["amplitudes"], B["amplitudes"])):
        if a["name"] != b["name"] or a["n"] != b["n"]:
            fails.append(("same.amplitudes", f"amplitude {i}: {a['name']} n={a['n']} / {b['name']} n={b['n']}"))
        for part in ("re", "im"):
            (an, af, av, ae), (bn, bf, bv, be) = a[part], b[part]
            if an != bn:
                fails.append(("same.coefficient_names", f"amplitude {i} {a['name']}: {part} coefficient named {an!r} in C++, {bn!r} in Python"))
            if af != bf:
                fails.append(("same.coefficient_fixedness", f"amplitude {i} {a['name']}: {part} fixed={af} in C++, fixed={bf} in Python"))
            if av != bv or (not af and not bf and ae != be):
                fails.append(("same.coefficient_values", f"amplitude {i} {a['name']}: {part} ({av}, {ae}) in C++, ({bv}, {be}) in Python"))
        if a["spin"] != b["spin"]:
            fails.append(("same.spin_factors", f"amplitude {i} {a['name']}: {a['spin']} / {b['spin']}"))
        if a["lines"] != b["lines"]:
            d = next((k for k, (x, y) in enumerate(zip(a["lines"], b["lines"])) if x != y), None)
            fails.append(("same.lineshapes", f"amplitude {i} {a['name']}: " + (f"lineshape {d}: {a['lines'][d]} / {b['lines'][d]}" if d is not None
                                                                              else f"{len(a['lines'])} / {len(b['lines'])} lineshapes")))
    return fails


def own_model_clauses(Mdl, lang, n_par_lines, n_amp):
    fails = []
    for i, a in enumerate(Mdl["amplitudes"]):
        if a["re"][0] == a["im"][0]:
            fails.append(("coefficients.distinct_names", f"{lang}: amplitude {i} {a['name']}: both coefficients are named {a['re'][0]!r}"))
        if a["re"][0] != a["name"] + "_r" or a["im"][0] != a["name"] + "_i":
            fails.append(("coefficients.names", f"{lang}: amplitude {i} {a['name']}: coefficients {a['re'][0]!r}, {a['im'][0]!r}"))
    if len(Mdl["fit_parameters"]) != n_par_lines:
        fails.append(("contains.fit_parameters", f"{lang}: {n_par_lines} parameter lines in the file, {len(Mdl['fit_parameters'])} declared"))
    if len(Mdl["amplitudes"]) != n_amp:
        fails.append(("contains.amplitudes", f"{lang}: {n_amp} amplitudes in the file, {len(Mdl['amplitudes'])} in the output"))
    if Mdl["particle_masses"] is None or any(x not in Mdl["mass_constants"] for x in Mdl["particle_masses"]):
        fails.append(("contains.mass_constants", f"{lang}: particle_masses {Mdl['particle_masses']} vs constants {sorted(Mdl['mass_constants'])}"))
    return fails


def _excusable(sym, ref):
    """premise of C19 not met for this symbol: the input has no line that could define it"""
    from particle.particle.utilities import programmatic_name
    pnames = [p[0] for p in ref["parameters"]]
    cnames = [c[0] for c in ref["constants"]]
    if sym in ("sA_0", "sA", "s0_prod", "s0_scatt"):
        return sym not in [programmatic_name(p, False) for p in pnames]
    if sym == "f_scatt":
        return not any(p.startswith("f_scatt") for p in pnames)
    if sym == "IS_poles":
        return not any(p.startswith("IS_p") for p in pnames)
    if sym.endswith("_SplineArr"):
        return not any("::Spline::" in c for c in cnames)
    return False


def run_conversions(path):
    """-> dict lang -> (returned string, printed string)"""
    from decaylanguage.modeling.ampgen2goofit import ampgen2goofit, ampgen2goofitpy
    out = {}
    for lang, fn in (("cpp", ampgen2goofit), ("py", ampgen2goofitpy)):
        s = fn(path, ret_output=True)
        buf = io.StringIO()
        with contextlib.redirect_stdout(buf):
            r = fn(path, ret_output=False)
        out[lang] = (s, buf.getvalue(), r)
    return out


def check_file(path, excuse_unmet_premise=False):
    """All in-process clauses for one option file; -> (fails, stats, outputs)"""
    with open(path, encoding="utf_8") as fh:
        text = fh.read()
    ref = R.read(text)
    stats = dict(amps=len(ref["amplitudes"]), pars=len(ref["parameters"]), unmet=[], symbols=0)
    fails = []
    try:
        outs = run_conversions(path)
    except Exception as ex:                                     # noqa: BLE001
        return [("converts", f"{type(ex).__name__}: {ex}"[:400])], stats, None
    models = {}
    for lang, (s, printed, ret) in outs.items():
        if not isinstance(s, str) or ret is not None:
            fails.append(("ret_output.string_or_print", f"{lang}: ret_output=True returned {type(s).__name__}, ret_output=False returned {type(ret).__name__}"))
            continue
        if X.strip_timestamp(s) != X.strip_timestamp(printed):
            a, b = X.strip_timestamp(s).split("\n"), X.strip_timestamp(printed).split("\n")
            k = next((i for i, (x, y) in enumerate(zip(a, b)) if x != y), min(len(a), len(b)))
            fails.append(("ret_output.equals_printed", f"{lang}: returned text has {len(a)} lines, printed {len(b)}; first difference at line {k}: "
                          f"{a[k] if k < len(a) else '<end>'!r} / {b[k] if k < len(b) else '<end>'!r}"))
        try:
            models[lang] = read_model(s, lang)
        except Exception as ex:                                 # noqa: BLE001
            fails.append(("output.readable", f"{lang}: {type(ex).__name__}: {ex}"[:300]))
            continue
        fails += own_model_clauses(models[lang], lang, len(ref["parameters"]), len(ref["amplitudes"]))
        und = declared_before_used(s, lang)
        stats["symbols"] += len(und)
        seen = set()
        for sym, ln in und:
            if sym in seen:
                continue
            seen.add(sym)
            if excuse_unmet_premise and _excusable(sym, ref):
                stats["unmet"].append(f"{lang}: {sym}")
                continue
            fails.append(("symbols.declared_before_use", f"{lang}: {sym!r} is used at code line {ln} ({und.count((sym, ln))}x there, "
                          f"{sum(1 for s2, _ in und if s2 == sym)}x in all) without an earlier declaration"))
        if lang == "py":
            try:
                compile(s, "<goofitpy output>", "exec")
            except SyntaxError as ex:
                fails.append(("python.compiles", f"SyntaxError line {ex.lineno}: {ex.msg}: {(ex.text or '').strip()[:120]}"))
    if len(models) == 2:
        fails += compare_models(models["cpp"], models["py"])
    return fails, stats, {k: v[0] for k, v in outs.items()}


def cli_output(path, gen, env_extra=None):
    env = dict(os.environ)
    env.pop("PYTHONHASHSEED", None)
    env.update(env_extra or {})
    p = subprocess.run([sys.executable, "-m", "decaylanguage", "-G", gen, path], capture_output=True, text=True, env=env, timeout=1500)
    return p.returncode, p.stdout, p.stderr


def function_output_fresh(path, gen, env_extra=None):
    """ampgen2goofit(py)(path, ret_output=True) evaluated in a fresh interpreter and written to its stdout unchanged"""
    env = dict(os.environ)
    env.pop("PYTHONHASHSEED", None)
    env.update(env_extra or {})
    code = ("import sys; from decaylanguage.modeling.ampgen2goofit import ampgen2goofit, ampgen2goofitpy; "
            "sys.stdout.write((ampgen2goofit if sys.argv[2] == 'goofit' else ampgen2goofitpy)(sys.argv[1], ret_output=True))")
    p = subprocess.run([sys.executable, "-c", code, path, gen], capture_output=True, text=True, env=env, timeout=1500)
    return p.returncode, p.stdout, p.stderr


def check_cli(path, outs=None, exact=True):
    """Command line output of both generators == text returned by the function.

    exact: both sides are produced in fresh interpreters with PYTHONHASHSEED=0 and must be equal apart from the
    timestamp line; otherwise the CLI text is compared with ``outs`` (made in this process, other hash seed)
    modulo the order of mutually independent declarations."""
    fails = []
    gens = (("cpp", "goofit"), ("py", "goofitpy"))
    seed = {"PYTHONHASHSEED": "0"}
    with ThreadPoolExecutor(4) as tp:
        futs = {lang: tp.submit(cli_output, path, gen, seed if exact else None) for lang, gen in gens}
        ffuts = {lang: tp.submit(function_output_fresh, path, gen, seed) for lang, gen in gens} if exact else {}
        for lang, gen in gens:
            rc, so, se = futs[lang].result()
            if rc != 0:
                fails.append(("cli.runs", f"-G {gen}: exit {rc}: {se[-300:]}"))
                continue
            if exact:
                rc2, fo, fe = ffuts[lang].result()
                if rc2 != 0:
                    fails.append(("converts", f"{lang}: fresh interpreter: {fe[-300:]}"))
                    continue
                a, b = X.strip_timestamp(so).split("\n"), X.strip_timestamp(fo).split("\n")
                if a != b:
                    k = next((i for i, (x, y) in enumerate(zip(a, b)) if x != y), min(len(a), len(b)))
                    fails.append(("cli.same_text", f"-G {gen}: CLI prints {len(a)} lines, function returns {len(b)}; first difference at line {k}: "
                                  f"{a[k] if k < len(a) else '<end>'!r} / {b[k] if k < len(b) else '<end>'!r}"))
            else:
                a, b = X.canonical_output(so, lang), X.canonical_output(outs[lang], lang)
                if a != b:
                    k = next((key for key in a if a[key] != b[key]), None)
                    fails.append(("cli.same_text", f"-G {gen}: part {k} differs: CLI {str(a[k])[:200]} / function {str(b[k])[:200]}"))
    return fails


# --------------------------------------------------------------------------------------------------------
def _task(case):
    with G.work_dir() as wd:
        path = os.path.join(wd, "model.txt")
        with open(path, "w", encoding="utf_8") as fh:
            fh.write(case["text"])
        try:
            fails, stats, _ = check_file(path)
        except (R.OptionSyntaxError, KeyError) as ex:
            return case, [], {}, f"generator/reference error: {ex!r}"
    return case, fails, stats, None


def _cli_task(case):
    with G.work_dir() as wd:
        path = os.path.join(wd, "model.txt")
        with open(path, "w", encoding="utf_8") as fh:
            fh.write(case["text"])
        return case, check_cli(path)


def replay(input):                                              # noqa: A002
    G.install_lookup_memo()
    want = input.get("clause")
    with G.work_dir() as wd:
        if input.get("file"):
            path = input["file"]
        else:
            path = os.path.join(wd, "model.txt")
            with open(path, "w", encoding="utf_8") as fh:
                fh.write(input["text"])
        if want and want.startswith("cli."):
            fails = check_cli(path)
        else:
            fails, _, _ = check_file(path, excuse_unmet_premise=bool(input.get("file")))
    fails = [f for f in fails if want in (None, f[0])]
    if fails:
        return False, "; ".join(f"{c}: {w}" for c, w in fails[:4])
    return True, "both outputs describe the same self-contained model"


def _function_of(clause, what=""):
    if clause.startswith("cli."):
        return Q_MAIN
    if what.startswith("cpp:"):
        return Q_CPP
    return Q_PY        # clauses on the Python output, and the same.* clauses (a difference between the two outputs)


def run(tier="quick", seed=0):
    t0 = time.time()
    errors = list(G.check_pool())
    # the CLI runs on the shipped model are the longest single jobs (no memo in a subprocess): start them first
    tp = ThreadPoolExecutor(4)
    cli_shipped = {lang: tp.submit(cli_output, SHIPPED, gen) for lang, gen in (("cpp", "goofit"), ("py", "goofitpy"))}
    memo = G.install_lookup_memo()
    G.prewarm_memo(memo, procs=12)
    cases = list(G.fourbody_models(tier, seed, supported=True))
    cases = cases[::3] if tier == "quick" else cases[::2]
    n_cli = 4 if tier == "quick" else 16
    cli_cases = cases[:: max(1, len(cases) // n_cli)][:n_cli]
    procs = min(14, os.cpu_count() or 1)
    ctx = mp.get_context("fork")
    with ctx.Pool(procs) as pool:
        cli_async = pool.map_async(_cli_task, cli_cases, chunksize=1)
        # stop early once enough failing cases are known: a defect that makes every later call slower (state growing
        # from call to call) must not turn the check into an endless run
        res = []
        n_bad = 0
        for r_ in pool.imap_unordered(_task, cases, chunksize=2):
            res.append(r_)
            if r_[1]:
                n_bad += 1
                if n_bad >= 25:
                    break
        # shipped model, in process
        sh_fails, sh_stats, sh_outs = check_file(SHIPPED, excuse_unmet_premise=True)
        cli_res = cli_async.get(timeout=900) if n_bad < 25 else []
        pool.terminate()
    for lang, fut in cli_shipped.items():
        rc, so, se = fut.result()
        gen = "goofit" if lang == "cpp" else "goofitpy"
        if rc != 0:
            sh_fails.append(("cli.runs", f"-G {gen} {SHIPPED}: exit {rc}: {se[-300:]}"))
        elif sh_outs and X.canonical_output(so, lang) != X.canonical_output(sh_outs[lang], lang):
            a, b = X.canonical_output(so, lang), X.canonical_output(sh_outs[lang], lang)
            k = next((key for key in a if a[key] != b[key]), None)
            sh_fails.append(("cli.same_text", f"-G {gen} {SHIPPED}: part {k} differs: CLI {str(a[k])[:200]} / function {str(b[k])[:200]}"))
    tp.shutdown()
    failures = []
    amps = pars = 0
    files_nontrivial = 0
    seen_text = set()
    for case, fails, stats, err in res:
        if err:
            errors.append(f"{case['label']}: {err}")
            continue
        if case["text"] not in seen_text:
            seen_text.add(case["text"])
            files_nontrivial += stats["amps"] >= 1
        amps += stats["amps"]
        pars += stats["pars"]
        for c, w in fails:
            failures.append(dict(label=case["label"], text=case["text"], clause=c, what=w))
    for case, fails in cli_res:
        for c, w in fails:
            failures.append(dict(label=case["label"], text=case["text"], clause=c, what=w))
    out_fail = []
    per = {}
    shrink_deadline = time.time() + 90       # shrinking is a convenience: never let it dominate the run
    for f in failures:
        per[f["clause"]] = per.get(f["clause"], 0) + 1
        if per[f["clause"]] > 2 or len(out_fail) >= 10:
            continue
        clause = f["clause"]
        small = f["text"]
        if not clause.startswith("cli."):
            def still(t, clause=clause):
                if time.time() > shrink_deadline:
                    return False
                with G.work_dir() as wd:
                    p = os.path.join(wd, "m.txt")
                    with open(p, "w", encoding="utf_8") as fh:
                        fh.write(t)
                    return any(c == clause for c, _ in check_file(p)[0])
            small = G.shrink_lines(f["text"], still, max_tries=60)
        out_fail.append(dict(function=_function_of(clause, f["what"]), clause=clause, what=f["what"], input=dict(text=small, clause=clause),
                             replay={"module": "checks.C19", "function": "replay"}))
    for c, w in sh_fails:
        out_fail.append(dict(function=_function_of(c, w), clause=c, what=w, input=dict(file=SHIPPED, clause=c),
                             replay={"module": "checks.C19", "function": "replay"}))
    n_files = len(res) + 1
    entry = dict(
        name="C19.outputs.same_selfcontained_model", function=Q_CPP + " / " + Q_PY + " / " + Q_MAIN,
        bound=("models/DtoKpipipi_v2.txt + generated four-body files of C18 (supported structures"
               + (", every 3rd file" if tier == "quick" else ", every 2nd file of the 9x9 lineshape grid enumeration") + f"): {n_files} files x 2 languages x "
               f"(ret_output True/False); command line: shipped model + {len(cli_cases)} generated files x 2 generators"),
        evaluations=n_files * 4 + (len(cli_cases) + 1) * 2, distinct_nontrivial=files_nontrivial + (1 if sh_stats.get("amps") else 0),
        rule=("one evaluation = one conversion call (2 languages x returned/printed) or one CLI run; distinct_nontrivial = distinct option "
              f"files with >= 1 amplitude whose two outputs were read back and compared ({amps + sh_stats.get('amps', 0)} amplitudes, "
              f"{pars + sh_stats.get('pars', 0)} parameter lines in all); shipped model: {sh_stats.get('amps')} amplitudes, {sh_stats.get('pars')} parameters"),
        exhaustive=False,
        samples=[dict(file=SHIPPED)] + [dict(label=c["label"], text=c["text"]) for c in cases[:: max(1, len(cases) // 2)][:2]],
        failures=out_fail, errors=errors, failures_total=len(failures) + len(sh_fails),
        observations=dict(premise_unmet_on_shipped_model=sorted(set(sh_stats.get("unmet", [])))),
        wall_s=round(time.time() - t0, 1),
    )
    return {"bounded": [entry]}
