"""C13 -- a decay descriptor string determines the decay tree it was made from (bounded stand-in).

The real ``DecayChain.to_string`` is run on every chain shape of the families below; the string is read
back by ``specs.chainshapes.read_back`` (a bracket-matching reader written from the property) and
compared with the tree oracle ``specs.chainshapes.tree``.
"""
from __future__ import annotations

import time
from fractions import Fraction
from itertools import permutations

from specs import chainshapes as cs

TO_STRING = "decaylanguage.decay.decay.DecayChain.to_string"
FORMAT = "decaylanguage.utils.utilities.DescriptorFormat.format_descriptor"

META = {
    "level": "other",
    "explanation": (
        "Bounded stand-in for injectivity / canonicity of the descriptor: DecayChain.to_string is run on every acyclic chain "
        "shape (one per class up to renaming) of the listed families (<= 5 decaying particles, repeated decaying daughters, "
        "particles at several depths, chains with unreachable entries) over name pools that contain K_1(1270)+, Upsilon(4S), "
        "f'_0, anti-K*0, K*(892)0, D_s1(2536)+, psi(2S); a bracket-matching reader must reproduce (mother, nesting, daughter "
        "multiset at every level); the string must be identical for every order of the mapping (all permutations for <= 4 "
        "entries) and of the daughters; under `with DescriptorFormat(top, sub)` for a family of 6 (thorough: 7) bracketing "
        "patterns the reader using `top` for the outermost level and `sub` for every nested level must reproduce the same tree."),
    "assumptions": ["particle names contain no blank, have balanced brackets and do not start with an opening bracket",
                    "patterns contain no literal braces and delimit names by blanks or brackets (family in specs.chainshapes.PATTERNS)"],
    "trusted_base": ["specs/chainshapes.py (shape enumeration, tree oracle, read_back)"],
    "not_applicable_clauses": [],
}

FAMILIES = {
    "quick": [(1, 2, 3, 3, 9), (2, 2, 3, 3, 9), (3, 2, 3, 3, 4), (4, 1, 3, 2, 3), (4, 2, 2, 2, 2), (5, 1, 3, 1, 3), (5, 1, 2, 2, 2)],
    "thorough": [(1, 2, 3, 3, 9), (2, 2, 3, 3, 9), (3, 2, 3, 3, 6), (4, 1, 3, 3, 4), (4, 2, 3, 2, 3), (5, 1, 3, 2, 3), (5, 2, 2, 2, 2),
                 (6, 1, 2, 1, 2)],
}
N_PATTERNS = {"quick": 6, "thorough": 7}
TIME_LIMIT = 5.0
DEFAULT = {"decay_pattern": cs.DEFAULT_FORMAT[0], "sub_decay_pattern": cs.DEFAULT_FORMAT[1]}


def _restore():
    from decaylanguage.utils import DescriptorFormat
    DescriptorFormat.config = dict(DEFAULT)


def build(chain, order=None, dvariant=0):
    """Real DecayChain of a concrete chain; ``order`` permutes the entries of the mapping; the daughters
    are given as a list of names in one of three orders."""
    from decaylanguage import DecayChain, DecayMode
    decs = chain["decays"]
    idx = range(len(decs)) if order is None else order
    decays = {}
    for i in idx:
        name, b, fs, meta = decs[i]
        names = [d for d, m in fs for _ in range(m)]
        if dvariant % 3 == 1:
            names = names[::-1]
        elif dvariant % 3 == 2:
            names = names[1:] + names[:1]
            names = names[::2] + names[1::2]
        decays[name] = DecayMode(b, names, **meta)
    return DecayChain(chain["mother"], decays)


def render(dc, patterns):
    from decaylanguage.utils import DescriptorFormat
    with cs.time_limit(TIME_LIMIT):
        if patterns is None:
            return dc.to_string()
        with DescriptorFormat(patterns[0], patterns[1]):
            return dc.to_string()


def check_read_back(chain, patterns, order=None, dvariant=0, expected=None):
    """-> list of (clause, function, what)."""
    exp = cs.tree(chain) if expected is None else expected
    try:
        s = render(build(chain, order, dvariant), patterns)
    except Exception as ex:
        return [("to_string.returns", TO_STRING, "raised %r" % (ex,))], None
    finally:
        _restore()
    if not isinstance(s, str):
        return [("to_string.returns", TO_STRING, "not a string: %r" % (s,))], None
    pats = cs.DEFAULT_FORMAT if patterns is None else patterns
    clause = "to_string.read_back" if patterns is None else "to_string.user_patterns"
    try:
        got = cs.read_back(s, pats[0], pats[1])
    except cs.ReadBackError as ex:
        return [(clause, TO_STRING, "descriptor %r cannot be read back with %r: %s" % (s, list(pats), ex))], s
    if got != exp:
        return [(clause, TO_STRING, "descriptor %r reads back as %r, tree is %r" % (s, got, exp))], s
    return [], s


def order_variants(n):
    if n <= 4:
        return list(permutations(range(n)))
    base = list(range(n))
    out = [tuple(base), tuple(reversed(base))] + [tuple(base[k:] + base[:k]) for k in range(1, n)]
    out.append(tuple(base[1::2] + base[0::2]))
    return list(dict.fromkeys(out))


def check_order_independence(chain, patterns=None):
    """The string is the same for every order of the mapping and of the daughters."""
    n = len(chain["decays"])
    ref = None
    count = 0
    for j, order in enumerate(order_variants(n)):
        for dv in ((0, 1, 2) if j == 0 else ((j % 3),)):
            try:
                s = render(build(chain, order, dv), patterns)
            except Exception as ex:
                return [("to_string.returns", TO_STRING, "raised %r" % (ex,))], count
            finally:
                _restore()
            count += 1
            if ref is None:
                ref = s
            elif s != ref:
                return [("to_string.order_independent", TO_STRING,
                         "mapping order %r / daughter order variant %d gives %r, rank order gives %r" % (list(order), dv, s, ref))], count
    return [], count


def replay(inp):
    chain = cs.chain_from_json(inp["chain"])
    pats = inp.get("patterns")
    try:
        if inp.get("clause") == "to_string.order_independent":
            fails, _n = check_order_independence(chain, pats)
        else:
            fails, _s = check_read_back(chain, pats, inp.get("order"), inp.get("dvariant", 0))
    finally:
        _restore()
    if fails:
        return False, "; ".join("%s: %s" % (c, w) for c, _f, w in fails)
    return True, "descriptor reads back to the tree / is the same for every order"


def _rec(chain, patterns, clause, func, what, order=None, dv=0):
    return {"function": func, "clause": clause, "what": what,
            "input": {"chain": cs.chain_to_json(chain), "patterns": list(patterns) if patterns else None,
                      "order": list(order) if order else None, "dvariant": dv, "clause": clause},
            "replay": {"module": "checks.C13", "function": "replay"}, "_size": cs.chain_size(chain)}


def _worker(task):
    key, sl, npat = task
    evals = distinct = nontriv = nshapes = 0
    fails = []
    samples = []
    aborted = False
    patterns = cs.PATTERNS[:npat]
    try:
        for idx, shape in enumerate(cs.family_shapes(cs.Family(*key), sl)):
            nshapes += 1
            n = len(shape)
            pools = [cs.POOLS[1], cs.POOLS[(0, 2, 3)[(idx + sl) % 3]]]
            for pi, pool in enumerate(pools):
                for mother in [n - 1] + (cs.mothers_with_unreachable(shape) if pi == 0 else []):
                    chain = cs.instantiate(shape, pool, mother=mother, bfs=[0.5 / (i + 1) for i in range(n)])
                    exp = cs.tree(chain)
                    nt = cs.n_decay_occurrences(chain) >= 2
                    pats = [None] + (patterns[1:] if pi == 0 and mother == n - 1 else [patterns[1 + (idx % (npat - 1))]])
                    for pj, pat in enumerate(pats):
                        dv = (idx + pj) % 3
                        res, s = check_read_back(chain, pat, None, dv, exp)
                        evals += 1
                        distinct += 1
                        nontriv += 1 if nt else 0
                        for c, f, w in res:
                            fails.append(_rec(chain, pat, c, f, w, None, dv))
                            aborted = aborted or "CallTimeout" in w
                        if len(samples) < 2 and nt and pj in (0, 3) and n >= 3 and mother == n - 1:
                            samples.append({"chain": cs.chain_to_json(chain), "patterns": pat, "descriptor": s,
                                            "read_back": repr(exp)})
                    if mother == n - 1:
                        res, cnt = check_order_independence(chain, None if pi == 0 else patterns[1 + idx % (npat - 1)])
                        evals += cnt
                        for c, f, w in res:
                            fails.append(_rec(chain, None if pi == 0 else patterns[1 + idx % (npat - 1)], c, f, w))
                            aborted = aborted or "CallTimeout" in w
                    if aborted or len(fails) > 60:
                        break
                if aborted or len(fails) > 60:
                    break
            if aborted or len(fails) > 60:
                aborted = True
                break
    finally:
        _restore()
    return dict(key=key, evals=evals, distinct=distinct, nontriv=nontriv, shapes=nshapes, fails=fails[:60], samples=samples,
                aborted=aborted)


def run(tier: str, seed: int) -> dict:
    t0 = time.time()
    fams = FAMILIES[tier]
    npat = N_PATTERNS[tier]
    tasks = [(k, s, npat) for k, s in cs.family_tasks(fams)]
    if seed:
        import random
        random.Random(seed).shuffle(tasks)
    tot = dict(evals=0, distinct=0, nontriv=0, shapes=0, aborted=0)
    per_family = {}
    fails = []
    samples = []
    errors = []
    try:
        for r in cs.run_parallel(_worker, tasks):
            for k in ("evals", "distinct", "nontriv", "shapes"):
                tot[k] += r[k]
            tot["aborted"] += 1 if r["aborted"] else 0
            per_family[str(tuple(r["key"]))] = per_family.get(str(tuple(r["key"])), 0) + r["shapes"]
            fails += r["fails"]
            if r["samples"] and len(samples) < 4:
                samples += r["samples"][:1]
    except Exception as ex:  # pragma: no cover
        errors.append("enumeration crashed: %r" % (ex,))
    finally:
        _restore()
    # self-test of the reader on the documented examples (an oracle that cannot read them would be useless)
    doc = "D*+ -> (D0 -> (K_S0 -> pi+ pi-) (pi0 -> gamma gamma)) pi+"
    want = ("D*+", (("D0", (("K_S0", ("pi+", "pi-")), ("pi0", ("gamma", "gamma")))), "pi+"))
    try:
        if cs.read_back(doc) != cs.canon_tree(want):
            errors.append("read_back self-test failed: %r" % (cs.read_back(doc),))
        if cs.read_back("D*+ => D0 (=> K_S0 (=> pi+ pi-) pi0 (=> gamma gamma)) pi+", *cs.PATTERNS[2]) != cs.canon_tree(want):
            errors.append("read_back self-test (pattern 2) failed")
    except cs.ReadBackError as ex:
        errors.append("read_back self-test raised %r" % (ex,))
    fails.sort(key=lambda f: (f["_size"], f["clause"]))
    keep, seen = [], set()
    for f in fails:
        if f["clause"] in seen:
            continue
        seen.add(f["clause"])
        f = dict(f)
        f.pop("_size")
        keep.append(f)
    entry = {
        "name": "C13.to_string.read_back", "function": TO_STRING,
        "bound": ("every acyclic chain shape, one per renaming class, of the families (n decaying particles, stable names, max "
                  "distinct daughters, max multiplicity, max daughters per decay) = %s; names from the 'brackets' pool and one other "
                  "pool of specs.chainshapes.POOLS; every other particle of the mapping as mother (unreachable entries); default "
                  "format and %d user pattern pairs %s; every permutation of the mapping for <= 4 entries (n+2 orders beyond) "
                  "combined with 3 orders of the daughters" % (fams, npat - 1, [list(p) for p in cs.PATTERNS[1:npat]])),
        "evaluations": tot["evals"], "distinct_nontrivial": tot["nontriv"],
        "rule": ("evaluations = calls of to_string whose result was read back or compared with the string of another order; distinct "
                 "= distinct (shape class, name pool, mother, pattern pair) read-back comparisons = %d, non-trivial = those whose tree "
                 "has at least one nested sub-decay; the order variants are not counted as distinct" % tot["distinct"]),
        "exhaustive": not tot["aborted"], "slices_aborted": tot["aborted"],
        "shapes": tot["shapes"], "shapes_per_family": per_family,
        "samples": samples, "failures": keep, "errors": errors, "seconds": round(time.time() - t0, 2),
    }
    return {"bounded": [entry]}
