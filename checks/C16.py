"""C16 - printed decay-mode tables show every mode once, correctly ordered and scaled (bounded stand-in).

Real code executed: DecFileParser.from_string(text).parse(), DecFileParser.print_decay_modes with stdout captured.
Oracle: specs.chainspec.refused / row_order / norm_of / row_tokens / value_token_ok. Rows are read layout-agnostically
(whitespace-separated tokens, an optional final ';' dropped): the property fixes what a row shows, not the column widths.
The stored lines (bf, daughters, model, parameters) are read from the parser before printing through
_find_decay_modes + _decay_mode_details(display_photos_keyword=False) and cross-checked with the generated table; the
PHOTOS flag of a line is the generator's.
"""
from __future__ import annotations

import contextlib
import io
import itertools
import json
import time

from specs import chainspec as cs

FUNC = "decaylanguage.dec.dec.DecFileParser.print_decay_modes"

META = {
    "level": "other",
    "explanation": (
        "Bounded stand-in for C16: print_decay_modes is called with stdout captured and compared with the specified rows: one "
        "row per decay line; rows ordered by branching fraction, descending unless ascending=True, file order among equal values; "
        "value shown = format(bf/norm, '<10.7g') with norm = 1, the sum of the bfs (normalize) or max(bf)/scale (scale); daughters "
        "in order; model (with 'PHOTOS' iff the line is flagged and display_photos_keyword) and parameters iff print_model; "
        "RuntimeError iff scale is given together with normalize or is outside (0,1]; stored lines identical before and after. "
        "Exhaustive over all assignments of a palette of branching-fraction literals (1e-12 .. 1.0, hence all tie patterns and "
        "orderings) to tables of 1..n lines x all 352 combinations of the options (print_model, display_photos_keyword, ascending, "
        "normalize, 11 scale values in and outside (0,1], mother by EvtGen or PDG name) + one all-defaults call and one "
        "all-positional call per table; the daughters/model/PHOTOS decoration of line i is a fixed function of (table, i). "
        "Thorough tier: larger palettes/line counts and VERIF_SEED random tables (1..8 lines, log-uniform values, ties). "
        "Not a proof: other values, other line contents and column layout are not covered."),
    "assumptions": [
        "the generated text is parsed into exactly the generated table (cross-checked per table; mismatch = checker error)",
        "the PDG<->EvtGen name pairs used for the mothers are those of the conversion table shipped with decaylanguage/particle "
        "(checked at start; mismatch = checker error)",
        "contextlib.redirect_stdout captures everything print() writes",
    ],
    "trusted_base": ["specs/chainspec.py (oracle for order / norm / row contents)", "format(x, '<10.7g')", "fractions.Fraction"],
    "not_applicable_clauses": ["column widths / alignment of the printed rows (not part of the property)"],
}

# (PDG name, EvtGen name) of real particles: the tables of one text are named after them
MOTHERS = [("D*(2010)+", "D*+"), ("K*(892)0", "K*0"), ("B~0", "anti-B0"), ("D(s)+", "D_s+"), ("J/psi(1S)", "J/psi"),
           ("chi(c1)(1P)", "chi_c1"), ("rho(770)0", "rho0"), ("K(S)0", "K_S0"), ("Lambda(b)0", "Lambda_b0"),
           ("D*(2010)-", "D*-"), ("B0", "B0"), ("psi(2S)", "psi(2S)")]

PALETTE6 = ["1e-12", "3.3392e-05", "0.011738247", "0.1234567891", "0.3", "1.0"]
PALETTE5 = ["1e-12", "3.3392e-05", "0.011738247", "0.3", "1.0"]
PALETTE3 = ["3.3392e-05", "0.1234567891", "0.3"]
SCALES_OK = [1, 1.0, 0.5, 0.001, 0.37]
SCALES_BAD = [0, -0.5, 1.5, 1.0000001, 2]
SCALES = [None] + SCALES_OK + SCALES_BAD
DAUGHTERS = ["pi+", "K-", "gamma", "e+", "pi0"]
MAX_FAIL = 8


def option_grid():
    for pm, dp, asc, nz, sc, pdg in itertools.product((True, False), (True, False), (False, True), (False, True), SCALES,
                                                      (False, True)):
        yield dict(print_model=pm, display_photos_keyword=dp, ascending=asc, normalize=nz, scale=sc, pdg_name=pdg)


GRID = list(option_grid())
DEFAULTS = dict(print_model=True, display_photos_keyword=True, ascending=False, normalize=False, scale=None, pdg_name=False)


def make_lines(bfs, t):
    """the generated table #t with the given bf literals: line i has a marker daughter d<(5i+3)%11> (so that neither the
    marker order nor its reverse is the file order) and (i+t)%4 further daughters (repetitions included); model / parameters / PHOTOS flag cycle through specs.chainspec.MODELS"""
    lines = []
    for i, bf in enumerate(bfs):
        fs = [f"d{(5 * i + 3) % 11}"] + [DAUGHTERS[(i + t + k * k) % len(DAUGHTERS)] for k in range((i + t) % 4)]
        model, params, photos = cs.MODELS[(t + 3 * i) % len(cs.MODELS)]
        lines.append({"bf": bf, "fs": fs, "model": model, "params": list(params), "photos": photos})
    return lines


def _call(parser, mother, pdg_mother, opts, style="kw"):
    o = dict(opts)
    name = pdg_mother if o.get("pdg_name") else mother
    buf = io.StringIO()
    raised = None
    try:
        with contextlib.redirect_stdout(buf):
            if style == "defaults":
                parser.print_decay_modes(name)
            elif style == "positional":
                parser.print_decay_modes(name, o["pdg_name"], o["print_model"], o["display_photos_keyword"], o["ascending"],
                                         o["normalize"], o["scale"])
            else:
                parser.print_decay_modes(name, **o)
    except Exception as ex:  # classified below
        raised = ex
    return buf.getvalue(), raised


def evaluate(parser, stored, photos, mother, pdg_mother, opts, style="kw"):
    """one call compared with the oracle -> (ok, clause, what, n_fallback)"""
    out, raised = _call(parser, mother, pdg_mother, opts, style)
    o = DEFAULTS if style == "defaults" else opts
    if cs.refused(o["normalize"], o["scale"]):
        if type(raised) is RuntimeError:
            return True, "refuse", "", 0
        return False, "refuse", (f"scale={o['scale']!r} normalize={o['normalize']!r} must be refused with RuntimeError, got "
                                 f"{raised!r}" + ("" if raised else f" and {len(out.splitlines())} rows")), 0
    if raised is not None:
        return False, "refuse", f"consistent options raised {raised!r}", 0
    return cs.check_table_output(stored, photos, out, o["print_model"], o["display_photos_keyword"], o["ascending"],
                                 o["normalize"], o["scale"])


def _stored(parser, mother):
    return [dict(parser._decay_mode_details(dm, display_photos_keyword=False)) for dm in parser._find_decay_modes(mother)]


def _nontrivial(nlines, o):
    return nlines >= 2 or bool(o["normalize"]) or o["scale"] is not None


def _table_task(task):
    """task = [(t, bf literals), ...] (at most len(MOTHERS) tables, one text)"""
    from decaylanguage import DecFileParser

    res = dict(evals=0, nontrivial={}, failures=[], errors=[], samples=[], fallback=0, refused=0)
    blocks = []
    for k, (t, bfs) in enumerate(task):
        blocks.append([MOTHERS[k][1], make_lines(bfs, t)])
    text = cs.render({"aliases": [], "blocks": blocks})
    try:
        parser = DecFileParser.from_string(text)
        parser.parse()
    except Exception as ex:
        res["errors"].append(f"generated text not parsed: {ex!r}: {text[:300]}")
        return res
    Tg = cs.tables_of_model({"aliases": [], "blocks": blocks})
    for k, (t, bfs) in enumerate(task):
        pdg, mother = MOTHERS[k]
        lines = blocks[k][1]
        stored = _stored(parser, mother)
        if stored != Tg[mother]:
            res["errors"].append(f"assumed external contract violated: stored lines of table #{t} differ from the generated ones")
            continue
        photos = [ln["photos"] for ln in lines]
        before = (cs.freeze(stored), cs.freeze(parser.list_decay_modes(mother)))
        nontriv = set()
        calls = [("kw", o) for o in GRID] + [("defaults", DEFAULTS), ("positional", GRID[(7 * t + 3) % len(GRID)])]
        for style, o in calls:
            ok, clause, what, nfb = evaluate(parser, stored, photos, mother, pdg, o, style)
            res["evals"] += 1
            res["fallback"] += nfb
            res["refused"] += cs.refused(o["normalize"], o["scale"])
            if _nontrivial(len(lines), o):
                nontriv.add((style, o["print_model"], o["display_photos_keyword"], o["ascending"], o["normalize"], o["scale"],
                             o["pdg_name"]))          # 1 and 1.0 are the same case
            if not ok:
                if cs.freeze(_stored(parser, mother)) != before[0]:
                    break                                   # the stored lines changed under us: reported as 'frame' below
                if len(res["failures"]) < 40:
                    res["failures"].append(dict(t=t, mother=mother, pdg_mother=pdg, lines=lines, options=o, style=style,
                                                clause=clause, what=what))
        after = (cs.freeze(_stored(parser, mother)), cs.freeze(parser.list_decay_modes(mother)))
        if after != before:
            if not any(f["clause"] == "frame" for f in res["failures"]):        # one culprit search per text is enough
                culprit = _frame_culprit(lines, mother, pdg, calls)
                res["failures"].append(dict(t=t, mother=mother, pdg_mother=pdg, lines=lines, options=culprit[1], style=culprit[0],
                                            clause="frame", what="printing altered the stored values"))
            continue
        res["nontrivial"][cs.digest([bfs, [ln["fs"] for ln in lines], [ln["model"] for ln in lines], photos])] = len(nontriv)
        if not res["samples"] and len(lines) >= 3:
            res["samples"].append(dict(mother=mother, pdg_mother=pdg, lines=lines, options=GRID[(5 * t + 1) % len(GRID)], style="kw"))
    return res


def _frame_culprit(lines, mother, pdg, calls):
    """first call after which the stored lines differ, on a fresh parser"""
    from decaylanguage import DecFileParser

    parser = DecFileParser.from_string(cs.render({"aliases": [], "blocks": [[mother, lines]]}))
    parser.parse()
    before = (cs.freeze(_stored(parser, mother)), cs.freeze(parser.list_decay_modes(mother)))
    for style, o in calls:
        _call(parser, mother, pdg, o, style)
        if (cs.freeze(_stored(parser, mother)), cs.freeze(parser.list_decay_modes(mother))) != before:
            return style, o
    return calls[0]


# -------------------------------------------------------------------------------------------------- replay


def replay(inp):
    """input = {mother, pdg_mother, lines:[{bf, fs, model, params, photos}], options:{...}, style}"""
    from decaylanguage import DecFileParser

    mother, pdg = inp["mother"], inp.get("pdg_mother", inp["mother"])
    lines = inp["lines"]
    parser = DecFileParser.from_string(cs.render({"aliases": [], "blocks": [[mother, lines]]}))
    parser.parse()
    stored = _stored(parser, mother)
    before = (cs.freeze(stored), cs.freeze(parser.list_decay_modes(mother)))
    opts = dict(DEFAULTS, **inp.get("options", {}))
    ok, clause, what, _ = evaluate(parser, stored, [ln["photos"] for ln in lines], mother, pdg, opts, inp.get("style", "kw"))
    if ok and (cs.freeze(_stored(parser, mother)), cs.freeze(parser.list_decay_modes(mother))) != before:
        ok, clause, what = False, "frame", "printing altered the stored values"
    return ok, (f"{clause}: holds" if ok else f"{clause}: {what}")


def _minimise(f):
    inp = dict(mother=f["mother"], pdg_mother=f["pdg_mother"], lines=f["lines"], options=f["options"], style=f["style"])
    try:
        if replay(inp)[0]:
            return inp
    except Exception:
        return inp
    changed = True
    while changed and len(inp["lines"]) > 1:
        changed = False
        for i in range(len(inp["lines"]) - 1, -1, -1):
            cand = dict(inp, lines=inp["lines"][:i] + inp["lines"][i + 1:])
            if not cand["lines"]:
                continue
            try:
                still = not replay(cand)[0]
            except Exception:
                still = False
            if still:
                inp, changed = cand, True
    # options back to their defaults where that keeps the failure
    for k, v in DEFAULTS.items():
        if inp["options"].get(k) != v:
            cand = dict(inp, options=dict(inp["options"], **{k: v}))
            try:
                if not replay(cand)[0]:
                    inp = cand
            except Exception:
                pass
    return inp


# -------------------------------------------------------------------------------------------------- run


def _tables(tier, seed):
    """-> (list of bf-literal tuples, description, n_random)"""
    tabs = []
    if tier == "quick":
        parts = [(PALETTE6, range(1, 5)), (PALETTE3, range(5, 7))]
        desc = "all assignments of the 6 literals %s to 1..4 lines and of the 3 literals %s to 5..6 lines" % (PALETTE6, PALETTE3)
    else:
        parts = [(PALETTE6, range(1, 6)), (PALETTE5, range(6, 7)), (PALETTE3, range(7, 8))]
        desc = ("all assignments of the 6 literals %s to 1..5 lines, of the 5 literals %s to 6 lines and of the 3 literals %s to 7 "
                "lines" % (PALETTE6, PALETTE5, PALETTE3))
    for pal, ns in parts:
        for n in ns:
            tabs.extend(itertools.product(pal, repeat=n))
    # tables whose sum (and whose largest value) is close to but not exactly 1, and values close to but not equal to each
    # other: a tolerance-based shortcut ("already normalised", "equal enough") of any threshold between 1e-9 and 1e-2 shows in
    # the 7 digits printed (added after seeded change C16c: normalisation skipped when |sum - 1| < 1e-7)
    near = []
    for d in ("0.100000009", "0.10000009", "0.1000003", "0.100002", "0.10001", "0.1003", "0.099999991", "0.09999991", "0.0999997", "0.099998",
              "0.09999", "0.0997"):
        near.append(("0.7", "0.2", d))
        near.append((d, "0.2", "0.7"))
    for a, b in (("0.5", "0.50000009"), ("0.5", "0.49999991"), ("0.3", "0.30000001"), ("0.30000001", "0.3"), ("0.9999991", "1e-12")):
        near.append((a, b))
    near.append(("0.99999991",))
    tabs.extend(near)
    desc += f" + {len(near)} tables with sums / maxima / pairs within 1e-8..3e-3 of 1 or of each other"
    nrand = 0
    if tier == "thorough":
        rng = cs.rng_for(seed, "C16.supplement")
        for _ in range(2000):
            n = rng.randint(1, 8)
            bfs = []
            for _i in range(n):
                if bfs and rng.random() < 0.3:
                    bfs.append(rng.choice(bfs))                       # tie
                else:
                    bfs.append("%.*g" % (rng.randint(1, 12), 10 ** rng.uniform(-12, 0)))
            tabs.append(tuple(bfs))
            nrand += 1
        desc += f" + {nrand} random tables from VERIF_SEED={seed} (1..8 lines, log-uniform values in [1e-12,1] with 1..12 digits, ties)"
    return tabs, desc, nrand


def _check_names():
    from decaylanguage.dec.dec import PDG2EvtGenNameMap

    bad = []
    for pdg, evt in MOTHERS:
        try:
            if PDG2EvtGenNameMap[pdg] != evt:
                bad.append(f"{pdg} -> {PDG2EvtGenNameMap[pdg]} (expected {evt})")
        except Exception as ex:
            bad.append(f"{pdg}: {ex!r}")
    return bad


def run(tier="quick", seed=0):
    t0 = time.time()
    errors = [f"assumed external contract violated: PDG->EvtGen name table: {b}" for b in _check_names()]
    tabs, desc, nrand = _tables(tier, seed)
    items = list(enumerate(tabs))
    if tier == "thorough" and seed:
        cs.rng_for(seed, "C16.order").shuffle(items)
    results = cs.pmap(_table_task, cs.chunks(items, len(MOTHERS)))
    nontrivial = {}
    fails, samples = [], []
    for r in results:
        nontrivial.update(r["nontrivial"])
        errors.extend(r["errors"])
        fails.extend(r["failures"])
        samples.extend(r["samples"])
    fails.sort(key=lambda f: (len(f["lines"]), f["style"] != "kw"))
    failures = []
    for f in fails:
        if len(failures) >= MAX_FAIL:
            break
        inp = _minimise(f) if len(failures) < 4 else dict(mother=f["mother"], pdg_mother=f["pdg_mother"], lines=f["lines"],
                                                          options=f["options"], style=f["style"])
        if any(cs.freeze(x["input"]) == cs.freeze(inp) for x in failures):
            continue
        ok, msg = replay(inp)
        failures.append(dict(function=FUNC, clause=f["clause"] if ok else msg.split(":", 1)[0],
                             what=(f["what"] + " (not reproduced by this call alone: state-dependent)" if ok else msg),
                             input=inp, replay={"module": "checks.C16", "function": "replay"}))
    if failures and len(fails) > len(failures):
        failures[-1]["what"] += f"  [{len(fails)}+ failing calls in total, {len(failures)} distinct inputs recorded]"
    entry = dict(
        name="C16.print.tables_x_options", function=FUNC,
        bound=(f"{len(tabs)} tables: {desc}; line i of table t = marker daughter d<(5i+3)%11> + (i+t)%4 further daughters, model/parameters/"
               f"PHOTOS flag cycling over {len(cs.MODELS)} variants; mothers named after {len(MOTHERS)} real particles; per table all "
               f"{len(GRID)} combinations of print_model x display_photos_keyword x ascending x normalize x scale in {SCALES} x "
               "pdg_name, + 1 all-defaults call + 1 all-positional call; stored lines and list_decay_modes compared before/after"),
        evaluations=sum(r["evals"] for r in results), distinct_nontrivial=sum(nontrivial.values()),
        rule=("one evaluation = one print_decay_modes call with stdout captured, compared with the specified rows or the refusal; "
              "distinct_nontrivial = sum over distinct tables of the number of distinct option tuples (scale compared by value, so "
              "1 and 1.0 count once) for which the table has >= 2 lines (ordering matters) or a rescaling/refusal is in play"),
        exhaustive=(nrand == 0), samples=samples[:3], failures=failures, errors=sorted(set(errors))[:5],
        refused_calls=sum(r["refused"] for r in results),
        value_fallback_uses=sum(r["fallback"] for r in results), seconds=round(time.time() - t0, 1))
    if nrand:
        entry["bound"] += " (exhaustive for the palette part; the random supplement is a sample)"
    return {"bounded": [entry]}
