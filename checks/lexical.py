"""Lexical obligations: statements about the terminals Lark compiles from the CURRENT decfile.lark (with the
real edit_terminals callback), decided for all strings by z3's regex theory (pyvc.regexvc), plus facts read
off Lark's compiled rules.  Used by C01, C02, C06 (pyvc/cli.py merges them into the property's obligations).
A failed language obligation comes with a witness string, which is replayed through the real parser.
"""
from __future__ import annotations

import functools
import re
import time
import warnings

import z3

from pyvc import regexvc as rx

try:
    import re._parser as sre_parse
    import re._constants as sre_c
except ImportError:
    import sre_parse
    import sre_constants as sre_c

LABEL_SPEC = r"[a-zA-Z0-9/\-+*_().'~]+"          # from property C01: letters, digits and / - + * _ ( ) . ' ~
NUMBER_FORMS = r"[+-]?(?:[0-9]+|[0-9]+\.[0-9]*|\.[0-9]+)(?:[eE][+-]?[0-9]+)?"   # 1, 1., .5, -0.8, +3, 20.e12, 2E-4
FLOAT_OK = r"[+-]?(?:[0-9]+\.?[0-9]*|\.[0-9]+)(?:[eE][+-]?[0-9]+)?"           # a shape CPython's float() accepts
SEPARATORS = " \t\r\n#;,"                          # characters that separate tokens (C02)


@functools.lru_cache(None)
def lark_instance(extra_models=()):
    from lark import Lark
    from decaylanguage.dec.dec import DecFileParser
    p = DecFileParser()
    if extra_models:
        p.load_additional_decay_models(*extra_models)
    opts = p.grammar_info()
    return Lark(p.grammar(), parser=opts["parser"], lexer=opts["lexer"], edit_terminals=opts["edit_terminals"])


def terminals(extra_models=()):
    return {t.name: t for t in lark_instance(extra_models).terminals}


def ob(name, status, seconds=0.0, reason="", witness=None, replayed=None, backend="z3-regex"):
    return dict(name=name, status=status, seconds=round(seconds, 4), backend=backend, reason=str(reason or ""),
                witness=witness, replayed=replayed, function="decfile.lark")


def _z3_of_terminal(t):
    return rx.to_z3(t.pattern.to_regexp(), 0)


def lang_eq_ob(name, term, spec_regex, replay=None):
    try:
        a = _z3_of_terminal(term)
        b = rx.to_z3(spec_regex)
    except rx.UnsupportedRegex as u:
        return ob(name, "unknown", reason=f"unsupported regex: {u}")
    st, w, dt = rx.lang_equal(a, b)
    if st == "sat":
        w = rx.py_escape_free(w)
        return ob(name, "sat", dt, reason=f"string in exactly one of L({term.name}) and the specified language", witness=w,
                  replayed=(replay(w) if replay else None))
    return ob(name, st, dt, reason=w if st == "unknown" else "")


def lang_sub_ob(name, a_regex, b_regex, what, replay=None):
    try:
        a = a_regex if not isinstance(a_regex, str) else rx.to_z3(a_regex)
        b = b_regex if not isinstance(b_regex, str) else rx.to_z3(b_regex)
    except rx.UnsupportedRegex as u:
        return ob(name, "unknown", reason=f"unsupported regex: {u}")
    st, w, dt = rx.lang_included(a, b)
    if st == "sat":
        w = rx.py_escape_free(w)
        return ob(name, "sat", dt, reason=what, witness=w, replayed=(replay(w) if replay else None))
    return ob(name, st, dt, reason=w if st == "unknown" else "")


def fact_ob(name, holds, reason=""):
    return ob(name, "unsat" if holds else "sat", 0.0, reason="" if holds else reason, backend="rule-inspection")


def _parse_ok(text, extra=()):
    from decaylanguage.dec.dec import DecFileParser
    p = DecFileParser.from_string(text)
    if extra:
        p.load_additional_decay_models(*extra)
    with warnings.catch_warnings():
        warnings.simplefilter("ignore")
        try:
            p.parse()
            return p
        except Exception:
            return None


# ---------------------------------------------------------------------------------------------------
def obligations_C01():
    T = terminals()
    out = []

    def replay_label(w):
        # a word of the label alphabet must be usable as a daughter name and be reported verbatim
        in_spec = re.fullmatch(LABEL_SPEC, w) is not None
        p = _parse_ok(f"Decay MOTHERX\n1.0 {w} zz PHSP;\nEnddecay\n") if in_spec else None
        ok = p is not None and p.list_decay_modes("MOTHERX") == [[w, "zz"]]
        return dict(word=w, in_specified_alphabet=in_spec, parsed_verbatim=ok)
    out.append(lang_eq_ob("lex.LABEL.language", T["LABEL"], LABEL_SPEC, replay_label))
    try:
        sn = _z3_of_terminal(T["SIGNED_NUMBER"])
    except rx.UnsupportedRegex as u:
        sn = None
        out.append(ob("lex.SIGNED_NUMBER.accepts_every_literal_form", "unknown", reason=f"unsupported regex: {u}"))
        out.append(ob("lex.SIGNED_NUMBER.within_float_domain", "unknown", reason=f"unsupported regex: {u}"))

    def replay_num(w):
        p = _parse_ok(f"Decay MOTHERX\n{w} aa PHSP;\nEnddecay\n")
        try:
            ok = p is not None and p._decay_mode_details(p._find_decay_modes("MOTHERX")[0])["bf"] == float(w)
        except Exception:
            ok = False
        return dict(literal=w, parsed_as_float=ok)
    if sn is not None:
        out.append(lang_sub_ob("lex.SIGNED_NUMBER.accepts_every_literal_form", NUMBER_FORMS, sn,
                               "numeric literal form of the property not accepted as SIGNED_NUMBER", replay_num))
        out.append(lang_sub_ob("lex.SIGNED_NUMBER.within_float_domain", sn, FLOAT_OK,
                               "SIGNED_NUMBER accepts a string outside the shape float() is assumed to accept"))
    try:
        out.append(lang_sub_ob("lex.INT.within_int_domain", _z3_of_terminal(T["INT"]), r"[0-9]+",
                               "INT accepts a string int() may refuse"))
    except rx.UnsupportedRegex as u:
        out.append(ob("lex.INT.within_int_domain", "unknown", reason=f"unsupported regex: {u}"))
    for name, words in (("BOOLEAN_INCLUDE_FACTOR", ("yes", "no")),
                        ("LABEL_CHANGE_MASS", ("ChangeMassMin", "ChangeMassMax")),
                        ("LABEL_INCLUDE_FACTOR", ("IncludeBirthFactor", "IncludeDecayFactor")),
                        ("LABEL_LINESHAPE", ("LSFLAT", "LSNONRELBW", "LSMANYDELTAFUNC")),
                        ("LABEL_PYTHIA8_COMMANDS", ("PythiaAliasParam", "PythiaBothParam", "PythiaGenericParam"))):
        out.append(lang_eq_ob(f"lex.{name}.language", T[name], "(?:" + "|".join(words) + ")"))
    # float() really accepts the assumed shape: monitored on solver-generated and hand-listed samples
    samples = ["1", "1.", ".5", "-0.8", "+3", "20.e12", "2E-4", "0", "007", "1e0", "+.5e-3", "12.34E+5"]
    bad = []
    for s_ in samples:
        try:
            float(s_)
        except ValueError:
            bad.append(s_)
    out.append(fact_ob("assumption.float_accepts_sampled_literals", not bad, f"float() refuses {bad}"))
    out.append(fact_ob("lex.MODEL_NAME.priority_above_LABEL", T["MODEL_NAME"].priority > T["LABEL"].priority,
                       f"priorities MODEL_NAME={T['MODEL_NAME'].priority} LABEL={T['LABEL'].priority}"))
    return out


# ---------------------------------------------------------------------------------------------------
def obligations_C02():
    L = lark_instance()
    T = terminals()
    out = []
    out.append(lang_eq_ob("lex._NEWLINE.language", T["_NEWLINE"], r"(?:\r?\n[\t ]*|#[^\n]*)"))
    out.append(lang_eq_ob("lex.COMMENT.language", T["COMMENT"], r"#[^\n]*"))
    out.append(lang_eq_ob("lex.WS_INLINE.language", T["WS_INLINE"], r"[ \t]+"))
    out.append(lang_eq_ob("lex._SEMICOLON.language", T["_SEMICOLON"], r";"))
    out.append(lang_eq_ob("lex._COMMA.language", T["_COMMA"], r","))
    ign = sorted(L.ignore_tokens)
    out.append(fact_ob("lex.ignore_set", ign == ["COMMENT", "WS_INLINE"], f"%ignore is {ign}"))
    # no other terminal can match a string containing a separator: spacing / comments / line ends cannot
    # merge or split tokens
    sep = rx.to_z3(r"[^\x00]*[ \t\r\n#;,][^\x00]*|[\x00-\U0002ffff]*[ \t\r\n#;,][\x00-\U0002ffff]*")
    anysep = z3.Concat(z3.Full(z3.ReSort(z3.StringSort())), rx.to_z3("[ \t\r\n#;,]"), z3.Full(z3.ReSort(z3.StringSort())))
    for name, t in sorted(T.items()):
        if name in ("_NEWLINE", "COMMENT", "WS_INLINE", "_SEMICOLON", "_COMMA", "MODEL_NAME"):
            continue
        try:
            r = _z3_of_terminal(t)
        except rx.UnsupportedRegex as u:
            out.append(ob(f"lex.{name}.no_separator_inside", "unknown", reason=f"unsupported regex: {u}"))
            continue
        st, w, dt = rx.lang_disjoint(r, anysep)
        out.append(ob(f"lex.{name}.no_separator_inside", st, dt,
                      reason=(f"terminal {name} matches a string containing a separator" if st == "sat" else (w or "")),
                      witness=rx.py_escape_free(w) if st == "sat" else None))
    # rule-shape facts read from the compiled rules
    rules = L.rules

    def occurrences(term):
        occ = []
        for r in rules:
            for s in r.expansion:
                if s.is_term and s.name == term:
                    occ.append(r.origin.name if isinstance(r.origin.name, str) else r.origin.name.value)
        return occ
    nl_in = set(occurrences("_NEWLINE"))
    out.append(fact_ob("rules._NEWLINE.only_in_repetitions",
                       all(o.startswith("__") for o in nl_in),
                       f"_NEWLINE occurs directly in {sorted(nl_in)}"))
    sc_in = set(occurrences("_SEMICOLON"))
    out.append(fact_ob("rules._SEMICOLON.only_in_plus", all(o.startswith("__") and "plus" in o for o in sc_in),
                       f"_SEMICOLON occurs in {sorted(sc_in)}"))
    cm_in = set(occurrences("_COMMA"))
    out.append(fact_ob("rules._COMMA.only_in_model_options", all(o.startswith("__model_options") for o in cm_in),
                       f"_COMMA occurs in {sorted(cm_in)}"))
    for term in ("_NEWLINE", "_SEMICOLON", "_COMMA"):
        filt = all(s.filter_out for r in rules for s in r.expansion if s.is_term and s.name == term)
        out.append(fact_ob(f"rules.{term}.filtered_out", filt, f"{term} is kept in some rule"))
    # "End" _NEWLINE+ is optional and last in start
    starts = [r for r in rules if (r.origin.name if isinstance(r.origin.name, str) else r.origin.name.value) == "start"]
    ok_end = True
    has_without = False
    for r in starts:
        names = [s.name for s in r.expansion]
        if "END" in names:
            k = names.index("END")
            ok_end &= names[k + 1:] == ["__start_plus_0"] and names.count("END") == 1
        else:
            has_without = True
    out.append(fact_ob("rules.start.End_optional_and_last", ok_end and has_without, "shape of the start rule changed"))
    return out


# ---------------------------------------------------------------------------------------------------
def _model_name_structure(pattern):
    """-> (literals in order, lookahead character set) or raises"""
    parsed = sre_parse.parse(pattern)
    items = list(parsed)
    # strip a non-capturing group around the alternation
    if len(items) != 2:
        raise ValueError(f"MODEL_NAME is not <alternation><lookahead>: {len(items)} items")
    alt, look = items
    while alt[0] is sre_c.SUBPATTERN:
        sub = list(alt[1][3])
        if len(sub) != 1:
            break
        alt = sub[0]
    if alt[0] is sre_c.BRANCH:
        branches = alt[1][1]
    elif alt[0] is sre_c.SUBPATTERN:
        branches = [alt[1][3]]
    else:
        raise ValueError(f"MODEL_NAME does not start with an alternation ({alt[0]})")
    lits = []
    for b in branches:
        s = ""
        for op, av in b:
            if op is not sre_c.LITERAL:
                raise ValueError(f"alternative is not a literal string ({op})")
            s += chr(av)
        lits.append(s)
    if look[0] is not sre_c.ASSERT_NOT or look[1][0] != 1:
        raise ValueError(f"MODEL_NAME does not end with a negative look-ahead ({look[0]})")
    la = list(look[1][1])
    if len(la) != 1 or la[0][0] is not sre_c.IN:
        raise ValueError("look-ahead is not a single character class")
    return lits, rx.char_class_members(la[0][1])


def obligations_C06(extra_models=()):
    from decaylanguage.dec.enums import known_decay_models
    T = terminals(tuple(extra_models))
    out = []
    pat = T["MODEL_NAME"].pattern.to_regexp()
    label_items = None
    try:
        lits, look = _model_name_structure(pat)
    except Exception as ex:
        out.append(ob("lex.MODEL_NAME.structure", "sat", reason=f"{ex}; pattern starts {pat[:60]!r}"))
        return out
    out.append(fact_ob("lex.MODEL_NAME.structure", True))
    # (i) the look-ahead class is exactly the LABEL alphabet: the model word ends where the label ends
    lp = sre_parse.parse(T["LABEL"].pattern.to_regexp())
    try:
        (op, av), = list(lp)
        assert op in (sre_c.MAX_REPEAT,) and av[0] == 1 and av[1] is sre_c.MAXREPEAT
        (op2, av2), = list(av[2])
        label_chars = rx.char_class_members(av2)
    except Exception as ex:
        out.append(ob("lex.MODEL_NAME.lookahead_is_label_alphabet", "unknown", reason=f"LABEL is not <class>+: {ex}"))
        return out
    out.append(fact_ob("lex.MODEL_NAME.lookahead_is_label_alphabet", look == label_chars,
                       f"look-ahead class differs from LABEL alphabet by {sorted(look ^ label_chars)}"))
    # (ii) the alternatives are exactly the published (+ registered) names: nothing dropped, nothing mangled
    want = list(known_decay_models) + list(extra_models)
    missing = sorted(set(want) - set(lits))
    extra = sorted(set(lits) - set(want))
    out.append(fact_ob("lex.MODEL_NAME.alternatives_are_the_names", not missing and not extra,
                       f"missing {missing[:5]} unexpected {extra[:5]}"))
    # (iii) every alternative is a word over the LABEL alphabet (precondition of the lemma)
    badalpha = [l for l in lits if not l or any(c not in label_chars for c in l)]
    out.append(fact_ob("lex.MODEL_NAME.alternatives_over_label_alphabet", not badalpha, f"{badalpha[:5]}"))
    # (iv) LEMMA, for all words w over the label alphabet, all continuations c that do not start with a label
    # character, and every alternative a over the label alphabet:  if a is a prefix of w.c and the character after a
    # is not a label character, then a == w.   Hence MODEL_NAME matches at the start of a maximal label word iff
    # the WHOLE word is one of the names, whatever the order of the alternatives and whatever other names are
    # prefixes / extensions of it; any other word is lexed as LABEL.
    # Strings are encoded as (length, array of code points) and the label alphabet as an arbitrary predicate on code
    # points, so the lemma is proved for ANY alphabet (z3's word-equation solver does not decide the String version).
    t0 = time.time()
    s = z3.Solver()
    s.set("timeout", 30000)
    I = z3.IntSort()
    lab = z3.Function("is_label_char", I, z3.BoolSort())
    wa, aa, ca = (z3.Array(n, I, I) for n in ("w", "a", "c"))
    lw, la, lc, k = z3.Ints("lw la lc k")
    text = lambda x: z3.If(x < lw, wa[x], ca[x - lw])
    s.add(lw >= 1, la >= 1, lc >= 0)
    s.add(z3.ForAll([k], z3.Implies(z3.And(0 <= k, k < lw), lab(wa[k]))))
    s.add(z3.ForAll([k], z3.Implies(z3.And(0 <= k, k < la), lab(aa[k]))))
    s.add(z3.Implies(lc > 0, z3.Not(lab(ca[0]))))
    s.add(la <= lw + lc, z3.ForAll([k], z3.Implies(z3.And(0 <= k, k < la), aa[k] == text(k))))      # a is a prefix of w.c
    s.add(z3.Or(la == lw + lc, z3.Not(lab(text(la)))))                                              # look-ahead after a
    s.add(z3.Or(la != lw, z3.Exists([k], z3.And(0 <= k, k < lw, aa[k] != wa[k]))))                   # a != w
    r = s.check()
    dt = time.time() - t0
    if r == z3.unsat:
        out.append(ob("lex.MODEL_NAME.lemma.match_is_whole_word", "unsat", dt, backend="z3-arrays"))
    elif r == z3.sat:
        out.append(ob("lex.MODEL_NAME.lemma.match_is_whole_word", "sat", dt, backend="z3-arrays", witness=str(s.model())[:400]))
    else:
        out.append(ob("lex.MODEL_NAME.lemma.match_is_whole_word", "unknown", dt, reason=s.reason_unknown(), backend="z3-arrays"))
    return out


def for_property(pid):
    if pid == "C01":
        return obligations_C01()
    if pid == "C02":
        return obligations_C02()
    if pid == "C06":
        return obligations_C06()
    return []
