"""C17 - AmpGen option files are read into the amplitudes and tables they state (bounded stand-in).

Real code executed: ``AmplitudeChain.read_ampgen(text=...)`` (Lark + ampgen.lark + AmpGenTransformer +
from_matched_line + expand_lines + particle_from_string_name).  Oracle: ``specs/ampgen_reader.py``.
"""
from __future__ import annotations

import hashlib
import multiprocessing as mp
import os
import time

from specs import ampgen_gen as G
from specs import ampgen_reader as R

QUAL = "decaylanguage.modeling.amplitudechain.AmplitudeChain.read_ampgen"
RTOL = 1e-12

META = {
    "level": "other",
    "explanation": (
        "Bounded: AmplitudeChain.read_ampgen(text=...) is run on generated option texts (five event types incl. "
        "repeated particles and a conjugate one, 1..4 full/partial lines of the event-type mother nested to depth 3, "
        "0..3 alternative separate lines per bare resonance name incl. two-level expansion, spin/lineshape tags, "
        "comments, blank lines, CRLF, spaces inside braces, parameter and constant lines, Output/nEvents/'a = b' "
        "statements, coherent-sum option absent/0/1 at start/middle/end) and compared with the hand-written reference "
        "reader specs/ampgen_reader.py: event-type particles in order (PDG ids from a hand-written name table), "
        "parameter rows (name, fixed, value, error), constant rows, number/order/tree/tags of amplitudes and their "
        "complex coupling (relative tolerance 1e-12); any exception is a failure. Not compared (no property states "
        "it): the amplitude 'fix' flag, the error column of couplings, couplings of sub-lines."),
    "assumptions": [
        "particle_from_string_name is a function of (name, loaded particle table): it is memoised per (name, table size) "
        "in the check processes (0.2 s per real call); every memo value comes from one real call and the memo is "
        "re-validated against the real function at the end of the run, and a sample of texts is read without memo",
        "parameter fixed flag: 'fixed' iff the written flag is non-zero (AmpGen convention 0 = free), flags 0..3 generated",
    ],
    "trusted_base": ["specs/ampgen_reader.py (reference reader)", "specs/ampgen_gen.py (generator, name -> PDG id table)",
                     "particle package (Particle.from_pdgid, pdgid)"],
    "not_applicable_clauses": [],
}


# --------------------------------------------------------------------------------------------------------
def _real_tree(line):
    return (str(line.name), int(line.particle.pdgid), None if line.spinfactor is None else str(line.spinfactor),
            None if line.lineshape is None else str(line.lineshape), tuple(_real_tree(d) for d in line.daughters))


def _ref_tree(t):
    return (t["name"], G.pdgid(t["name"]), t["spin"], t["lineshape"], tuple(_ref_tree(d) for d in t["daughters"]))


def _show(t):
    nm, pid, sp, ls, ds = t
    s = f"{nm}<{pid}>"
    tag = ";".join(x for x in (sp, ls) if x)
    if tag:
        s += "[" + tag + "]"
    if ds:
        s += "{" + ",".join(_show(d) for d in ds) + "}"
    return s


def compare(text):
    """-> (list of (clause, what), stats).  Empty list: the read result is what the text states."""
    from decaylanguage.modeling.amplitudechain import AmplitudeChain
    ref = R.read(text)
    stats = dict(n_amp=len(ref["amplitudes"]), n_lines=len(ref["decay_lines"]),
                 cart=ref["cartesian"], n_par=len(ref["parameters"]), n_const=len(ref["constants"]))
    try:
        lines, pars, consts, states = AmplitudeChain.read_ampgen(text=text)
    except Exception as ex:                                       # noqa: BLE001
        return [("read.no_internal_error", f"{type(ex).__name__}: {ex}"[:300])], stats
    fails = []
    exp_states = [G.pdgid(n) for n in ref["event_type"]]
    got_states = [int(p.pdgid) for p in states]
    if got_states != exp_states:
        fails.append(("event_type.in_order", f"expected PDG ids {exp_states}, got {got_states}"))
    exp_par = [(n, f != 0, v, e) for n, f, v, e in ref["parameters"]]
    try:
        got_par = [(str(n), bool(f), float(v), float(e)) for n, f, v, e in
                   zip(pars.index, pars["fix"], pars["value"], pars["error"])]
    except Exception as ex:                                       # noqa: BLE001
        got_par = f"unreadable table: {ex!r}"
    if got_par != exp_par:
        fails.append(("parameters.rows", f"expected {exp_par}, got {got_par}"[:600]))
    exp_c = list(ref["constants"])
    got_c = [(str(n), float(v)) for n, v in zip(consts.index, consts["value"])]
    if got_c != exp_c:
        fails.append(("constants.rows", f"expected {exp_c}, got {got_c}"[:600]))
    exp_amps = ref["amplitudes"]
    if len(lines) != len(exp_amps):
        fails.append(("amplitudes.count", f"expected {len(exp_amps)} amplitudes "
                      f"{[R.render(a['tree']) for a in exp_amps][:6]}, got {len(lines)} {[str(x) for x in lines][:6]}"))
    else:
        for i, (ln, a) in enumerate(zip(lines, exp_amps)):
            rt, et = _real_tree(ln), _ref_tree(a["tree"])
            if rt != et:
                fails.append(("amplitudes.tree_tags_order", f"amplitude {i}: expected {_show(et)}, got {_show(rt)}"))
                break
            c = a["coupling"]
            if not (abs(complex(ln.amp) - c) <= RTOL * max(1.0, abs(c))):
                fails.append(("amplitudes.coupling", f"amplitude {i} {R.render(a['tree'])}: columns {a['cols']}, cartesian="
                              f"{bool(ref['cartesian'])}: expected {c!r}, got {complex(ln.amp)!r}"))
                break
    return fails, stats


def replay(input):                                                # noqa: A002
    G.install_lookup_memo()
    fails, _ = compare(input["text"])
    if fails:
        return False, "; ".join(f"{c}: {w}" for c, w in fails)
    return True, "read result equals the reference reader's"


# --------------------------------------------------------------------------------------------------------
def _work(chunk):
    out = []
    for label, text in chunk:
        try:
            fails, stats = compare(text)
        except R.OptionSyntaxError as ex:
            out.append((label, text, None, f"generator/reference error: {ex}", {}))
            continue
        out.append((label, text, fails, None, stats))
    return out


def _nomemo_work(chunk):
    import decaylanguage.modeling.amplitudechain as ac
    memo = ac.particle_from_string_name
    G.uninstall_lookup_memo()
    try:
        res = []
        for label, text in chunk:
            fails, _ = compare(text)
            res.append((label, text, fails))
        return res
    finally:
        ac.particle_from_string_name = memo          # the pool worker is reused for memoised tasks


def run(tier="quick", seed=0):
    t0 = time.time()
    errors = list(G.check_pool())
    memo = G.install_lookup_memo()
    G.prewarm_memo(memo)
    cases = [(c["label"], c["text"]) for c in G.c17_cases(tier, seed)]
    if seed:
        import random
        random.Random(seed).shuffle(cases)
    procs = min(16, os.cpu_count() or 1)
    chunks = [cases[i::procs * 4] for i in range(procs * 4)]
    chunks = [c for c in chunks if c]
    ctx = mp.get_context("fork")
    n_plain = 12 if tier == "quick" else 64
    # (a real lookup costs ~0.2 s per name occurrence: the memo-free sample is drawn from the texts with few occurrences)
    light = [c for c in cases if sum(c[1].count(ch) for ch in "{,") + 5 <= 24]
    plain = light[:: max(1, len(light) // n_plain)][:n_plain]
    with ctx.Pool(procs) as pool:
        plain_async = pool.map_async(_nomemo_work, [[c] for c in plain], chunksize=1)
        results = [r for part in pool.map(_work, chunks, chunksize=1) for r in part]
        plain_res = [r for part in plain_async.get() for r in part]
    failures = []
    seen = set()
    nontrivial = 0
    n_amp = n_expanding = n_cart = n_tabled = 0
    for label, text, fails, err, stats in results:
        if err:
            errors.append(f"{label}: {err}")
            continue
        h = hashlib.sha256(text.encode()).hexdigest()
        if h not in seen:
            seen.add(h)
            if stats["n_amp"] >= 1:
                nontrivial += 1
                n_amp += stats["n_amp"]
                n_expanding += stats["n_amp"] > 1
                n_cart += bool(stats["cart"])
                n_tabled += stats["n_par"] > 0
        for clause, what in fails:
            failures.append(dict(label=label, text=text, clause=clause, what=what))
    # texts read without the memo must give the same verdicts
    by_text = {text: fails for _, text, fails, _, _ in results}
    for label, text, fails in plain_res:
        if [c for c, _ in fails] != [c for c, _ in (by_text.get(text) or [])]:
            errors.append(f"memoised and plain lookups disagree on {label}")
    bad = G.validate_memo(memo, names=set(list(G.POOL)[:: (1 if tier == "thorough" else 4)]))
    errors += [f"assumed contract of particle_from_string_name (function of name and table) violated: {b}" for b in bad]
    out_fail = []
    done_clauses = {}
    for f in failures:
        k = f["clause"]
        done_clauses[k] = done_clauses.get(k, 0) + 1
        if done_clauses[k] > 3 or len(out_fail) >= 10:
            continue
        clause = f["clause"]
        small = G.shrink_lines(f["text"], lambda t, clause=clause: any(c == clause for c, _ in compare(t)[0]))
        fl, _ = compare(small)
        what = next((w for c, w in fl if c == clause), f["what"])
        out_fail.append(dict(function=QUAL, clause=clause, what=what, input={"text": small},
                             replay={"module": "checks.C17", "function": "replay"}))
    entry = dict(
        name="C17.read_ampgen.vs_reference_reader", function=QUAL,
        bound=("6 event types (D0->K-pi+pi+pi-, conjugate, D0->pi+pi-pi+pi-, D0->K+K-pi+pi-, D+->K-pi+pi+, a six-body D0 with dead-end resonances below fully decayed nodes); every selection of "
               "1 or 2 of the 4..14 top-line templates per event type plus sliding windows of 3 and 4; alternative counts 0..3 "
               + ("exhaustive for the first 3 bare names of a selection" if tier == "thorough" else
                  "exhaustive for the first 2 bare names of a selection (first name only for selections of 2 or 4 lines)")
               + " (others cycled); depth <= 3; option absent/0/1 x start/middle/end, 7 layouts, 4 line orders, 4 table variants "
               + ("(option variants exhaustive for selections of 1, 3, 4 lines; layout/order/table cycled)" if tier == "thorough" else "(cycled)")),
        evaluations=len(results) + len(plain_res), distinct_nontrivial=nontrivial,
        rule=("one evaluation = one text read by the real reader and compared in full with the reference reader; "
              "distinct = distinct text (sha256); non-trivial = the reference reader finds >= 1 amplitude of the event-type "
              f"mother. Of these: {n_expanding} texts with more amplitudes than one, {n_cart} with the cartesian option on, "
              f"{n_tabled} with parameter rows; {n_amp} amplitudes compared; {len(plain_res)} texts re-read without lookup memo"),
        exhaustive=False,
        samples=[dict(label=l, text=t) for l, t in cases[:: max(1, len(cases) // 3)][:3]],
        failures=out_fail, errors=errors,
        failures_total=len(failures), wall_s=round(time.time() - t0, 1),
        memo=dict(hits=memo.hits, misses=memo.misses, entries=len(memo.table)),
    )
    return {"bounded": [entry]}
