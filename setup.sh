#!/bin/bash
# Build the overlay venv used by every check (offline: wheels from /opt/veriftools/wheels only).
# Python 3.12 from /venv (which has decaylanguage + its deps), plus z3-solver, cvc5, icontract, deal, jsonschema.
set -e
cd "$(dirname "$0")"
VENV=.venv
if [ -x "$VENV/bin/python" ] && "$VENV/bin/python" -c "import z3, jsonschema, lark, decaylanguage" 2>/dev/null; then
  exit 0
fi
exec 9>.venv.lock
flock 9
if [ -x "$VENV/bin/python" ] && "$VENV/bin/python" -c "import z3, jsonschema, lark, decaylanguage" 2>/dev/null; then
  exit 0
fi
rm -rf "$VENV"
/venv/bin/python -m venv "$VENV"
PIP_NO_INDEX=1 "$VENV/bin/pip" install -q --no-index --find-links /opt/veriftools/wheels z3-solver cvc5 icontract deal jsonschema
echo "import site; site.addsitedir('/venv/lib/python3.12/site-packages')" > "$VENV/lib/python3.12/site-packages/_repo_overlay.pth"
"$VENV/bin/python" -c "import z3, jsonschema, lark, decaylanguage"
