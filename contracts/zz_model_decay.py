"""C18: decaylanguage.modeling.decay.ModelDecay — the accessors through which the code generators read an amplitude's tree
(what counts as a resonance: a node with exactly two daughters).  `vertexes`, `structure` and `list_structure`
(recursion, itertools.product) are not under contract: bounded stand-in."""
from pyvc.contracts import contract, klass
from decaylanguage.modeling.decay import ModelDecay

P = "decaylanguage.modeling.decay.ModelDecay."
klass("ModelDecay", pycls=ModelDecay, slots=True, fields={"particle": None, "daughters": "list", "name": None})

contract(P + "__len__", requires=[], ensures=["result == llen(self.daughters)"], returns="int", properties=["C18"])

contract(P + "is_vertex", requires=[], ensures=["typ(result, 'bool')", "result == (llen(self.daughters) == 2)"],
         returns="bool", properties=["C18"])

contract(P + "__getitem__", types={"item": "int"}, requires=[],
         ensures=["same(result, lget(self.daughters, item if item >= 0 else llen(self.daughters) + item))"],
         raises={"IndexError": "not (-llen(self.daughters) <= item < llen(self.daughters))"}, properties=["C18"])


# ---- vertexes: the resonances of an amplitude (C18: "one lineshape per resonance") ---------------------------------------------
# Spec notions, defined over the heap at function entry (the function has an empty frame, so nothing they read changes):
#   md_tree(n)   n is a ModelDecay whose daughters, recursively, are ModelDecay nodes
#   res_of(n, x) x is a resonance below n: a two-daughter node reached from n through two-daughter nodes only
# Proved: the list returned holds resonances of the node only, and every resonance of the node is in it.  That each is
# listed ONCE (and the order) is not expressed here: bounded stand-in.
import z3  # noqa: E402
from pyvc import smt  # noqa: E402
from pyvc.contracts import spec_function  # noqa: E402
from pyvc.heap import TYP, class_id  # noqa: E402
from pyvc.smt import get_ref, is_ref  # noqa: E402
from pyvc.values import sv_bool  # noqa: E402

# (declared on first use, not at import: see pyvc.smt.TOKTEXT)
MDT = lambda n: z3.Function("md_tree", smt.I, smt.B)(n)
RES = lambda n, x: z3.Function("res_of", smt.I, smt.I, smt.B)(n, x)


@spec_function()
def md_tree(eng, st, n):
    return sv_bool(MDT(get_ref(eng.as_val(st, n).t)))


@spec_function()
def res_of(eng, st, n, x):
    v = eng.as_val(st, x).t
    return sv_bool(z3.And(is_ref(v), RES(get_ref(eng.as_val(st, n).t), get_ref(v))))


@spec_function()
def md_defs(eng, st):
    h = st.heap
    n, x, j = z3.Ints("md_n md_x md_j")
    dl = lambda m: get_ref(h.get_field(m, "daughters"))
    d = lambda m, k: h.lget(dl(m), k)
    vertex = lambda m: h.llen(dl(m)) == 2
    return sv_bool(z3.And(
        z3.ForAll([n], z3.Implies(MDT(n), z3.And(TYP(n) == class_id("ModelDecay"), is_ref(h.get_field(n, "daughters")),
                                                 TYP(dl(n)) == class_id("list"), h.llen(dl(n)) >= 0)), patterns=[MDT(n)]),
        z3.ForAll([n, j], z3.Implies(z3.And(MDT(n), 0 <= j, j < h.llen(dl(n))),
                                     z3.And(is_ref(d(n, j)), MDT(get_ref(d(n, j))))), patterns=[z3.MultiPattern(MDT(n), d(n, j))]),
        # a direct two-daughter daughter is a resonance, and so is every resonance below it ...
        z3.ForAll([n, j], z3.Implies(z3.And(MDT(n), 0 <= j, j < h.llen(dl(n)), vertex(get_ref(d(n, j)))),
                                     RES(n, get_ref(d(n, j)))), patterns=[z3.MultiPattern(MDT(n), d(n, j))]),
        z3.ForAll([n, j, x], z3.Implies(z3.And(MDT(n), 0 <= j, j < h.llen(dl(n)), vertex(get_ref(d(n, j))), RES(get_ref(d(n, j)), x)),
                                        RES(n, x)), patterns=[z3.MultiPattern(MDT(n), RES(get_ref(d(n, j)), x))]),
        # ... and nothing else is
        z3.ForAll([n, x], z3.Implies(z3.And(MDT(n), RES(n, x)),
                                     z3.Exists([j], z3.And(0 <= j, j < h.llen(dl(n)), vertex(get_ref(d(n, j))),
                                                           z3.Or(x == get_ref(d(n, j)), RES(get_ref(d(n, j)), x))))),
                  patterns=[z3.MultiPattern(MDT(n), RES(n, x))])))


import os  # noqa: E402

D = "self.daughters"
VTX = lambda e: f"(llen({e}.daughters) == 2)"
# WIP: 22 of 25 obligations discharged (open: preservation of the third invariant and two frame obligations time out);
# registered only on request (PYVC_WIP), counted nowhere
if os.environ.get("PYVC_WIP"):
  contract(P + "vertexes", requires=["md_tree(self)"], defs=["md_defs()"],
         ensures=["typ(result, 'list') and isfresh(result)",
                  # only resonances of this node ...
                  "forall(lambda i: implies(0 <= i < llen(result), res_of(self, lget(result, i))))",
                  # ... and every one of them
                  "forallv(lambda x: implies(res_of(self, x), exists(lambda i: 0 <= i < llen(result) and same(lget(result, i), x))))"],
         loops={"loop#0": {"invariant": [
             "typ(verts, 'list') and isfresh(verts)",
             "forall(lambda i: implies(0 <= i < llen(verts), res_of(self, lget(verts, i))))",
             f"forall(lambda j: implies(0 <= j < _i and {VTX('as_ty(_seq[j], \"obj:ModelDecay\")')}, exists(lambda i: 0 <= i < llen(verts) and same(lget(verts, i), _seq[j]))))",
             f"forall(lambda j: implies(0 <= j < _i and {VTX('as_ty(_seq[j], \"obj:ModelDecay\")')}, forallv(lambda x: implies(res_of(_seq[j], x), exists(lambda i: 0 <= i < llen(verts) and same(lget(verts, i), x))))))",
         ], "types": {"verts": "list"}}},
         returns="list", properties=["C18"])
