"""C04 / C11: decaylanguage.decay.decay — DaughtersDict and DecayMode."""
from pyvc.contracts import contract

P = "decaylanguage.decay.decay."

contract(P + "DaughtersDict.__init__", types={"iterable": "any", "kwds": "dict"},
         requires=["dlen(self) == 0", "forallv(lambda k: not dhas(self, k))", "dlen(kwds) == 0",
                   "typ(iterable, 'none', 'dict', 'obj:DaughtersDict', 'list', 'tuple')",
                   "implies(typ(iterable, 'dict', 'obj:DaughtersDict'), forallv(lambda k: implies(dhas(iterable, k), typ(dget(iterable, k), 'int'))))"],
         ensures=[
             # from a name -> count mapping: the entries with a positive count, same counts
             "implies(typ(iterable, 'dict', 'obj:DaughtersDict'), forallv(lambda k: dhas(self, k) == (dhas(iterable, k) and dget(iterable, k) > 0)))",
             "implies(typ(iterable, 'dict', 'obj:DaughtersDict'), forallv(lambda k: implies(dhas(self, k), dget(self, k) == dget(iterable, k))))",
             # from a list / tuple of names: every name with its multiplicity
             "implies(typ(iterable, 'list', 'tuple'), forallv(lambda k: dhas(self, k) == (count_of(iterable, k) >= 1)))",
             "implies(typ(iterable, 'list', 'tuple'), forallv(lambda k: implies(dhas(self, k), dget(self, k) == count_of(iterable, k))))",
             "implies(typ(iterable, 'none'), dlen(self) == 0)",
         ],
         modifies=["self"], returns="none", properties=["C11", "C04"])

contract(P + "DaughtersDict.charge_conjugate", types={"pdg_name": "bool"},
         requires=["is_final_state(self)",
                   # conjugation is injective on the names present (A-CC: involution on known names, injective marker otherwise)
                   "forallv(lambda a, b: implies(dhas(self, a) and dhas(self, b) and a != b, ccname(as_ty(a, 'str'), pdg_name) != ccname(as_ty(b, 'str'), pdg_name)))"],
         ensures=[
             "isfresh(result)",
             # each particle is conjugated with its multiplicity ...
             "forallv(lambda p: implies(dhas(self, p), dhas(result, ccname(as_ty(p, 'str'), pdg_name)) and dget(result, ccname(as_ty(p, 'str'), pdg_name)) == dget(self, p)))",
             # ... and nothing else appears
             "forallv(lambda q: implies(dhas(result, q), existsv(lambda p: dhas(self, p) and ccname(as_ty(p, 'str'), pdg_name) == q)))",
         ],
         returns="obj:DaughtersDict", properties=["C04"])
