"""C04 / C11: decaylanguage.decay.decay — DaughtersDict and DecayMode."""
from pyvc.contracts import contract

P = "decaylanguage.decay.decay."

contract(P + "DaughtersDict.__init__", types={"iterable": "any", "kwds": "dict"},
         requires=["dlen(self) == 0", "forallv(lambda k: not dhas(self, k))", "dlen(kwds) == 0",
                   "typ(iterable, 'none', 'dict', 'obj:DaughtersDict', 'list', 'tuple')",
                   "implies(typ(iterable, 'dict', 'obj:DaughtersDict'), forallv(lambda k: implies(dhas(iterable, k), typ(dget(iterable, k), 'int'))))"],
         ensures=[
             # from a name -> count mapping: the entries with a positive count, same counts
             "implies(typ(iterable, 'dict', 'obj:DaughtersDict'), forallv(lambda k: dhas(self, k) == (dhas(iterable, k) and dget(iterable, k) > 0)))",
             "implies(typ(iterable, 'dict', 'obj:DaughtersDict'), forallv(lambda k: implies(dhas(self, k), same(dget(self, k), dget(iterable, k)))))",
             # from a list / tuple of names: every name with its multiplicity
             "implies(typ(iterable, 'list', 'tuple'), forallv(lambda k: dhas(self, k) == (count_of(iterable, k) >= 1)))",
             "implies(typ(iterable, 'list', 'tuple'), forallv(lambda k: implies(dhas(self, k), dget(self, k) == count_of(iterable, k))))",
             "implies(typ(iterable, 'none'), dlen(self) == 0)",
         ],
         modifies=["self"], returns="none", properties=["C11", "C04"])

contract(P + "DaughtersDict.charge_conjugate", types={"pdg_name": "bool"},
         requires=["is_final_state(self)",
                   # conjugation is injective on the names present (A-CC: involution on known names, injective marker otherwise)
                   "forallv(lambda a, b: implies(dhas(self, a) and dhas(self, b) and a != b, ccname(as_ty(a, 'str'), pdg_name) != ccname(as_ty(b, 'str'), pdg_name)))"],
         ensures=[
             "isfresh(result)",
             # each particle is conjugated with its multiplicity ...
             "forallv(lambda p: implies(dhas(self, p), dhas(result, ccname(as_ty(p, 'str'), pdg_name)) and same(dget(result, ccname(as_ty(p, 'str'), pdg_name)), dget(self, p))))",
             # ... and nothing else appears
             "forallv(lambda q: implies(dhas(result, q), existsv(lambda p: dhas(self, p) and ccname(as_ty(p, 'str'), pdg_name) == q)))",
             "is_final_state(result)",
         ],
         returns="obj:DaughtersDict", properties=["C04"])

META_INV = ["typ(self.metadata, 'dict')", "dhas(self.metadata, 'model') and dhas(self.metadata, 'model_params')",
            "not dhas(self.metadata, 'bf') and not dhas(self.metadata, 'daughters') and not dhas(self.metadata, 'fs') and not dhas(self.metadata, 'self')"]

# the daughters actually used: the `daughters` argument, or the `fs=` keyword when no daughters are given (from_dict's route)
FS_ROUTE = "(daughters is None and dhas(info, 'fs'))"
D_PRE = f"(dget(info, 'fs') if {FS_ROUTE} else daughters)"
D_POST = f"(old(dget(info, 'fs')) if old({FS_ROUTE}) else daughters)"
KEPT = lambda k: f"(old(dhas(info, {k})) and not ({k} == 'fs' and old(daughters is None)))"

contract(P + "DecayMode.__init__", types={"bf": "any", "daughters": "any", "info": "dict"},
         requires=[f"typ({D_PRE}, 'none', 'dict', 'obj:DaughtersDict', 'list', 'tuple')",
                   f"implies(typ({D_PRE}, 'dict', 'obj:DaughtersDict'), forallv(lambda k: implies(dhas({D_PRE}, k), typ(dget({D_PRE}, k), 'int'))))",
                   # `fs=` next to explicit daughters would end up in the metadata
                   "implies(daughters is not None, not dhas(info, 'fs'))",
                   "not dhas(info, 'bf') and not dhas(info, 'daughters') and not dhas(info, 'self')"],
         ensures=[
             "same(self.bf, bf)",
             "isfresh(self.daughters)",
             f"implies(typ({D_POST}, 'dict', 'obj:DaughtersDict'), forallv(lambda k: dhas(self.daughters, k) == (dhas({D_POST}, k) and dget({D_POST}, k) > 0)))",
             f"implies(typ({D_POST}, 'dict', 'obj:DaughtersDict'), forallv(lambda k: implies(dhas(self.daughters, k), same(dget(self.daughters, k), dget({D_POST}, k)))))",
             f"implies(typ({D_POST}, 'list', 'tuple'), forallv(lambda k: dhas(self.daughters, k) == (count_of({D_POST}, k) >= 1)))",
             f"implies(typ({D_POST}, 'list', 'tuple'), forallv(lambda k: implies(dhas(self.daughters, k), dget(self.daughters, k) == count_of({D_POST}, k))))",
             # every (other) keyword becomes metadata; model / model_params default to ''
             "isfresh(self.metadata)",
             f"forallv(lambda k: dhas(self.metadata, k) == (k == 'model' or k == 'model_params' or {KEPT('k')}))",
             f"forallv(lambda k: implies({KEPT('k')}, same(dget(self.metadata, k), old(dget(info, k)))))",
             "implies(not old(dhas(info, 'model')), dget(self.metadata, 'model') == '')",
             "implies(not old(dhas(info, 'model_params')), dget(self.metadata, 'model_params') == '')",
         ] + META_INV,
         modifies=["self", "info"], modifies_fields=["bf", "daughters", "metadata"], returns="none", properties=["C11", "C04"])

contract(P + "DecayMode.charge_conjugate", types={"pdg_name": "bool"},
         requires=META_INV + ["is_final_state(self.daughters)",
                              "forallv(lambda a, b: implies(dhas(self.daughters, a) and dhas(self.daughters, b) and a != b, ccname(as_ty(a, 'str'), pdg_name) != ccname(as_ty(b, 'str'), pdg_name)))"],
         ensures=[
             "isfresh(result)", "same(result.bf, self.bf)", "isfresh(result.daughters)", "isfresh(result.metadata)",
             "forallv(lambda p: implies(dhas(self.daughters, p), dhas(result.daughters, ccname(as_ty(p, 'str'), pdg_name)) and same(dget(result.daughters, ccname(as_ty(p, 'str'), pdg_name)), dget(self.daughters, p))))",
             "forallv(lambda q: implies(dhas(result.daughters, q), existsv(lambda p: dhas(self.daughters, p) and ccname(as_ty(p, 'str'), pdg_name) == q)))",
             # all metadata kept (model information and every user key)
             "forallv(lambda k: dhas(result.metadata, k) == dhas(self.metadata, k))",
             "forallv(lambda k: implies(dhas(self.metadata, k), same(dget(result.metadata, k), dget(self.metadata, k))))",
         ],
         returns="obj:DecayMode", properties=["C04"])


# ---- C11: dictionary form ---------------------------------------------------------------------------------------------
contract(P + "DaughtersDict.to_list", requires=["is_final_state(self)"],
         ensures=["typ(result, 'list') and isfresh(result)",
                  # every name as often as its multiplicity, nothing else ...
                  "forallv(lambda k: count_of(result, k) == cnt(self, k))",
                  # ... in one canonical (sorted) order
                  "forall(lambda a, b: implies(0 <= a < b < llen(result), str_le(lget(result, a), lget(result, b))))",
                  "forall(lambda a: implies(0 <= a < llen(result), typ(lget(result, a), 'str')))"],
         returns="list", properties=["C11"])

contract(P + "DecayMode.to_dict",
         requires=META_INV + ["is_final_state(self.daughters)"],
         ensures=["typ(result, 'dict') and isfresh(result)",
                  "dhas(result, 'bf') and same(dget(result, 'bf'), self.bf)",
                  # the daughters as the canonical list of names with multiplicities
                  "dhas(result, 'fs') and typ(dget(result, 'fs'), 'list') and isfresh(dget(result, 'fs'))",
                  "forallv(lambda k: count_of(dget(result, 'fs'), k) == cnt(self.daughters, k))",
                  "forall(lambda a, b: implies(0 <= a < b < llen(dget(result, 'fs')), str_le(lget(dget(result, 'fs'), a), lget(dget(result, 'fs'), b))))",
                  # every piece of metadata (model information and user keys) under its own key, nothing else
                  "forallv(lambda k: dhas(result, k) == (k == 'bf' or k == 'fs' or dhas(self.metadata, k)))",
                  "forallv(lambda k: implies(dhas(self.metadata, k) and k != 'model_params', same(dget(result, k), dget(self.metadata, k))))",
                  "implies(dget(self.metadata, 'model_params') is None, dget(result, 'model_params') == '')",
                  "implies(dget(self.metadata, 'model_params') is not None, same(dget(result, 'model_params'), dget(self.metadata, 'model_params')))"],
         returns="dict", properties=["C11"])

contract(P + "_get_modes", types={"decay_chain": "dict"}, requires=[],
         ensures=["same(result, value_at(decay_chain, 0))"],
         raises={"AssertionError": "dlen(decay_chain) != 1"}, properties=["C11"])

contract(P + "_get_fs", types={"decay": "dict"}, requires=["dhas(decay, 'fs')"],
         ensures=["same(result, dget(decay, 'fs'))", "typ(result, 'list')"],
         raises={"TypeError": "not typ(dget(decay, 'fs'), 'list')"}, properties=["C11"])

D = "decay_mode_dict"
contract(P + "DecayMode.from_dict", types={D: "dict"},
         requires=[f"forallv(lambda k: implies(dhas({D}, k), typ(k, 'str')))",
                   f"implies(dhas({D}, 'bf'), typ(dget({D}, 'bf'), 'float', 'int'))",
                   f"implies(dhas({D}, 'fs'), typ(dget({D}, 'fs'), 'list', 'tuple'))",
                   f"implies(dhas({D}, 'fs') and typ(dget({D}, 'fs'), 'list', 'tuple'), forall(lambda j: implies(0 <= j < llen(dget({D}, 'fs')), typ(lget(dget({D}, 'fs'), j), 'str'))))",
                   f"not dhas({D}, 'daughters') and not dhas({D}, 'self')"],
         ensures=["isfresh(result) and typ(result, 'obj:DecayMode')",
                  f"same(result.bf, dget({D}, 'bf'))",
                  # (the final state -- every name of 'fs' with its multiplicity -- is proved for DecayMode.__init__ on the list it
                  # is given; carrying it through the private deep copy made here needs a chain of five instantiations that
                  # neither solver finds: that clause stays with the bounded round-trip check of C11)
                  "isfresh(result.daughters) and isfresh(result.metadata)",
                  # every other entry is metadata of the mode (model information and user keys); the input is not touched
                  f"forallv(lambda k: dhas(result.metadata, k) == (k == 'model' or k == 'model_params' or (dhas({D}, k) and k != 'bf' and k != 'fs')))",
                  f"implies(not dhas({D}, 'model'), dget(result.metadata, 'model') == '')",
                  f"implies(not dhas({D}, 'model_params'), dget(result.metadata, 'model_params') == '')"],
         raises={"RuntimeError": f"not (dhas({D}, 'bf') and dhas({D}, 'fs'))"},
         returns="obj:DecayMode", properties=["C11"])

# ---- DecayChain: the accessors (C11/C12 read the chain through them) ---------------------------------------------------
CHAIN_INV = ["typ(self.decays, 'dict')", "dhas(self.decays, self.mother)", "typ(dget(self.decays, self.mother), 'obj:DecayMode')"]

contract(P + "DecayChain.__init__", types={"mother": "str", "decays": "dict"}, requires=[],
         ensures=["same(self.mother, mother)", "same(self.decays, decays)", "dhas(decays, mother)"],
         raises={"RuntimeError": "not dhas(decays, mother)"},
         modifies=["self"], modifies_fields=["mother", "decays"], returns="none", properties=["C11", "C12"])

contract(P + "DecayChain.top_level_decay", requires=CHAIN_INV,
         ensures=["same(result, dget(self.decays, self.mother))"], returns="obj:DecayMode", properties=["C11", "C12"])

contract(P + "DecayChain.bf", requires=CHAIN_INV,
         ensures=["same(result, dget(self.decays, self.mother).bf)"], properties=["C12"])

contract(P + "DecayChain.ndecays", requires=["typ(self.decays, 'dict')"],
         ensures=["result == dlen(self.decays)"], returns="int", properties=["C12"])
