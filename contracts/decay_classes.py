"""C04 / C11: decaylanguage.decay.decay — DaughtersDict and DecayMode."""
from pyvc.contracts import contract

P = "decaylanguage.decay.decay."

contract(P + "DaughtersDict.__init__", types={"iterable": "any", "kwds": "dict"},
         requires=["dlen(self) == 0", "forallv(lambda k: not dhas(self, k))", "dlen(kwds) == 0",
                   "typ(iterable, 'none', 'dict', 'obj:DaughtersDict', 'list', 'tuple')",
                   "implies(typ(iterable, 'dict', 'obj:DaughtersDict'), forallv(lambda k: implies(dhas(iterable, k), typ(dget(iterable, k), 'int'))))"],
         ensures=[
             # from a name -> count mapping: the entries with a positive count, same counts
             "implies(typ(iterable, 'dict', 'obj:DaughtersDict'), forallv(lambda k: dhas(self, k) == (dhas(iterable, k) and dget(iterable, k) > 0)))",
             "implies(typ(iterable, 'dict', 'obj:DaughtersDict'), forallv(lambda k: implies(dhas(self, k), same(dget(self, k), dget(iterable, k)))))",
             # from a list / tuple of names: every name with its multiplicity
             "implies(typ(iterable, 'list', 'tuple'), forallv(lambda k: dhas(self, k) == (count_of(iterable, k) >= 1)))",
             "implies(typ(iterable, 'list', 'tuple'), forallv(lambda k: implies(dhas(self, k), dget(self, k) == count_of(iterable, k))))",
             "implies(typ(iterable, 'none'), dlen(self) == 0)",
         ],
         modifies=["self"], returns="none", properties=["C11", "C04"])

contract(P + "DaughtersDict.charge_conjugate", types={"pdg_name": "bool"},
         requires=["is_final_state(self)",
                   # conjugation is injective on the names present (A-CC: involution on known names, injective marker otherwise)
                   "forallv(lambda a, b: implies(dhas(self, a) and dhas(self, b) and a != b, ccname(as_ty(a, 'str'), pdg_name) != ccname(as_ty(b, 'str'), pdg_name)))"],
         ensures=[
             "isfresh(result)",
             # each particle is conjugated with its multiplicity ...
             "forallv(lambda p: implies(dhas(self, p), dhas(result, ccname(as_ty(p, 'str'), pdg_name)) and same(dget(result, ccname(as_ty(p, 'str'), pdg_name)), dget(self, p))))",
             # ... and nothing else appears
             "forallv(lambda q: implies(dhas(result, q), existsv(lambda p: dhas(self, p) and ccname(as_ty(p, 'str'), pdg_name) == q)))",
             "is_final_state(result)",
         ],
         returns="obj:DaughtersDict", properties=["C04"])

META_INV = ["typ(self.metadata, 'dict')", "dhas(self.metadata, 'model') and dhas(self.metadata, 'model_params')",
            "not dhas(self.metadata, 'bf') and not dhas(self.metadata, 'daughters') and not dhas(self.metadata, 'fs') and not dhas(self.metadata, 'self')"]

contract(P + "DecayMode.__init__", types={"bf": "any", "daughters": "any", "info": "dict"},
         requires=["typ(daughters, 'none', 'dict', 'obj:DaughtersDict', 'list', 'tuple')",
                   "implies(typ(daughters, 'dict', 'obj:DaughtersDict'), forallv(lambda k: implies(dhas(daughters, k), typ(dget(daughters, k), 'int'))))",
                   # daughters given explicitly (the `fs=` keyword route is covered by from_dict)
                   "not dhas(info, 'fs')", "not dhas(info, 'bf') and not dhas(info, 'daughters') and not dhas(info, 'self')"],
         ensures=[
             "same(self.bf, bf)",
             "isfresh(self.daughters)",
             "implies(typ(daughters, 'dict', 'obj:DaughtersDict'), forallv(lambda k: dhas(self.daughters, k) == (dhas(daughters, k) and dget(daughters, k) > 0)))",
             "implies(typ(daughters, 'dict', 'obj:DaughtersDict'), forallv(lambda k: implies(dhas(self.daughters, k), same(dget(self.daughters, k), dget(daughters, k)))))",
             "implies(typ(daughters, 'list', 'tuple'), forallv(lambda k: dhas(self.daughters, k) == (count_of(daughters, k) >= 1)))",
             "implies(typ(daughters, 'list', 'tuple'), forallv(lambda k: implies(dhas(self.daughters, k), dget(self.daughters, k) == count_of(daughters, k))))",
             # every keyword becomes metadata; model / model_params default to ''
             "isfresh(self.metadata)",
             "forallv(lambda k: dhas(self.metadata, k) == (k == 'model' or k == 'model_params' or dhas(info, k)))",
             "forallv(lambda k: implies(dhas(info, k), same(dget(self.metadata, k), dget(info, k))))",
             "implies(not dhas(info, 'model'), dget(self.metadata, 'model') == '')",
             "implies(not dhas(info, 'model_params'), dget(self.metadata, 'model_params') == '')",
         ] + META_INV,
         modifies=["self"], modifies_fields=["bf", "daughters", "metadata"], returns="none", properties=["C11", "C04"])

contract(P + "DecayMode.charge_conjugate", types={"pdg_name": "bool"},
         requires=META_INV + ["is_final_state(self.daughters)",
                              "forallv(lambda a, b: implies(dhas(self.daughters, a) and dhas(self.daughters, b) and a != b, ccname(as_ty(a, 'str'), pdg_name) != ccname(as_ty(b, 'str'), pdg_name)))"],
         ensures=[
             "isfresh(result)", "same(result.bf, self.bf)", "isfresh(result.daughters)", "isfresh(result.metadata)",
             "forallv(lambda p: implies(dhas(self.daughters, p), dhas(result.daughters, ccname(as_ty(p, 'str'), pdg_name)) and same(dget(result.daughters, ccname(as_ty(p, 'str'), pdg_name)), dget(self.daughters, p))))",
             "forallv(lambda q: implies(dhas(result.daughters, q), existsv(lambda p: dhas(self.daughters, p) and ccname(as_ty(p, 'str'), pdg_name) == q)))",
             # all metadata kept (model information and every user key)
             "forallv(lambda k: dhas(result.metadata, k) == dhas(self.metadata, k))",
             "forallv(lambda k: implies(dhas(self.metadata, k), same(dget(result.metadata, k), dget(self.metadata, k))))",
         ],
         returns="obj:DecayMode", properties=["C04"])
