"""Lark as seen by the contracts (assumed external contracts X-LARK / X-TREE of DESIGN.md 8):

* classes Tree(data, children) and Token(type, value);
* wf: the datatype invariant of parsed trees, generated from the schema that pyvc.schema extracts from
  the rules Lark compiles out of the *current* decfile.lark;
* Tree.find_data(label): the sub-trees with that label, deepest level first and left to right within a
  level — which is file order whenever the label occurs at a single depth (checked on the schema).
"""
from __future__ import annotations

import functools

import lark
import z3

from pyvc import smt
from pyvc.contracts import REG, constructor, external, klass, spec_function
from pyvc.engine import Unsupported
from pyvc.heap import TYP, FieldSort, class_id
from pyvc.schema import depth_facts, extract
from pyvc.smt import VRef, VStr, Val, get_ref, get_s, is_ref, is_str, is_real
from pyvc.values import SV, SeqView, sv_bool, sv_ref

klass("Tree", pycls=lark.Tree, fields={"data": "str", "children": "list"}, custom_eq=True)
klass("Token", pycls=lark.Token, fields={"value": None, "type": "str"})

F_DATA = z3.Const("fld0_data", FieldSort)
F_CHILDREN = z3.Const("fld0_children", FieldSort)
F_VALUE = z3.Const("fld0_value", FieldSort)
F_TYPE = z3.Const("fld0_type", FieldSort)

IS_CHILDREN = z3.Function("is_children_list", smt.I, smt.B)
WFN = z3.Function("wf_node", smt.I, smt.B)         # node of a tree as produced by Lark from the grammar
WFR = z3.Function("wf_node_resolved", smt.I, smt.B)  # node of a decay tree after parse()'s replacements
FD_N = z3.Function("find_data_n", smt.I, smt.S, smt.I)
FD_ARR = z3.Function("find_data_arr", smt.I, smt.S, smt.ArrIV)
LEX = {}                                             # terminal name -> predicate String -> Bool


def lex(term):
    if term not in LEX:
        LEX[term] = z3.Function("lex_" + term, smt.S, smt.B)
    return LEX[term]


@functools.lru_cache(None)
def dec_schema():
    from decaylanguage.dec.dec import DecFileParser
    p = DecFileParser()
    opts = p.grammar_info()
    L = lark.Lark(p.grammar(), parser=opts["parser"], lexer=opts["lexer"], edit_terminals=opts["edit_terminals"])
    return extract(L)


def strv(x):
    return VStr(z3.StringVal(x))


def _kind_match(v, kinds, pred, alloc0, phase):
    alts = []
    for k in sorted(kinds):
        if k.isupper() or k.startswith("_"):
            r = get_ref(v)
            val = z3.Select(F_VALUE, r)
            base = [is_ref(v), TYP(r) == class_id("Token"), r >= 0, r < alloc0, z3.Select(F_TYPE, r) == strv(k)]
            if phase == "resolved-opt" and k == "LABEL":
                # a parameter word: verbatim str, or the float of the Define it named
                alts.append(z3.And(*base, z3.Or(z3.And(is_str(val), lex(k)(get_s(val))), is_real(val))))
            elif phase == "resolved-opt" and k == "SIGNED_NUMBER":
                alts.append(z3.And(*base, is_real(val)))
            else:
                alts.append(z3.And(*base, is_str(val), lex(k)(get_s(val))))
        else:
            r = get_ref(v)
            alts.append(z3.And(is_ref(v), pred(r), z3.Select(F_DATA, r) == strv(k)))
    return z3.Or(alts) if alts else z3.BoolVal(False)


def _shape_formula(r, shape, pred, heap0, phase, label):
    c = get_ref(z3.Select(F_CHILDREN, r))
    n = heap0.llen(c)
    child = lambda j: heap0.lget(c, j)
    items = shape.items
    reps = [idx for idx, (_, rep) in enumerate(items) if rep != "1"]
    if len(reps) > 1:
        raise Unsupported(f"schema shape with two repetitions: {label}: {shape}")
    sub_pred = pred
    sub_phase = phase

    def km(v, kinds):
        return _kind_match(v, kinds, sub_pred, heap0.alloc, sub_phase)
    if not reps:
        return z3.And(n == len(items), *[km(child(j), items[j][0]) for j in range(len(items))])
    ri = reps[0]
    a = ri
    b = len(items) - ri - 1
    kinds, rep = items[ri]
    j = z3.Int("sch_j")
    return z3.And(n >= a + b + (1 if rep == "+" else 0),
                  *[km(child(k), items[k][0]) for k in range(a)],
                  *[km(child(n - b + k), items[ri + 1 + k][0]) for k in range(b)],
                  z3.ForAll([j], z3.Implies(z3.And(a <= j, j < n - b), km(child(j), kinds)),
                            patterns=[child(j)]))


def schema_axioms(heap0, phase="raw"):
    """quantified axioms describing every node that satisfies WFN (raw) / WFR (resolved)"""
    sc = dict(dec_schema())
    pred = WFN if phase == "raw" else WFR
    r = z3.Int("sch_r")
    c = get_ref(z3.Select(F_CHILDREN, r))
    labels = sorted(sc)
    ax = [z3.ForAll([r], z3.Implies(pred(r), z3.And(
        TYP(r) == class_id("Tree"), r >= 0, r < heap0.alloc,
        is_ref(z3.Select(F_CHILDREN, r)), TYP(c) == class_id("list"), c >= 0, c < heap0.alloc,
        heap0.llen(c) >= 0, is_str(z3.Select(F_DATA, r)), IS_CHILDREN(c),
        z3.Or([z3.Select(F_DATA, r) == strv(l) for l in labels]))), patterns=[pred(r)]),
        z3.ForAll([r], z3.Implies(IS_CHILDREN(r), r < heap0.alloc), patterns=[IS_CHILDREN(r)])]
    for label, shapes in sc.items():
        ph = phase
        if phase == "resolved":
            if label == "model":
                # after alias replacement no model_label child is left (contract of DecayModelAliasReplacement.model)
                shapes = [s for s in shapes if not any("model_label" in k for k, _ in s.items)]
            if label == "model_options":
                ph = "resolved-opt"
        alts = []
        for sh in shapes:
            if ph == "resolved-opt":
                # children: value sub-trees whose token holds a float, or LABEL tokens (str or float)
                alts.append(_resolved_options(r, heap0))
            else:
                alts.append(_shape_formula(r, sh, pred, heap0, ph, label))
        ax.append(z3.ForAll([r], z3.Implies(z3.And(pred(r), z3.Select(F_DATA, r) == strv(label)), z3.Or(alts)),
                            patterns=[pred(r)]))
    if phase == "resolved":
        OV = z3.Function("wf_optvalue", smt.I, smt.B)
        cc = get_ref(z3.Select(F_CHILDREN, r))
        tok = heap0.lget(cc, 0)
        tr = get_ref(tok)
        ax.append(z3.ForAll([r], z3.Implies(OV(r), z3.And(
            TYP(r) == class_id("Tree"), r >= 0, r < heap0.alloc, z3.Select(F_DATA, r) == strv("value"),
            is_ref(z3.Select(F_CHILDREN, r)), TYP(cc) == class_id("list"), cc >= 0, cc < heap0.alloc,
            heap0.llen(cc) == 1, is_ref(tok), TYP(tr) == class_id("Token"), tr >= 0, tr < heap0.alloc,
            z3.Select(F_TYPE, tr) == strv("SIGNED_NUMBER"), is_real(z3.Select(F_VALUE, tr)))),
            patterns=[OV(r)]))
    return ax


def _resolved_options(r, heap0):
    OV = z3.Function("wf_optvalue", smt.I, smt.B)
    c = get_ref(z3.Select(F_CHILDREN, r))
    n = heap0.llen(c)
    j = z3.Int("sch_j")
    v = heap0.lget(c, j)
    vr = get_ref(v)
    val = z3.Select(F_VALUE, vr)
    tok = z3.And(is_ref(v), TYP(vr) == class_id("Token"), vr >= 0, vr < heap0.alloc,
                 z3.Select(F_TYPE, vr) == strv("LABEL"),
                 z3.Or(z3.And(is_str(val), lex("LABEL")(get_s(val))), is_real(val)))
    sub = z3.And(is_ref(v), OV(vr))
    return z3.And(n >= 0, z3.ForAll([j], z3.Implies(z3.And(0 <= j, j < n), z3.Or(tok, sub)), patterns=[v]))


def lexical_axioms():
    """what the contracts use of the terminal languages (each is an obligation of the lexical checks
    or an assumption about CPython's float()/int(), monitored at run time)"""
    s = z3.String("lx_s")
    ax = []
    for t in ("SIGNED_NUMBER", "INT"):
        ax.append(z3.ForAll([s], z3.Implies(lex(t)(s), smt.float_ok(s)), patterns=[lex(t)(s)]))
    ax.append(z3.ForAll([s], z3.Implies(lex("INT")(s), smt.int_ok(s)), patterns=[lex("INT")(s)]))
    ax.append(z3.ForAll([s], z3.Implies(lex("LABEL")(s), z3.Length(s) > 0), patterns=[lex("LABEL")(s)]))
    for t, words in (("BOOLEAN_INCLUDE_FACTOR", ("yes", "no")),
                     ("LABEL_CHANGE_MASS", ("ChangeMassMin", "ChangeMassMax")),
                     ("LABEL_INCLUDE_FACTOR", ("IncludeBirthFactor", "IncludeDecayFactor")),
                     ("LABEL_LINESHAPE", ("LSFLAT", "LSNONRELBW", "LSMANYDELTAFUNC")),
                     ("LABEL_PYTHIA8_COMMANDS", ("PythiaAliasParam", "PythiaBothParam", "PythiaGenericParam"))):
        ax.append(z3.ForAll([s], z3.Implies(lex(t)(s), z3.Or([s == z3.StringVal(w) for w in words])),
                            patterns=[lex(t)(s)]))
    return ax


def ensure_axioms(eng, st, phase):
    key = "wf_axioms_" + phase
    if st.ghost.get(key):
        return
    st.ghost[key] = True
    h0 = eng.entry_heap
    st.assume(*schema_axioms(h0, phase))
    if not st.ghost.get("lex_axioms"):
        st.ghost["lex_axioms"] = True
        st.assume(*lexical_axioms())


@spec_function()
def wf_file(eng, st, tree):
    """tree is the `start` tree Lark returns for a text of the decfile grammar"""
    ensure_axioms(eng, st, "raw")
    v = eng.as_val(st, tree)
    return sv_bool(z3.And(is_ref(v.t), WFN(get_ref(v.t)), z3.Select(F_DATA, get_ref(v.t)) == strv("start")))


@spec_function()
def wf_node(eng, st, tree, label=None):
    ensure_axioms(eng, st, "raw")
    v = eng.as_val(st, tree)
    conds = [is_ref(v.t), WFN(get_ref(v.t))]
    if label is not None:
        conds.append(z3.Select(F_DATA, get_ref(v.t)) == eng.as_val(st, label).t)
    return sv_bool(z3.And(conds))


@spec_function()
def wf_resolved(eng, st, tree, label=None):
    """node of a decay tree after alias / parameter replacement (what parse() stores)"""
    ensure_axioms(eng, st, "resolved")
    v = eng.as_val(st, tree)
    conds = [is_ref(v.t), WFR(get_ref(v.t))]
    if label is not None:
        conds.append(z3.Select(F_DATA, get_ref(v.t)) == eng.as_val(st, label).t)
    return sv_bool(z3.And(conds))


@spec_function()
def stmts(eng, st, tree, label):
    """spec view of Tree.find_data: the sub-trees with this label, in file order"""
    v = eng.as_val(st, tree)
    l = eng.as_val(st, label)
    return find_data_view(eng, st, get_ref(v.t), get_s(l.t))


def find_data_view(eng, st, ref, label):
    n = FD_N(ref, label)
    arr = FD_ARR(ref, label)
    j, k = z3.Ints("fd_j fd_k")
    e = z3.Select(arr, j)
    key = ("fd", str(ref), str(label))
    if not st.ghost.get(key):
        st.ghost[key] = True
        facts = [n >= 0,
                 z3.ForAll([j], z3.Implies(z3.And(0 <= j, j < n),
                                           z3.And(is_ref(e), TYP(get_ref(e)) == class_id("Tree"),
                                                  get_ref(e) >= 0, get_ref(e) < eng.entry_heap.alloc,
                                                  z3.Select(F_DATA, get_ref(e)) == VStr(label),
                                                  z3.Implies(WFN(ref), WFN(get_ref(e))),
                                                  z3.Implies(WFR(ref), WFR(get_ref(e))))),
                           patterns=[e]),
                 z3.ForAll([j, k], z3.Implies(z3.And(0 <= j, j < k, k < n), z3.Select(arr, j) != z3.Select(arr, k)),
                           patterns=[z3.MultiPattern(z3.Select(arr, j), z3.Select(arr, k))])]
        facts += structural_facts(eng, ref, label, n, arr)
        st.assume(*facts)
    return SeqView(n, arr, "obj:Tree")


def structural_facts(eng, ref, label, n, arr):
    """find_data on a decayline / decay node, spelled out through the node's own children.  Derived by
    hand from X-TREE (order) + the schema (the label occurs only at the stated child positions); the
    derivation is validated against lark's real Tree.find_data on trees enumerated from the schema by
    checks/C01.py (monitor `fd_structure`), and is void (no facts) if the schema no longer has the
    shapes  decayline : value particle* photos? model ,  decay : particle decayline* ,
    model : MODEL_NAME model_options? | model_label."""
    lab = smt.simp(label)
    if not z3.is_string_value(lab):
        return []
    lab = lab.as_string()
    sc = dec_schema()
    shapes = {k: sorted(repr(x) for x in v) for k, v in sc.items()}
    if shapes.get("decayline") != ["value particle* model", "value particle* photos model"] or \
       shapes.get("decay") != ["particle decayline*"] or \
       shapes.get("model") != ["MODEL_NAME", "MODEL_NAME model_options", "model_label"]:
        return []
    h0 = eng.entry_heap
    c = get_ref(z3.Select(F_CHILDREN, ref))
    m = h0.llen(c)
    child = lambda j: h0.lget(c, j)
    data = lambda v: z3.Select(F_DATA, get_ref(v))
    wf = z3.Or(WFN(ref), WFR(ref))
    is_line = z3.And(wf, z3.Select(F_DATA, ref) == strv("decayline"))
    is_decay = z3.And(wf, z3.Select(F_DATA, ref) == strv("decay"))
    photos = data(child(m - 2)) == strv("photos")
    j = z3.Int("sf_j")
    out = []
    if lab == "particle":
        k = z3.If(photos, m - 3, m - 2)
        out.append(z3.Implies(is_line, z3.And(n == k, z3.ForAll([j], z3.Implies(z3.And(0 <= j, j < k), z3.Select(arr, j) == child(1 + j)),
                                                                   patterns=[z3.Select(arr, j)]))))
    elif lab == "model":
        out.append(z3.Implies(is_line, z3.And(n == 1, z3.Select(arr, 0) == child(m - 1))))
    elif lab == "photos":
        out.append(z3.Implies(is_line, z3.And(n == z3.If(photos, 1, 0), z3.Implies(photos, z3.Select(arr, 0) == child(m - 2)))))
    elif lab == "model_options":
        mc = get_ref(z3.Select(F_CHILDREN, get_ref(child(m - 1))))
        has = z3.And(h0.llen(mc) == 2)
        out.append(z3.Implies(is_line, z3.And(n == z3.If(has, 1, 0), z3.Implies(has, z3.Select(arr, 0) == h0.lget(mc, 1)))))
    elif lab == "decayline":
        out.append(z3.Implies(is_decay, z3.And(n == m - 1, z3.ForAll([j], z3.Implies(z3.And(0 <= j, j < m - 1), z3.Select(arr, j) == child(1 + j)),
                                                                     patterns=[z3.Select(arr, j)]))))
    return out


@external("lark.tree.Tree.find_data",
          assumption="X-TREE: Tree.find_data(label) yields exactly the sub-trees (self included) whose data is label, "
                     "deepest level first, left to right within a level; tree structure (data, children lists) is "
                     "not mutated by the code under contract (frame obligation `treestruct`)")
def find_data(eng, s, args, kwargs):
    tree, label = args
    tree = eng.as_val(s, tree)
    label = eng.as_val(s, label)
    return [(find_data_view(eng, s, get_ref(tree.t), get_s(label.t)), s)]


@constructor("Tree", assumption="X-TREE: Tree(data, children) stores both arguments")
def new_tree(eng, s, args, kwargs):
    data, children = args
    ref = eng.alloc(s, "Tree")
    s.heap = s.heap.set_field(ref, "data", eng.as_val(s, data).t)
    s.heap = s.heap.set_field(ref, "children", eng.as_val(s, children).t)
    return [(sv_ref(ref, "obj:Tree"), s)]


class TreeStruct:
    """structure of parsed trees is immutable for the code under contract: writes to the `data` /
    `children` attribute of a wf node, or to a list that is the children list of one, are refused"""
    protected_kinds = ("list", "fld:data", "fld:children")

    def pred(self, ref):
        return z3.Or(WFN(ref), WFR(ref), IS_CHILDREN(ref))

    def active(self, st):
        # only functions that assume something about parsed trees can depend on their structure
        return any(isinstance(k, str) and k.startswith("wf_axioms_") for k in st.ghost) or \
            any(isinstance(k, tuple) and k and k[0] == "fd" for k in st.ghost)

    def base_axioms(self, eng, st):
        if st.ghost.get("treestruct_axioms"):
            return
        st.ghost["treestruct_axioms"] = True
        r = z3.Int("ts_r")
        a0 = eng.entry_heap.alloc
        st.assume(z3.ForAll([r], z3.Implies(WFN(r), r < a0), patterns=[WFN(r)]),
                  z3.ForAll([r], z3.Implies(WFR(r), r < a0), patterns=[WFR(r)]),
                  z3.ForAll([r], z3.Implies(IS_CHILDREN(r), r < a0), patterns=[IS_CHILDREN(r)]))


REG.tree_struct = TreeStruct()


# ---- spec views of one decayline (written from the property: daughters in order, model, parameters) ----
def _children(eng, st, node):
    v = eng.as_val(st, node)
    c = get_ref(st.heap.get_field(get_ref(v.t), "children"))
    return c


@spec_function()
def daughters(eng, st, line):
    """the particle children of a decayline: positions 1 .. (before photos? model), in order"""
    h = st.heap
    c = _children(eng, st, line)
    m = h.llen(c)
    photos = h.get_field(get_ref(h.lget(c, m - 2)), "data") == strv("photos")
    k = z3.If(photos, m - 3, m - 2)
    from pyvc.builtins_model import View
    return View(k, lambda st2, j: SV(h.lget(c, 1 + j), "obj:Tree"))


@spec_function()
def has_photos(eng, st, line):
    h = st.heap
    c = _children(eng, st, line)
    m = h.llen(c)
    return sv_bool(h.get_field(get_ref(h.lget(c, m - 2)), "data") == strv("photos"))


@spec_function()
def model_node(eng, st, line):
    h = st.heap
    c = _children(eng, st, line)
    return SV(h.lget(c, h.llen(c) - 1), "obj:Tree")


@spec_function()
def has_options(eng, st, line):
    h = st.heap
    mc = _children(eng, st, model_node(eng, st, line))
    return sv_bool(h.llen(mc) == 2)


@spec_function()
def options(eng, st, line):
    """children of the model_options node of the line's model"""
    h = st.heap
    mc = _children(eng, st, model_node(eng, st, line))
    oc = get_ref(h.get_field(get_ref(h.lget(mc, 1)), "children"))
    return SeqView(h.llen(oc), h.lelems(oc))


@spec_function()
def option_value(eng, st, node):
    """a `value` sub-tree stands for its token's value, a LABEL token for its own"""
    h = st.heap
    v = eng.as_val(st, node)
    r = get_ref(v.t)
    is_tree = TYP(r) == class_id("Tree")
    tok = get_ref(h.lget(get_ref(h.get_field(r, "children")), 0))
    return SV(z3.If(is_tree, h.get_field(tok, "value"), h.get_field(r, "value")), None)


# ---- children of a model_options node, before and after DecayModelParamValueReplacement ---------------------
def _opt_child(eng, st, t, phase):
    h = st.heap
    v = eng.as_val(st, t)
    r = get_ref(v.t)
    f = lambda name, x: h.get_field(x, name)
    c = get_ref(f("children", r))
    tok = get_ref(h.lget(c, 0))
    a0 = eng.entry_heap.alloc
    live = lambda x: z3.And(x >= 0, x < a0)
    if phase == "raw":
        tokval_tree = z3.And(is_str(f("value", tok)), lex("SIGNED_NUMBER")(get_s(f("value", tok))))
        tokval_tok = z3.And(is_str(f("value", r)), lex("LABEL")(get_s(f("value", r))))
    else:
        tokval_tree = is_real(f("value", tok))
        tokval_tok = z3.Or(z3.And(is_str(f("value", r)), lex("LABEL")(get_s(f("value", r)))), is_real(f("value", r)))
    as_tree = z3.And(TYP(r) == class_id("Tree"), f("data", r) == strv("value"), is_ref(f("children", r)), TYP(c) == class_id("list"),
                     live(c), h.llen(c) == 1, is_ref(h.lget(c, 0)), TYP(tok) == class_id("Token"), live(tok),
                     f("type", tok) == strv("SIGNED_NUMBER"), tokval_tree, IS_CHILDREN(c))
    as_tok = z3.And(TYP(r) == class_id("Token"), f("type", r) == strv("LABEL"), tokval_tok)
    return z3.And(is_ref(v.t), live(r), z3.Or(as_tree, as_tok))


@spec_function()
def raw_option_child(eng, st, t):
    """a child of a model_options node as Lark produces it: `value` sub-tree (numeric literal) or LABEL token (word)"""
    ensure_lex(eng, st)
    return sv_bool(_opt_child(eng, st, t, "raw"))


@spec_function()
def resolved_option_child(eng, st, t):
    ensure_lex(eng, st)
    return sv_bool(_opt_child(eng, st, t, "resolved"))


@spec_function()
def option_token(eng, st, t):
    """the token that carries the parameter: the node itself, or the token of a `value` sub-tree"""
    h = st.heap
    v = eng.as_val(st, t)
    r = get_ref(v.t)
    tok = h.lget(get_ref(h.get_field(r, "children")), 0)
    return SV(z3.If(TYP(r) == class_id("Tree"), tok, v.t), "obj:Token")


def ensure_lex(eng, st):
    if not st.ghost.get("lex_axioms"):
        st.ghost["lex_axioms"] = True
        st.assume(*lexical_axioms())


@spec_function()
def option_tokens(eng, st, node):
    """frame: the parameter tokens of a model_options node (one per child)"""
    from pyvc.values import RefSet
    h = st.heap
    v = eng.as_val(st, node)
    c = get_ref(h.get_field(get_ref(v.t), "children"))
    n = h.llen(c)

    def pred(r):
        j = smt.fresh("ot_j", smt.I)
        ch = h.lget(c, j)
        cr = get_ref(ch)
        tok = get_ref(h.lget(get_ref(h.get_field(cr, "children")), 0))
        return z3.Exists([j], z3.And(0 <= j, j < n, r == z3.If(TYP(cr) == class_id("Tree"), tok, cr)))
    return RefSet(pred)


RESOLVE = None


@spec_function()
def resolve_word(eng, st, val, is_literal, defs):
    """what a parameter stands for (from property C05/C01): a numeric literal -> its float; a word that is a Define'd name
    -> the value (negated when written with a leading minus sign); any other word -> itself"""
    h = st.heap
    v = eng.as_val(st, val).t
    lit = eng.truth(st, is_literal)
    d = get_ref(eng.as_val(st, defs).t)
    s = get_s(v)
    neg = z3.SubString(s, 0, 1) == z3.StringVal("-")
    tail = smt.VStr(z3.SubString(s, 1, z3.Length(s) - 1))
    word = z3.If(neg, z3.If(h.dhas(d, tail), smt.VReal(-smt.get_r(h.dget(d, tail))), v),
                 z3.If(h.dhas(d, v), h.dget(d, v), v))
    return SV(z3.If(lit, smt.VReal(smt.float_of(s)), word), None)


# ---- light-weight well-formedness (only the part of the schema a function needs: smaller VCs) -------------------
@spec_function()
def wf_labels(eng, st, tree, *labels):
    """like wf_file / wf_node but loading only the schema axioms of the given tree labels (and of the base facts)"""
    h0 = eng.entry_heap
    want = [l.s.as_string() if hasattr(l, "s") else str(l) for l in labels]
    key = "wf_axioms_raw_light"
    have = st.ghost.get(key, set())
    ax = None
    for lab in want:
        if lab in have:
            continue
        if ax is None:
            ax = schema_axioms(h0, "raw")
            sc_labels = list(dec_schema().keys())
        if not have:
            st.assume(ax[0], ax[1])
        st.assume(ax[2 + sc_labels.index(lab)])
        have = set(have) | {lab}
    st.ghost[key] = have
    ensure_lex(eng, st)
    v = eng.as_val(st, tree)
    return sv_bool(z3.And(is_ref(v.t), WFN(get_ref(v.t))))


@spec_function()
def table_head(eng, st, t):
    """t is a `decay` tree as far as its mother is concerned: Tree('decay', [Tree('particle', [Token(str)]), ...])"""
    h = st.heap
    v = eng.as_val(st, t)
    r = get_ref(v.t)
    f = lambda name, x: h.get_field(x, name)
    c = get_ref(f("children", r))
    p = get_ref(h.lget(c, 0))
    pc = get_ref(f("children", p))
    tok = get_ref(h.lget(pc, 0))
    T = class_id
    return sv_bool(z3.And(is_ref(v.t), TYP(r) == T("Tree"), f("data", r) == strv("decay"),
                          is_ref(f("children", r)), TYP(c) == T("list"), h.llen(c) >= 1,
                          is_ref(h.lget(c, 0)), TYP(p) == T("Tree"), f("data", p) == strv("particle"),
                          is_ref(f("children", p)), TYP(pc) == T("list"), h.llen(pc) == 1,
                          is_ref(h.lget(pc, 0)), TYP(tok) == T("Token"), is_str(f("value", tok))))


# ---- lark.Visitor.visit: frame-level assumed contract ----------------------------------------------------------------
@external("lark.visitors.Visitor.visit",
          assumption="X-TREE: Visitor.visit(tree) calls the visitor's callbacks on sub-trees of `tree` only: it can change nothing "
                     "but mutable nodes reachable from `tree` (token values) and the visitor's own tables; what the callbacks do to "
                     "each node is their own contract (proved separately); it returns the tree")
def visitor_visit(eng, s, args, kwargs):
    from contracts.copy_model import REACH
    from pyvc.heap import ARR_KINDS
    visitor, tree = args[0], eng.as_val(s, args[1])
    old = s.heap
    troot = get_ref(tree.t)
    # the caller must own everything the visitor may touch
    r = z3.Int("vv_r")
    eng.oblige(f"{eng.qual}.call.visit.frame@L{eng.cur_line}", s,
               z3.ForAll([r], z3.Implies(REACH(troot, r), z3.Or(r >= eng.entry_alloc, in_frame_of(eng, r)))), "frame")
    # the visitor's tables (dict attributes of the visitor object) may change as well
    tables = []
    cls = visitor.ty[4:] if visitor.ty and visitor.ty.startswith("obj:") else None
    for c in (eng.reg.mro(cls) if cls else []):
        k = eng.reg.classes.get(c)
        for fname, fty in (k.fields.items() if k else []):
            if fty == "dict":
                tables.append(get_ref(old.get_field(visitor.ref, fname)))
    for t in tables:
        eng.check_write(s, t, "dict")
    new = old.havoc(["dlen", "dkeys", "dhas", "didx", "dval"], ["value"], "visit")
    new.alloc = smt.fresh("visit_alloc", smt.I)
    s.assume(new.alloc >= old.alloc)
    may_dict = lambda x: z3.Or([x == t for t in tables]) if tables else z3.BoolVal(False)
    s.assume(*new.frame_facts(old, ["dlen", "dkeys", "dhas", "didx", "dval"], [], may_dict))
    s.assume(*new.frame_facts(old, [], ["value"], lambda x: REACH(troot, x)))
    s.assume(*new.closed_facts())
    s.heap = new
    # the tables stay str -> str maps (postcondition of every callback in dec.py that writes them)
    kk = z3.Const("vv_k", Val)
    for t in tables:
        s.assume(*new.dict_wf(t))
        s.assume(z3.ForAll([kk], z3.Implies(new.dhas(t, kk), z3.And(is_str(kk), is_str(new.dget(t, kk)))), patterns=[new.dhas(t, kk)]))
    return [(tree, s)]


def in_frame_of(eng, r):
    from pyvc.values import in_frame
    return in_frame(r, eng.modifies_refs)
