"""C07 (and the C05 half of get_definitions): the declaration getters of dec.py.

Each postcondition is written from the property: every statement of the kind is accounted for, names
verbatim, numbers as numbers, the LATER declaration of a name wins.  `stmts(parsed_file, kind)` is the
sequence of statements of that kind in file order (Tree.find_data, assumed contract X-TREE)."""
from pyvc.contracts import contract

WF = ["wf_file(parsed_file)"]


def lastwins(kind, key, val, str_values=False):
    """dict result: keys = names declared, value = that of the last declaration of the name"""
    S = f"stmts(parsed_file, '{kind}')"
    K = lambda j: key.format(t=f"{S}[{j}]")
    V = lambda j: val.format(t=f"{S}[{j}]")
    return ([
        "forallv(lambda k: implies(dhas(result, k), typ(dget(result, k), 'str')))"] if str_values else []) + [
        "isfresh(result)",
        "forallv(lambda k: implies(dhas(result, k), typ(k, 'str')))",
        # every statement accounted for
        f"forall(lambda j: implies(0 <= j < len({S}), dhas(result, {K('j')})))",
        # nothing invented: every entry is (name, value) of some statement
        f"forallv(lambda k: implies(dhas(result, k), exists(lambda j: 0 <= j < len({S}) and {K('j')} == k and dget(result, k) == {V('j')})))",
        # the last declaration of a name gives its value
        f"forall(lambda j: implies(0 <= j < len({S}) and forall(lambda l: implies(j < l < len({S}), {K('l')} != {K('j')})),"
        f"                         dget(result, {K('j')}) == {V('j')}))",
    ]


contract("decaylanguage.dec.dec.get_aliases", types={"parsed_file": "obj:Tree"}, requires=["wf_labels(parsed_file, 'alias')"],
         ensures=lastwins("alias", "{t}.children[0].value", "{t}.children[1].value", True),
         returns="dict", properties=["C07"])

contract("decaylanguage.dec.dec.get_charge_conjugate_defs", types={"parsed_file": "obj:Tree"}, requires=["wf_labels(parsed_file, 'chargeconj')"],
         ensures=lastwins("chargeconj", "{t}.children[0].value", "{t}.children[1].value", True),
         returns="dict", properties=["C07", "C03"])

contract("decaylanguage.dec.dec.get_definitions", types={"parsed_file": "obj:Tree"}, requires=["wf_labels(parsed_file, 'define')"],
         ensures=lastwins("define", "{t}.children[0].value", "float({t}.children[1].value)"),
         returns="dict", properties=["C07", "C05"])

contract("decaylanguage.dec.dec.get_decays2copy_statements", types={"parsed_file": "obj:Tree"}, requires=["wf_labels(parsed_file, 'copydecay', 'label')"],
         ensures=lastwins("copydecay", "{t}.children[0].children[0].value", "{t}.children[1].children[0].value", True),
         returns="dict", properties=["C07", "C08"])

contract("decaylanguage.dec.dec._str_or_float", types={"arg": "str"},
         ensures=["implies(float_ok(arg), typ(result, 'float') and result == float(arg))",
                  "implies(not float_ok(arg), same(result, arg))"],
         properties=["C07"])

contract("decaylanguage.dec.dec._str_to_bool", types={"arg": "str"},
         ensures=["result == (arg == 'yes')"],
         raises={"ValueError": "arg != 'yes' and arg != 'no'"},
         returns="bool", properties=["C07"])

S = "stmts(parsed_file, 'global_photos')"
contract("decaylanguage.dec.dec.get_global_photos_flag", types={"parsed_file": "obj:Tree"}, requires=["wf_labels(parsed_file, 'global_photos', 'yes', 'no')"],
         ensures=[
             # off when absent
             f"implies(len({S}) == 0, result == 0)",
             # otherwise the LAST flag given
             f"implies(len({S}) > 0, result == (1 if {S}[len({S}) - 1].children[0].data == 'yes' else 0))",
         ],
         returns="int", properties=["C07"])

S = "stmts(parsed_file, 'cdecay')"
contract("decaylanguage.dec.dec.get_charge_conjugate_decays", types={"parsed_file": "obj:Tree"}, requires=["wf_labels(parsed_file, 'cdecay')"],
         ensures=[
             "isfresh(result)",
             f"len(result) == len({S})",
             # a permutation of the names of all CDecay statements (multiset kept) ...
             f"forall(lambda j: implies(0 <= j < len(result), 0 <= sorted_src(result, j) < len({S}) and "
             f"       same(result[j], {S}[sorted_src(result, j)].children[0].value)))",
             f"forall(lambda j, k: implies(0 <= j < k < len(result), sorted_src(result, j) != sorted_src(result, k)))",
             # ... in ascending order
             "forall(lambda j, k: implies(0 <= j < k < len(result), str_le(result[j], result[k])))",
         ],
         returns="list", properties=["C07", "C03"])

S = "stmts(parsed_file, 'setlspw')"


def _pw(L, j):
    """facts about element j of list L: it is ([m, d1, d2], int) of the j-th SetLineshapePW statement"""
    e = f"lget({L}, {j})"
    return [f"typ({e}, 'tuple') and llen({e}) == 2",
            f"llen(lget({e}, 0)) == 3",
            f"lget(lget({e}, 0), 0) == {S}[{j}].children[0].value",
            f"lget(lget({e}, 0), 1) == {S}[{j}].children[1].value",
            f"lget(lget({e}, 0), 2) == {S}[{j}].children[2].value",
            f"lget({e}, 1) == int({S}[{j}].children[3].value)"]


contract("decaylanguage.dec.dec.get_lineshapePW_definitions", types={"parsed_file": "obj:Tree"}, requires=["wf_labels(parsed_file, 'setlspw')"],
         ensures=["isfresh(result)", f"len(result) == len({S})"] +
                 # every statement, in order, as ([mother, d1, d2], int)
                 [f"forall(lambda j: implies(0 <= j < len(result), {c}))" for c in _pw("result", "j")],
         loops={"loop#0": {"invariant": ["isfresh(d)", "len(d) == _i"] +
                           [f"forall(lambda j: implies(0 <= j < _i, {c}))" for c in _pw("d", "j")] +
                           # the tuples and name lists already stored are objects of their own
                           ["forall(lambda j: implies(0 <= j < _i, isfresh(lget(d, j)) and isfresh(lget(lget(d, j), 0))))"],
                           "types": {"d": "list"}}},
         returns="list", properties=["C07"])


# ---- the DecFileParser methods that delegate to the getters above (C07/C08: queries do not change the parser) ----
from pyvc.contracts import REG  # noqa: E402


def wrapper(method, getter, props, labels, extra_raises=None):
    g = REG.contracts["decaylanguage.dec.dec." + getter]
    sub = lambda src: src.replace("parsed_file", "self._parsed_dec_file")
    contract("decaylanguage.dec.dec.DecFileParser." + method,
             requires=[f"self._parsed_dec_file is None or (typ(self._parsed_dec_file, 'obj:Tree') and wf_labels(self._parsed_dec_file, {labels}))"],
             ensures=[sub(e) for e in g.ensures_src],
             raises=dict({"DecFileNotParsed": "self._parsed_dec_file is None"}, **(extra_raises or {})),
             returns=g.returns, properties=props)


wrapper("dict_decays2copy", "get_decays2copy_statements", ["C07", "C08"], "'copydecay', 'label'")
wrapper("dict_definitions", "get_definitions", ["C07", "C05"], "'define'")
wrapper("dict_aliases", "get_aliases", ["C07"], "'alias'")
wrapper("dict_charge_conjugates", "get_charge_conjugate_defs", ["C07", "C03"], "'chargeconj'")
wrapper("list_charge_conjugate_decays", "get_charge_conjugate_decays", ["C07", "C03"], "'cdecay'")
wrapper("list_lineshapePW_definitions", "get_lineshapePW_definitions", ["C07"], "'setlspw'")
wrapper("global_photos_flag", "get_global_photos_flag", ["C07"], "'global_photos', 'yes', 'no'")

# ---- Particle <NAME> <MASS> [<WIDTH>] -----------------------------------------------------------------------------------
def particle_props(acc, S, n):
    K = lambda j: f"{S}[{j}].children[0].value"
    last = lambda j: f"forall(lambda l: implies({j} < l < {n}, {K('l')} != {K(j)}))"
    E = lambda j: f"dget({acc}, {K(j)})"
    return [
        f"forallv(lambda k: implies(dhas({acc}, k), typ(k, 'str')))",
        # every statement accounted for ...
        f"forall(lambda j: implies(0 <= j < {n}, dhas({acc}, {K('j')})))",
        # ... nothing invented ...
        f"forallv(lambda k: implies(dhas({acc}, k), exists(lambda j: 0 <= j < {n} and {K('j')} == k)))",
        # ... and the LAST statement of a name gives its mass, and its width when it states one
        f"forall(lambda j: implies(0 <= j < {n} and {last('j')}, typ({E('j')}, 'dict') and dhas({E('j')}, 'mass') and dhas({E('j')}, 'width')))",
        f"forall(lambda j: implies(0 <= j < {n} and {last('j')}, dget({E('j')}, 'mass') == float({S}[j].children[1].value)))",
        f"forall(lambda j: implies(0 <= j < {n} and {last('j')} and len({S}[j].children) > 2, dget({E('j')}, 'width') == float({S}[j].children[2].value)))",
    ]


SP = "stmts(parsed_file, 'particle_def')"
contract("decaylanguage.dec.dec.get_particle_property_definitions", types={"parsed_file": "obj:Tree"},
         requires=["wf_labels(parsed_file, 'particle_def', 'alias')"],
         ensures=["typ(result, 'dict') and isfresh(result)"] + particle_props("result", SP, f"len({SP})"),
         # a width that is not stated is looked up in the particle table (through the aliases); an unknown name is an error
         raises={"RuntimeError": None},
         loops={"comp#0": {"invariant": ["typ(_acc, 'dict') and isfresh(_acc)",
                                         "forallv(lambda k: implies(dhas(_acc, k), typ(dget(_acc, k), 'dict') and refnum(dget(_acc, k)) >= _loop_alloc))"]
                                        + particle_props("_acc", "_seq", "_i"),
                           "types": {"_acc": "dict"}}},
         returns="dict", properties=["C07"])


# ---- Pythia<TYPE>Param <MODULE>:<PARAM>=<VALUE> --------------------------------------------------------------------------
def pythia_props(d, S, n):
    T = lambda j: f"{S}[{j}].children[0].value"
    K = lambda j: f"({S}[{j}].children[1].value + ':' + {S}[{j}].children[2].value)"
    V = lambda j: f"{S}[{j}].children[3].value"
    E = lambda j: f"dget(dget({d}, {T(j)}), {K(j)})"
    last = lambda j: f"forall(lambda l: implies({j} < l < {n}, not ({T('l')} == {T(j)} and {K('l')} == {K(j)})))"
    return [
        # every statement accounted for, under its type and its MODULE:PARAM key ...
        f"forall(lambda j: implies(0 <= j < {n}, dhas({d}, {T('j')}) and typ(dget({d}, {T('j')}), 'dict') and dhas(dget({d}, {T('j')}), {K('j')})))",
        # ... nothing invented ...
        f"forallv(lambda t: implies(dhas({d}, t), typ(dget({d}, t), 'dict') and exists(lambda j: 0 <= j < {n} and {T('j')} == t)))",
        f"forallv(lambda t, k: implies(dhas({d}, t) and dhas(dget({d}, t), k), exists(lambda j: 0 <= j < {n} and {T('j')} == t and {K('j')} == k)))",
        # ... and the LAST statement for a (type, key) gives the value: a number when it reads as one, the word otherwise
        f"forall(lambda j: implies(0 <= j < {n} and {last('j')} and float_ok({V('j')}), {E('j')} == float({V('j')})))",
        f"forall(lambda j: implies(0 <= j < {n} and {last('j')} and not float_ok({V('j')}), same({E('j')}, {V('j')})))",
    ]


SY = "stmts(parsed_file, 'pythia_def')"
contract("decaylanguage.dec.dec.get_pythia_definitions", types={"parsed_file": "obj:Tree"},
         requires=["wf_labels(parsed_file, 'pythia_def')"],
         ensures=["typ(result, 'dict') and isfresh(result)"] + pythia_props("result", SY, f"len({SY})"),
         loops={"loop#0": {"invariant": ["typ(d, 'dict') and isfresh(d)",
                                         # the per-type dictionaries are objects of their own, made in this loop
                                         "forallv(lambda t: implies(dhas(d, t), typ(dget(d, t), 'dict') and refnum(dget(d, t)) >= _loop_alloc))",
                                         "forallv(lambda t, u: implies(dhas(d, t) and dhas(d, u) and t != u, not same(dget(d, t), dget(d, u))))"]
                                        + pythia_props("d", "_seq", "_i"),
                           "types": {"d": "dict"}}},
         returns="dict", properties=["C07"])


wrapper("dict_pythia_definitions", "get_pythia_definitions", ["C07"], "'pythia_def'")
wrapper("get_particle_property_definitions", "get_particle_property_definitions", ["C07"], "'particle_def', 'alias'", {"RuntimeError": None})


# ---- ModelAlias <NAME> <MODEL ...>: the table parse() expands aliases from (C05) -------------------------------------------
def raw_alias_props(acc, S, n):
    K = lambda j: f"{S}[{j}].children[0].children[0].value"
    last = lambda j: f"forall(lambda l: implies({j} < l < {n}, {K('l')} != {K(j)}))"
    E = lambda j: f"dget({acc}, {K(j)})"
    return [
        f"forallv(lambda k: implies(dhas({acc}, k), typ(k, 'str')))",
        # every ModelAlias statement accounted for ...
        f"forall(lambda j: implies(0 <= j < {n}, dhas({acc}, {K('j')})))",
        # ... nothing invented ...
        f"forallv(lambda k: implies(dhas({acc}, k), exists(lambda j: 0 <= j < {n} and {K('j')} == k)))",
        # ... and the LAST statement of a name gives its model: a private deep copy of that statement's model children
        f"forall(lambda j: implies(0 <= j < {n} and {last('j')}, typ({E('j')}, 'list') and copied_from({E('j')}, {S}[j].children[1].children)))",
    ]


SMA = "stmts(self._parsed_dec_file, 'model_alias')"
contract("decaylanguage.dec.dec.DecFileParser._dict_raw_model_aliases",
         requires=["self._parsed_dec_file is None or (typ(self._parsed_dec_file, 'obj:Tree') and wf_labels(self._parsed_dec_file, 'model_alias', 'model_label', 'model'))"],
         ensures=["typ(result, 'dict') and isfresh(result)",
                  # every stored definition is a new object: nothing of the parsed file is handed out
                  "forallv(lambda k: implies(dhas(result, k), isfresh(dget(result, k))))"]
                 + raw_alias_props("result", SMA, f"len({SMA})"),
         raises={"DecFileNotParsed": "self._parsed_dec_file is None"},
         loops={"comp#0": {"invariant": ["typ(_acc, 'dict') and isfresh(_acc)",
                                         "forallv(lambda k: implies(dhas(_acc, k), typ(dget(_acc, k), 'list') and refnum(dget(_acc, k)) >= _loop_alloc))"]
                                        + raw_alias_props("_acc", "_seq", "_i"),
                           "types": {"_acc": "dict"}}},
         returns="dict", properties=["C05"])


# ---- lineshape settings: LS* / BlattWeisskopf / ChangeMassMin|Max / IncludeBirth|DecayFactor -------------------------------
# (statement kind, name of the particle or alias, key of the setting, its value) — written from the property
LS_KINDS = [
    ("ls_def", "{t}.children[1].value", "'lineshape'", "same({e}, {t}.children[0].value)"),
    ("setlsbw", "{t}.children[0].value", "'BlattWeisskopf'", "{e} == float({t}.children[1].value)"),
    ("changemasslimit", "{t}.children[1].value", "{t}.children[0].value", "{e} == float({t}.children[2].value)"),
    ("inc_factor", "{t}.children[1].value", "{t}.children[0].value", "{e} == ({t}.children[2].value == 'yes')"),
]


def ls_seq(c, cur):
    """(sequence, length) expressions of statement kind c when the loop over kind `cur` is running (cur=4: at the end)"""
    S = f"stmts(parsed_file, '{LS_KINDS[c][0]}')"
    if c < cur:
        return S, f"len({S})"
    if c == cur:
        return "_seq", "_i"
    return S, "0"


def ls_dup(c, S, n):
    _, N, K, _ = LS_KINDS[c]
    t = lambda j: f"{S}[{j}]"
    return f"exists(lambda j, l: 0 <= j < l < {n} and {N.format(t=t('j'))} == {N.format(t=t('l'))} and {K.format(t=t('j'))} == {K.format(t=t('l'))})"


def ls_props(d, cur):
    out = [f"forallv(lambda p: implies(dhas({d}, p), typ(p, 'str') and typ(dget({d}, p), 'dict')))"]
    named, keyed = [], []
    for c, (_, N, K, V) in enumerate(LS_KINDS):
        S, n = ls_seq(c, cur)
        if n == "0":
            continue
        t = f"{S}[j]"
        Nj, Kj = N.format(t=t), K.format(t=t)
        e = f"dget(dget({d}, {Nj}), {Kj})"
        # every statement accounted for: the setting is reported under the particle / alias, with its value
        out.append(f"forall(lambda j: implies(0 <= j < {n}, dhas({d}, {Nj}) and dhas(dget({d}, {Nj}), {Kj}) and {V.format(t=t, e=e)}))")
        # no setting is given twice (a repeated setting is an error, not an override)
        out.append(f"not {ls_dup(c, S, n)}")
        named.append(f"exists(lambda j: 0 <= j < {n} and {Nj} == p)")
        keyed.append(f"exists(lambda j: 0 <= j < {n} and {Nj} == p and {Kj} == k)")
    # nothing invented: every particle reported, and every setting reported for it, comes from a statement
    out.append(f"forallv(lambda p: implies(dhas({d}, p), {' or '.join(named) if named else 'False'}))")
    out.append(f"forallv(lambda p, k: implies(dhas({d}, p) and dhas(dget({d}, p), k), {' or '.join(keyed) if keyed else 'False'}))")
    return out


def ls_inv(cur):
    return (["typ(d, 'dict') and isfresh(d)",
             # the per-particle dictionaries are objects of their own, made in this call
             "forallv(lambda p: implies(dhas(d, p), isfresh(dget(d, p))))",
             "forallv(lambda p, q: implies(dhas(d, p) and dhas(d, q) and p != q, not same(dget(d, p), dget(d, q))))"]
            + ls_props("d", cur))


import os  # noqa: E402

# WIP (152 of 166 obligations discharged so far: the preservation of the loop#2/loop#3 invariants and three raise-path
# obligations are still open) — registered only on request, counted nowhere
if os.environ.get("PYVC_WIP"):
  contract("decaylanguage.dec.dec.get_lineshape_settings", types={"parsed_file": "obj:Tree"},
           requires=["wf_labels(parsed_file, 'ls_def', 'setlsbw', 'changemasslimit', 'inc_factor')"],
           ensures=["typ(result, 'dict') and isfresh(result)"] + ls_props("result", 4),
           # a repeated setting (same kind of setting for the same particle or alias) is refused
           raises={"RuntimeError": " or ".join(ls_dup(c, f"stmts(parsed_file, '{LS_KINDS[c][0]}')", f"len(stmts(parsed_file, '{LS_KINDS[c][0]}'))") for c in range(4))},
           loops={f"loop#{c}": {"invariant": ls_inv(c), "types": {"d": "dict"}, "modifies": ["fresh_objects()"]} for c in range(4)},
           returns="dict", properties=[])
