"""C07 (and the C05 half of get_definitions): the declaration getters of dec.py.

Each postcondition is written from the property: every statement of the kind is accounted for, names
verbatim, numbers as numbers, the LATER declaration of a name wins.  `stmts(parsed_file, kind)` is the
sequence of statements of that kind in file order (Tree.find_data, assumed contract X-TREE)."""
from pyvc.contracts import contract

WF = ["wf_file(parsed_file)"]


def lastwins(kind, key, val):
    """dict result: keys = names declared, value = that of the last declaration of the name"""
    S = f"stmts(parsed_file, '{kind}')"
    K = lambda j: key.format(t=f"{S}[{j}]")
    V = lambda j: val.format(t=f"{S}[{j}]")
    return [
        "isfresh(result)",
        # every statement accounted for
        f"forall(lambda j: implies(0 <= j < len({S}), dhas(result, {K('j')})))",
        # nothing invented
        f"forallv(lambda k: implies(dhas(result, k), exists(lambda j: 0 <= j < len({S}) and {K('j')} == k)))",
        # the last declaration of a name gives its value
        f"forall(lambda j: implies(0 <= j < len({S}) and forall(lambda l: implies(j < l < len({S}), {K('l')} != {K('j')})),"
        f"                         dget(result, {K('j')}) == {V('j')}))",
    ]


contract("decaylanguage.dec.dec.get_aliases", types={"parsed_file": "obj:Tree"}, requires=WF,
         ensures=lastwins("alias", "{t}.children[0].value", "{t}.children[1].value"),
         returns="dict", properties=["C07"])

contract("decaylanguage.dec.dec.get_charge_conjugate_defs", types={"parsed_file": "obj:Tree"}, requires=WF,
         ensures=lastwins("chargeconj", "{t}.children[0].value", "{t}.children[1].value"),
         returns="dict", properties=["C07", "C03"])

contract("decaylanguage.dec.dec.get_definitions", types={"parsed_file": "obj:Tree"}, requires=WF,
         ensures=lastwins("define", "{t}.children[0].value", "float({t}.children[1].value)"),
         returns="dict", properties=["C07", "C05"])

contract("decaylanguage.dec.dec.get_decays2copy_statements", types={"parsed_file": "obj:Tree"}, requires=WF,
         ensures=lastwins("copydecay", "{t}.children[0].children[0].value", "{t}.children[1].children[0].value"),
         returns="dict", properties=["C07", "C08"])
