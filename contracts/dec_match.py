from pyvc.contracts import contract

D = "dict_cc_names"
contract("decaylanguage.dec.dec.find_charge_conjugate_match",
  types={"pname": "str", D: "dict|none"},
  requires=[f"{D} is None or is_dict_str_str({D})"],
  ensures=[
    # 1. ChargeConj table read in the stated direction first
    f"implies({D} is not None and dhas({D}, pname), same(result, dget({D}, pname)))",
    # 2. otherwise in the other direction: the FIRST declared pair (insertion order) whose second name is pname
    f"implies({D} is not None and not dhas({D}, pname) and exists(lambda j: 0 <= j < dlen({D}) and value_at({D}, j) == pname),"
    f"        exists(lambda j: 0 <= j < dlen({D}) and value_at({D}, j) == pname and same(result, key_at({D}, j))"
    f"                         and forall(lambda l: implies(0 <= l < j, value_at({D}, l) != pname))))",
    # 3. otherwise the particle data base (name utility)
    f"implies({D} is None or (not dhas({D}, pname) and forall(lambda j: implies(0 <= j < dlen({D}), value_at({D}, j) != pname))),"
    f"        result == ccname(pname))",
  ],
  loops={"loop#0": {"invariant": [f"forall(lambda l: implies(0 <= l < _i, value_at({D}, l) != pname))"]}},
  returns="str", properties=["C03"])

contract("decaylanguage.utils.particleutils.charge_conjugate_name",
  types={"name": "str", "pdg_name": "bool"},
  # never raises, never returns anything but: data-base inverse / name of the negated ID / ChargeConj(name) marker
  # (EvtGen route), or the PDG spelling of that for the PDG route — this is the definition of ccname
  defs=["ccname_def(name)"],
  ensures=["result == ccname(name, pdg_name)"],
  returns="str", properties=["C04", "C03"])
