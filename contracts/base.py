"""Spec functions shared by all contract files (raw heap accessors that need no static types,
uninterpreted spec-level functions for externally defined notions)."""
import z3

from pyvc import smt
from pyvc.contracts import spec_function
from pyvc.smt import VStr, Val, get_ref, get_s
from pyvc.values import SV, sv_bool, sv_int, sv_str


def _ref(eng, st, d):
    return get_ref(eng.as_val(st, d).t)


@spec_function()
def dhas(eng, st, d, k):
    r = _ref(eng, st, d)
    st.assume(*st.heap.dict_wf(r))
    return sv_bool(st.heap.dhas(r, eng.as_val(st, k).t))


@spec_function()
def dget(eng, st, d, k):
    return SV(st.heap.dget(_ref(eng, st, d), eng.as_val(st, k).t), None)


@spec_function()
def dlen(eng, st, d):
    r = _ref(eng, st, d)
    st.assume(*st.heap.dict_wf(r))
    return sv_int(st.heap.dlen(r))


@spec_function()
def key_at(eng, st, d, j):
    return SV(z3.Select(st.heap.dkeys(_ref(eng, st, d)), eng.as_val(st, j).i), None)


@spec_function()
def value_at(eng, st, d, j):
    r = _ref(eng, st, d)
    return SV(st.heap.dget(r, z3.Select(st.heap.dkeys(r), eng.as_val(st, j).i)), None)


@spec_function()
def llen(eng, st, l):
    return sv_int(st.heap.llen(_ref(eng, st, l)))


TOUCH = z3.Function("touch_row", smt.ArrIV, smt.B)


def _mentions_bound(t):
    from z3.z3util import get_vars
    return any(v.decl().name().startswith("q_") for v in get_vars(t))


@spec_function()
def lget(eng, st, l, j):
    r = _ref(eng, st, l)
    idx = eng.as_val(st, j).i
    if _mentions_bound(idx) and not _mentions_bound(r):
        # l[<bound variable>] of a fixed list: put the row itself, as a ground term, before the solver (an uninterpreted
        # predicate nobody constrains, so the assumption is void); the array theory then relates it to the rows of the
        # earlier heap versions and quantified facts about those become instantiable by E-matching
        st.assume(TOUCH(st.heap.lelems(r)))
    return SV(st.heap.lget(r, idx), None)


@spec_function()
def is_dict_str_str(eng, st, d):
    """d is a dict whose keys and values are all str"""
    v = eng.as_val(st, d)
    r = get_ref(v.t)
    k = z3.Const("dss_k", Val)
    h = st.heap
    return sv_bool(z3.And(eng.typ_is(SV(v.t, None), "dict"),
                          z3.ForAll([k], z3.Implies(h.dhas(r, k), z3.And(smt.is_str(k), smt.is_str(h.dget(r, k)))),
                                    patterns=[h.dhas(r, k)])))


# charge conjugate of a name according to the installed particle tables: uninterpreted here; its
# algebraic properties (axiom A-CC) are established by exhaustive enumeration in check C04
CCNAME = z3.Function("ccname", smt.S, smt.B, smt.S)


@spec_function()
def ccname(eng, st, name, pdg_name=None):
    n = eng.as_val(st, name)
    p = z3.BoolVal(False) if pdg_name is None else eng.truth(st, pdg_name)
    return sv_str(CCNAME(get_s(n.t), p))


@spec_function()
def float_ok(eng, st, s):
    return sv_bool(smt.float_ok(get_s(eng.as_val(st, s).t)))


@spec_function()
def int_ok(eng, st, s):
    return sv_bool(smt.int_ok(get_s(eng.as_val(st, s).t)))


@spec_function()
def sorted_src(eng, st, lst, j):
    """ghost: position in the input of the element that sorted() put at position j of its result"""
    from pyvc.builtins_model import PERM
    return sv_int(PERM(_ref(eng, st, lst), eng.as_val(st, j).i))


@spec_function()
def str_le(eng, st, a, b):
    return sv_bool(get_s(eng.as_val(st, a).t) <= get_s(eng.as_val(st, b).t))


@spec_function()
def is_dict_str_float(eng, st, d):
    """d is a dict whose keys are str and whose values are float"""
    v = eng.as_val(st, d)
    r = get_ref(v.t)
    k = z3.Const("dsf_k", Val)
    h = st.heap
    return sv_bool(z3.And(eng.typ_is(SV(v.t, None), "dict"),
                          z3.ForAll([k], z3.Implies(h.dhas(r, k), z3.And(smt.is_str(k), smt.is_real(h.dget(r, k)))),
                                    patterns=[h.dhas(r, k)])))


@spec_function()
def str_starts_minus(eng, st, s):
    x = get_s(eng.as_val(st, s).t)
    return sv_bool(z3.SubString(x, 0, 1) == z3.StringVal("-"))


@spec_function()
def str_tail(eng, st, s):
    x = get_s(eng.as_val(st, s).t)
    return sv_str(z3.SubString(x, 1, z3.Length(x) - 1))


@spec_function()
def refnum(eng, st, x):
    """the reference (allocation number) of an object: later allocations have larger numbers"""
    return sv_int(get_ref(eng.as_val(st, x).t))


@spec_function()
def ghost(eng, st, obj, name):
    """ghost attribute `name` of obj (written by the contract's ghost_on_return of the function that made obj)"""
    n = name.s.as_string() if hasattr(name, "s") and z3.is_string_value(name.s) else str(name)
    return SV(st.heap.get_field(get_ref(eng.as_val(st, obj).t), "$" + n), None)


@spec_function()
def tok_text(eng, st, t):
    """the text of a lark Token (Token is a str subclass: what str(token) / float(token) read)"""
    return sv_str(smt.TOKTEXT(_ref(eng, st, t)))
